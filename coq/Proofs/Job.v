(* C17 -- lemmas about Model/Job.v *)
From Coq Require Import List Bool NArith ZArith String Ascii Lia Arith.
Import ListNotations.
From Molli Require Import Model.Job.
Local Open Scope string_scope.

(* ------------------------------------------------------------------ strings *)
Lemma str_length_app (a b : string) : String.length (a ++ b) = String.length a + String.length b.
Proof. induction a as [|c a IH]; simpl; [reflexivity|]. now rewrite IH. Qed.

Lemma str_app_inj_l (x a b : string) : a ++ x = b ++ x -> a = b.
Proof.
  revert b. induction a as [|c a IH]; intros [|d b] H; simpl in H.
  - reflexivity.
  - exfalso. apply (f_equal String.length) in H. simpl in H. rewrite str_length_app in H. lia.
  - exfalso. apply (f_equal String.length) in H. simpl in H. rewrite str_length_app in H. lia.
  - injection H as -> H. f_equal. now apply IH.
Qed.

Lemma out_ne_err (a b : string) : a ++ ".out" <> b ++ ".err".
Proof.
  revert b. induction a as [|c a IH]; intros [|d b] H; simpl in H.
  - discriminate.
  - injection H as _ H. apply (f_equal String.length) in H. simpl in H. rewrite str_length_app in H. simpl in H. lia.
  - injection H as _ H. apply (f_equal String.length) in H. simpl in H. rewrite str_length_app in H. simpl in H. lia.
  - injection H as _ H. now apply IH in H.
Qed.

Lemma eqb_false_ne (a b : string) : a <> b -> String.eqb a b = false.
Proof. intro H. destruct (String.eqb a b) eqn:E; [apply String.eqb_eq in E; contradiction|reflexivity]. Qed.

(* ------------------------------------------------------------------ dicts *)
Section DictFacts.
  Context {V : Type}.
  Implicit Types (d : list (string * V)).

  Lemma dget_dset_same k v d : dget k (dset k v d) = Some v.
  Proof.
    induction d as [|[k' v'] r IH]; simpl; [now rewrite String.eqb_refl|].
    destruct (String.eqb k k') eqn:E; simpl; rewrite ?E; [now rewrite String.eqb_refl|exact IH].
  Qed.

  Lemma dget_dset_other k k' v d : k <> k' -> dget k (dset k' v d) = dget k d.
  Proof.
    intro Hne. induction d as [|[k2 v2] r IH]; simpl.
    - now rewrite (eqb_false_ne _ _ Hne).
    - destruct (String.eqb k' k2) eqn:E; simpl.
      + apply String.eqb_eq in E. subst k2. now rewrite (eqb_false_ne _ _ Hne).
      + destruct (String.eqb k k2); [reflexivity|exact IH].
  Qed.

  Lemma dget_dset k k' v d : dget k (dset k' v d) = if String.eqb k k' then Some v else dget k d.
  Proof.
    destruct (String.eqb k k') eqn:E.
    - apply String.eqb_eq in E. subst. apply dget_dset_same.
    - apply dget_dset_other. intro; subst. now rewrite String.eqb_refl in E.
  Qed.

  Lemma dget_none_notin k d : dget k d = None <-> ~ In k (map fst d).
  Proof.
    induction d as [|[k' v'] r IH]; simpl; [tauto|].
    destruct (String.eqb k k') eqn:E.
    - apply String.eqb_eq in E. subst. split; [discriminate|intro H; exfalso; apply H; now left].
    - rewrite IH. split; [intros H [H1|H1]; [subst; now rewrite String.eqb_refl in E|contradiction]|tauto].
  Qed.

  Lemma dget_in k v d : NoDup (map fst d) -> In (k, v) d -> dget k d = Some v.
  Proof.
    induction d as [|[k' v'] r IH]; simpl; intros Hnd Hin; [contradiction|].
    inversion Hnd as [|? ? Hni Hnd']; subst.
    destruct Hin as [Heq|Hin].
    - injection Heq as -> ->. now rewrite String.eqb_refl.
    - destruct (String.eqb k k') eqn:E; [|now apply IH].
      apply String.eqb_eq in E. subst. exfalso. apply Hni. now apply (in_map fst) in Hin.
  Qed.

  (* a | b : b wins, a shows through where b has no key *)
  Lemma dget_fold_dset k (b : list (string * V)) : forall a, NoDup (map fst b) ->
    dget k (fold_left (fun (acc : list (string * V)) (kv : string * V) => dset (fst kv) (snd kv) acc) b a)
    = match dget k b with Some v => Some v | None => dget k a end.
  Proof.
    induction b as [|[k' v'] r IH]; intros a Hnd; simpl; [reflexivity|].
    inversion Hnd as [|? ? Hni Hnd']; subst.
    rewrite IH by assumption. simpl.
    destruct (String.eqb k k') eqn:E.
    - apply String.eqb_eq in E. subst k'.
      assert (Hn : dget k r = None) by now apply dget_none_notin.
      rewrite Hn. apply dget_dset_same.
    - destruct (dget k r); [reflexivity|]. apply dget_dset_other. intro; subst. now rewrite String.eqb_refl in E.
  Qed.

  Lemma dget_dmerge k (a b : list (string * V)) : NoDup (map fst b) ->
    dget k (dmerge a b) = match dget k b with Some v => Some v | None => dget k a end.
  Proof. apply dget_fold_dset. Qed.

  Lemma dset_fresh k v d : ~ In k (map fst d) -> dset k v d = (d ++ [(k, v)])%list.
  Proof.
    induction d as [|[k' v'] r IH]; simpl; intro H; [reflexivity|].
    destruct (String.eqb k k') eqn:E.
    - apply String.eqb_eq in E. subst. exfalso. apply H. now left.
    - f_equal. apply IH. tauto.
  Qed.

  Lemma fold_dset_fresh (b : list (string * V)) : forall a, NoDup (map fst b) ->
    (forall k, In k (map fst b) -> ~ In k (map fst a)) ->
    fold_left (fun (acc : list (string * V)) (kv : string * V) => dset (fst kv) (snd kv) acc) b a = (a ++ b)%list.
  Proof.
    induction b as [|[k v] r IH]; intros a Hnd Hdis; simpl; [now rewrite app_nil_r|].
    inversion Hnd as [|? ? Hni Hnd']; subst.
    rewrite dset_fresh by (apply Hdis; now left).
    rewrite IH; [now rewrite <- app_assoc|assumption|].
    intros k0 Hk0. rewrite map_app, in_app_iff. simpl. intros [H|[H|[]]].
    - apply (Hdis k0); [now right|exact H].
    - subst. contradiction.
  Qed.

  Lemma dmerge_nil_l (b : list (string * V)) : NoDup (map fst b) -> dmerge [] b = b.
  Proof. intro H. unfold dmerge. rewrite fold_dset_fresh; auto. Qed.
End DictFacts.

(* ================================================================== (i) binding *)
Lemma nget_nset_same {V} i (v : V) l : nget i (nset i v l) = Some v.
Proof.
  induction l as [|[j w] r IH]; simpl; [now rewrite N.eqb_refl|].
  destruct (N.eqb i j) eqn:E; simpl; rewrite ?E; [now rewrite N.eqb_refl|exact IH].
Qed.

Lemma nget_nset_other {V} i j (v : V) l : i <> j -> nget i (nset j v l) = nget i l.
Proof.
  intro Hne. assert (Hf : N.eqb i j = false) by now apply N.eqb_neq.
  induction l as [|[k w] r IH]; simpl; [now rewrite Hf|].
  destruct (N.eqb j k) eqn:E; simpl.
  - apply N.eqb_eq in E. subst k. now rewrite Hf.
  - destruct (N.eqb i k); [reflexivity|exact IH].
Qed.

Definition concerns (i : N) (ev : bevent) : bool :=
  match ev with
  | BCreate j _ _ | BSet j _ | BUse j | BUseCls j | BGet j _ | BGetCls j _ => N.eqb i j
  | BPrep _ => false
  end.

(* the event puts a (new) bound job into the variable h *)
Definition obtains (h : N) (ev : bevent) : bool :=
  match ev with BGet _ k | BGetCls _ k => N.eqb h k | _ => false end.

(* the non-mutating binding never changes the shared descriptor *)
Lemma bstep_shared st ev : bs_shared (fst (bstep MCopy st ev)) = bs_shared st.
Proof.
  destruct ev; simpl; try reflexivity.
  all: destruct (nget i (bs_drivers st)) as [[c s]|]; reflexivity.
Qed.

Lemma brun_shared evs : forall st, bs_shared (fst (brun MCopy st evs)) = bs_shared st.
Proof.
  induction evs as [|ev r IH]; intro st; simpl; [reflexivity|].
  destruct (bstep MCopy st ev) as [st1 o] eqn:E1. destruct (brun MCopy st1 r) as [st2 os] eqn:E2. simpl.
  specialize (IH st1). rewrite E2 in IH. simpl in IH. rewrite IH.
  pose proof (bstep_shared st ev) as H. now rewrite E1 in H.
Qed.

(* an event about another driver leaves driver i's entry alone *)
Lemma bstep_other_driver i st ev : concerns i ev = false ->
  nget i (bs_drivers (fst (bstep MCopy st ev))) = nget i (bs_drivers st).
Proof.
  intro Hc. destruct ev as [j c s|j s|j|j|j h|j h|h]; simpl in *; try apply N.eqb_neq in Hc.
  - now apply nget_nset_other.
  - destruct (nget j (bs_drivers st)) as [[c0 s0]|]; simpl; [now apply nget_nset_other|reflexivity].
  - destruct (nget j (bs_drivers st)) as [[c0 s0]|]; reflexivity.
  - destruct (nget j (bs_drivers st)) as [[c0 s0]|]; reflexivity.
  - destruct (nget j (bs_drivers st)) as [[c0 s0]|]; reflexivity.
  - destruct (nget j (bs_drivers st)) as [[c0 s0]|]; reflexivity.
  - reflexivity.
Qed.

(* an event about driver i acts on i's entry the same way in any two states that agree on it *)
Lemma bstep_same_driver i st st' ev : concerns i ev = true ->
  bs_shared st = bs_shared st' -> nget i (bs_drivers st) = nget i (bs_drivers st') ->
  nget i (bs_drivers (fst (bstep MCopy st ev))) = nget i (bs_drivers (fst (bstep MCopy st' ev)))
  /\ snd (bstep MCopy st ev) = snd (bstep MCopy st' ev).
Proof.
  intros Hc Hs Hd. destruct ev as [j c s|j s|j|j|j h|j h|h]; simpl in *; try discriminate; apply N.eqb_eq in Hc; subst j.
  - now rewrite !nget_nset_same.
  - rewrite <- Hd. destruct (nget i (bs_drivers st)) as [[c0 s0]|] eqn:E; simpl.
    + now rewrite !nget_nset_same.
    + now rewrite E, <- Hd.
  - rewrite <- Hd, <- Hs. destruct (nget i (bs_drivers st)) as [[c0 s0]|] eqn:E; simpl; [now rewrite E, <- Hd | now rewrite E, <- Hd].
  - rewrite <- Hd, <- Hs. destruct (nget i (bs_drivers st)) as [[c0 s0]|] eqn:E; simpl; [now rewrite E, <- Hd | now rewrite E, <- Hd].
  - rewrite <- Hd, <- Hs. destruct (nget i (bs_drivers st)) as [[c0 s0]|] eqn:E; simpl; [now rewrite E, <- Hd | now rewrite E, <- Hd].
  - rewrite <- Hd, <- Hs. destruct (nget i (bs_drivers st)) as [[c0 s0]|] eqn:E; simpl; [now rewrite E, <- Hd | now rewrite E, <- Hd].
Qed.

Lemma brun_filter i evs : forall st st',
  bs_shared st = bs_shared st' -> nget i (bs_drivers st) = nget i (bs_drivers st') ->
  bs_shared (fst (brun MCopy st evs)) = bs_shared (fst (brun MCopy st' (filter (concerns i) evs)))
  /\ nget i (bs_drivers (fst (brun MCopy st evs))) = nget i (bs_drivers (fst (brun MCopy st' (filter (concerns i) evs)))).
Proof.
  induction evs as [|ev r IH]; intros st st' Hs Hd; simpl; [now split|].
  destruct (bstep MCopy st ev) as [st1 o] eqn:E1.
  destruct (brun MCopy st1 r) as [st2 os] eqn:E2. simpl.
  destruct (concerns i ev) eqn:Hc; simpl.
  - destruct (bstep MCopy st' ev) as [st1' o'] eqn:E1'.
    destruct (brun MCopy st1' (filter (concerns i) r)) as [st2' os'] eqn:E2'. simpl.
    destruct (bstep_same_driver i st st' ev Hc Hs Hd) as [Hd1 _]. rewrite E1, E1' in Hd1. simpl in Hd1.
    assert (Hs1 : bs_shared st1 = bs_shared st1').
    { pose proof (bstep_shared st ev) as A. pose proof (bstep_shared st' ev) as B. rewrite E1 in A. rewrite E1' in B.
      simpl in *. congruence. }
    specialize (IH st1 st1' Hs1 Hd1). now rewrite E2, E2' in IH.
  - assert (Hd1 : nget i (bs_drivers st1) = nget i (bs_drivers st')).
    { pose proof (bstep_other_driver i st ev Hc) as A. rewrite E1 in A. simpl in A. congruence. }
    assert (Hs1 : bs_shared st1 = bs_shared st').
    { pose proof (bstep_shared st ev) as A. rewrite E1 in A. simpl in A. congruence. }
    specialize (IH st1 st' Hs1 Hd1). now rewrite E2 in IH.
Qed.

(* what obtaining the job through driver i and using it at once yields after a history *)
Definition use_after (decl : settings) (evs : list bevent) (i : N) : option bound :=
  snd (bstep MCopy (fst (brun MCopy (binit decl) evs)) (BUse i)).
(* the same through driver i's class *)
Definition usecls_after (decl : settings) (evs : list bevent) (i : N) : option bound :=
  snd (bstep MCopy (fst (brun MCopy (binit decl) evs)) (BUseCls i)).
(* what using the bound job KEPT in variable h yields after a history *)
Definition held_after (decl : settings) (evs : list bevent) (h : N) : option bound :=
  snd (bstep MCopy (fst (brun MCopy (binit decl) evs)) (BPrep h)).

Theorem binding_value decl evs i c s :
  nget i (bs_drivers (fst (brun MCopy (binit decl) evs))) = Some (c, s) ->
  use_after decl evs i = Some (bind decl c s).
Proof.
  intro H. unfold use_after. simpl. rewrite H. simpl.
  now rewrite brun_shared.
Qed.

(* ... and it is the same as if the other drivers had never been created, reassigned, used or had their jobs
   obtained and kept *)
Theorem binding_independent decl evs i :
  use_after decl evs i = use_after decl (filter (concerns i) evs) i.
Proof.
  unfold use_after.
  destruct (brun_filter i evs (binit decl) (binit decl) eq_refl eq_refl) as [Hs Hd].
  simpl. rewrite <- Hd, <- Hs.
  destruct (nget i (bs_drivers (fst (brun MCopy (binit decl) evs)))) as [[c s]|]; reflexivity.
Qed.

Theorem binding_independent_cls decl evs i :
  usecls_after decl evs i = usecls_after decl (filter (concerns i) evs) i.
Proof.
  unfold usecls_after.
  destruct (brun_filter i evs (binit decl) (binit decl) eq_refl eq_refl) as [Hs Hd].
  simpl. rewrite <- Hd, <- Hs.
  destruct (nget i (bs_drivers (fst (brun MCopy (binit decl) evs)))) as [[c s]|]; reflexivity.
Qed.

(* ---- held bound jobs: a bound job is a VALUE fixed at the moment it is obtained *)
Lemma brun_app m evs1 : forall st evs2,
  fst (brun m st (evs1 ++ evs2)) = fst (brun m (fst (brun m st evs1)) evs2).
Proof.
  induction evs1 as [|ev r IH]; intros st evs2; simpl; [reflexivity|].
  destruct (bstep m st ev) as [st1 o] eqn:E1.
  specialize (IH st1 evs2).
  destruct (brun m st1 (r ++ evs2)) as [st2 os] eqn:E2.
  destruct (brun m st1 r) as [st3 os3] eqn:E3. simpl in *. exact IH.
Qed.

(* no event other than obtaining into h changes what h holds: not creating, reassigning (even the driver h was
   obtained through), using or obtaining-and-keeping through ANY driver, nor using any kept job *)
Lemma bstep_held_other h st ev : obtains h ev = false ->
  nget h (bs_held (fst (bstep MCopy st ev))) = nget h (bs_held st).
Proof.
  intro Ho. destruct ev as [j c s|j s|j|j|j k|j k|k]; simpl in *; try reflexivity.
  - destruct (nget j (bs_drivers st)) as [[c0 s0]|]; reflexivity.
  - destruct (nget j (bs_drivers st)) as [[c0 s0]|]; reflexivity.
  - destruct (nget j (bs_drivers st)) as [[c0 s0]|]; reflexivity.
  - apply N.eqb_neq in Ho. destruct (nget j (bs_drivers st)) as [[c0 s0]|]; simpl; [now apply nget_nset_other|reflexivity].
  - apply N.eqb_neq in Ho. destruct (nget j (bs_drivers st)) as [[c0 s0]|]; simpl; [now apply nget_nset_other|reflexivity].
Qed.

Lemma brun_held_keep h evs : forall st, forallb (fun ev => negb (obtains h ev)) evs = true ->
  nget h (bs_held (fst (brun MCopy st evs))) = nget h (bs_held st).
Proof.
  induction evs as [|ev r IH]; intros st Hall; simpl; [reflexivity|].
  simpl in Hall. apply andb_true_iff in Hall. destruct Hall as [H1 H2]. apply negb_true_iff in H1.
  destruct (bstep MCopy st ev) as [st1 o] eqn:E1. destruct (brun MCopy st1 r) as [st2 os] eqn:E2. simpl.
  specialize (IH st1 H2). rewrite E2 in IH. simpl in IH. rewrite IH.
  pose proof (bstep_held_other h st ev H1) as A. now rewrite E1 in A.
Qed.

(* `h = d_i.job` at some moment, then ANY continuation that does not put another object into h: using h yields
   exactly what using driver i at the moment of obtaining would have yielded *)
Lemma brun_cons_fst m st ev r : fst (brun m st (ev :: r)) = fst (brun m (fst (bstep m st ev)) r).
Proof. simpl. destruct (bstep m st ev) as [st1 o]. simpl. destruct (brun m st1 r) as [st2 os]. reflexivity. Qed.

Lemma held_after_split decl evs1 ev h evs2 :
  forallb (fun ev => negb (obtains h ev)) evs2 = true ->
  held_after decl (evs1 ++ ev :: evs2) h
  = nget h (bs_held (fst (bstep MCopy (fst (brun MCopy (binit decl) evs1)) ev))).
Proof.
  intro Hall. unfold held_after. rewrite brun_app, brun_cons_fst.
  cbn [bstep snd]. now apply brun_held_keep.
Qed.

Theorem held_fixed decl evs1 i h evs2 b :
  use_after decl evs1 i = Some b ->
  forallb (fun ev => negb (obtains h ev)) evs2 = true ->
  held_after decl (evs1 ++ BGet i h :: evs2) h = Some b.
Proof.
  intros Hu Hall. rewrite held_after_split by exact Hall.
  unfold use_after in Hu. cbn [bstep] in *.
  destruct (nget i (bs_drivers (fst (brun MCopy (binit decl) evs1)))) as [[c s]|]; [|discriminate].
  cbn [fst snd after_access bs_held] in *. rewrite nget_nset_same. exact Hu.
Qed.

Theorem held_fixed_cls decl evs1 i h evs2 b :
  usecls_after decl evs1 i = Some b ->
  forallb (fun ev => negb (obtains h ev)) evs2 = true ->
  held_after decl (evs1 ++ BGetCls i h :: evs2) h = Some b.
Proof.
  intros Hu Hall. rewrite held_after_split by exact Hall.
  unfold usecls_after in Hu. cbn [bstep] in *.
  destruct (nget i (bs_drivers (fst (brun MCopy (binit decl) evs1)))) as [[c s]|]; [|discriminate].
  cbn [fst snd after_access bs_held] in *. rewrite nget_nset_same. exact Hu.
Qed.

(* ... hence it depends on nothing but the events about driver i BEFORE the job was obtained: every other driver
   (created, used, obtained from before or after) and everything after the obtain is erased *)
Theorem held_independent decl evs1 i h evs2 b :
  use_after decl evs1 i = Some b ->
  forallb (fun ev => negb (obtains h ev)) evs2 = true ->
  held_after decl (evs1 ++ BGet i h :: evs2) h = use_after decl (filter (concerns i) evs1) i
  /\ held_after decl (evs1 ++ BGet i h :: evs2) h = held_after decl (filter (concerns i) evs1 ++ [BGet i h]) h.
Proof.
  intros Hu Hall. rewrite (held_fixed decl evs1 i h evs2 b Hu Hall). split.
  - now rewrite <- binding_independent.
  - symmetry. apply held_fixed; [now rewrite <- binding_independent | reflexivity].
Qed.

(* the value of a kept job in terms of the driver's attributes at the moment of obtaining *)
Theorem held_value decl evs1 i h evs2 c s :
  nget i (bs_drivers (fst (brun MCopy (binit decl) evs1))) = Some (c, s) ->
  forallb (fun ev => negb (obtains h ev)) evs2 = true ->
  held_after decl (evs1 ++ BGet i h :: evs2) h = Some (bind decl c s).
Proof.
  intros Hd Hall. apply held_fixed; [now apply binding_value | exact Hall].
Qed.

(* a Job declared without own settings in a class without such attributes (every shipped driver):
   the bound job carries exactly the instance's executable, processor count and environment *)
Theorem bind_reflects_instance (s : settings) : NoDup (map fst (env_of (s_env s))) ->
  let b := bind no_settings no_settings s in
  b_exe b = s_exe s /\ b_nprocs b = n_or (s_nprocs s) 1 /\ b_mem b = n_or (s_mem s) 1000 /\ b_env b = env_of (s_env s).
Proof.
  intro Hnd. unfold bind; simpl.
  split; [reflexivity|]. split; [reflexivity|]. split; [reflexivity|].
  unfold dmerge at 1. simpl. now apply dmerge_nil_l.
Qed.

(* the mutating variant violates the property (this is what the code did before the repair) *)
Definition sticky_witness : list bevent :=
  [BCreate 1 no_settings (mk_settings (Some "sh") (Some 4%N) None (Some [("A", "1")]));
   BCreate 2 no_settings (mk_settings (Some "bash") (Some 8%N) None (Some [("B", "2")]));
   BUse 1; BUse 2].
Lemma sticky_refuted :
  nth 3 (snd (brun MSticky (binit no_settings) sticky_witness)) None
  = Some (mk_bound (Some "sh") 4 1000 [("B", "2"); ("A", "1")])
  /\ nth 3 (snd (brun MCopy (binit no_settings) sticky_witness)) None
  = Some (mk_bound (Some "bash") 8 1000 [("B", "2")]).
Proof. split; reflexivity. Qed.

(* the variant that hands out one bound object per descriptor and refreshes it on every access is correct on every
   history that uses a job immediately after obtaining it, and wrong as soon as two jobs are held side by side:
   ja = d1.job; jb = d2.job; ja.prepare(x) sees d2's executable, nprocs and environment *)
Definition shared_witness : list bevent :=
  [BCreate 1 no_settings (mk_settings (Some "sh") (Some 4%N) None (Some [("A", "1")]));
   BCreate 2 no_settings (mk_settings (Some "bash") (Some 8%N) None (Some [("B", "2")]));
   BGet 1 0; BGet 2 1; BPrep 0; BPrep 1].
Lemma shared_refuted :
  nth 4 (snd (brun MShared (binit no_settings) shared_witness)) None
  = Some (mk_bound (Some "bash") 8 1000 [("B", "2")])
  /\ nth 4 (snd (brun MCopy (binit no_settings) shared_witness)) None
  = Some (mk_bound (Some "sh") 4 1000 [("A", "1")]).
Proof. split; reflexivity. Qed.

(* on histories without kept jobs the refreshing variant is indistinguishable from the fresh copy -- which is why
   histories that always use a job at once cannot tell them apart *)
Definition immediate (ev : bevent) : bool :=
  match ev with BGet _ _ | BGetCls _ _ | BPrep _ => false | _ => true end.
Lemma shared_step_immediate st ev : immediate ev = true -> bs_held st = [] ->
  bstep MShared st ev = bstep MCopy st ev.
Proof.
  intros Hi Hh. destruct ev as [j c s|j s|j|j|j k|j k|k]; simpl in *; try discriminate; try reflexivity.
  - destruct (nget j (bs_drivers st)) as [[c0 s0]|]; [|reflexivity]. unfold after_access. now rewrite Hh.
  - destruct (nget j (bs_drivers st)) as [[c0 s0]|]; [|reflexivity]. unfold after_access. now rewrite Hh.
Qed.
Lemma step_immediate_held st ev : immediate ev = true -> bs_held st = [] ->
  bs_held (fst (bstep MCopy st ev)) = [].
Proof.
  intros Hi Hh. destruct ev as [j c s|j s|j|j|j k|j k|k]; simpl in *; try discriminate; try exact Hh.
  all: destruct (nget j (bs_drivers st)) as [[c0 s0]|]; simpl; exact Hh.
Qed.
Theorem shared_invisible_when_immediate evs : forall st,
  forallb immediate evs = true -> bs_held st = [] -> brun MShared st evs = brun MCopy st evs.
Proof.
  induction evs as [|ev r IH]; intros st Hall Hh; simpl; [reflexivity|].
  simpl in Hall. apply andb_true_iff in Hall. destruct Hall as [H1 H2].
  rewrite (shared_step_immediate st ev H1 Hh).
  destruct (bstep MCopy st ev) as [st1 o] eqn:E1.
  pose proof (step_immediate_held st ev H1 Hh) as A. rewrite E1 in A. simpl in A.
  now rewrite (IH st1 H2 A).
Qed.

(* ================================================================== (ii) run_local *)
Section RunLocalFacts.
  Variable cmd : Type.
  Variable exec : cmd -> env -> fs -> cmd_result.
  Variable hash : jobinput cmd -> string.

  Notation loop := (loop cmd exec).
  Notation step := (step cmd).

  Definition ok (s : step) : Prop := r_code (st_res s) = 0%Z.
  Definition cmd_of (s : step) : cmd * option string := (st_cmd s, st_name s).

  (* the steps form a chain through the directory states, each step is the oracle applied to its command *)
  Fixpoint chained (e : env) (f : fs) (sts : list step) : Prop :=
    match sts with
    | [] => True
    | s :: r => st_before s = open_caps (st_name s) f
                /\ st_res s = exec (st_cmd s) e (st_before s)
                /\ st_after s = close_caps (st_name s) (st_res s)
                /\ chained e (st_after s) r
    end.

  Lemma loop_chained e cs : forall f, chained e f (loop e cs f).
  Proof.
    induction cs as [|[c nm] rest IH]; intro f; simpl; [exact I|].
    destruct (r_code (exec c e (open_caps nm f)) =? 0)%Z; simpl; repeat split; try reflexivity. apply IH.
  Qed.

  (* executed commands = a prefix of the command list *)
  Lemma loop_prefix e cs : forall f, exists rest, (map cmd_of (loop e cs f) ++ rest)%list = cs.
  Proof.
    induction cs as [|[c nm] r IH]; intro f; simpl; [now exists []|].
    destruct (r_code (exec c e (open_caps nm f)) =? 0)%Z; simpl.
    - destruct (IH (close_caps nm (exec c e (open_caps nm f)))) as [rest Hr]. exists rest. unfold cmd_of at 1. simpl. now rewrite Hr.
    - exists r. reflexivity.
  Qed.

  (* every executed command but the last succeeded *)
  Lemma loop_init_ok e cs : forall f, Forall ok (removelast (loop e cs f)).
  Proof.
    induction cs as [|[c nm] r IH]; intro f; simpl; [constructor|].
    destruct (r_code (exec c e (open_caps nm f)) =? 0)%Z eqn:E; [|constructor].
    set (f1 := close_caps nm (exec c e (open_caps nm f))).
    destruct (loop e r f1) as [|s2 l2] eqn:El; [constructor|].
    change (Forall ok (mk_step c nm (open_caps nm f) (exec c e (open_caps nm f)) f1 :: removelast (s2 :: l2))).
    constructor; [unfold ok; simpl; now apply Z.eqb_eq|]. rewrite <- El. apply IH.
  Qed.

  (* the loop stops early only at a failing command, and a failing command is always the last one executed *)
  Lemma loop_all_ok_complete e cs : forall f, Forall ok (loop e cs f) -> List.length (loop e cs f) = List.length cs.
  Proof.
    induction cs as [|[c nm] r IH]; intro f; simpl; [reflexivity|].
    destruct (r_code (exec c e (open_caps nm f)) =? 0)%Z eqn:E; intro H.
    - simpl. f_equal. apply IH. now inversion H.
    - inversion H as [|? ? Hok _]; subst. unfold ok in Hok. simpl in Hok. rewrite Hok in E. discriminate.
  Qed.

  Lemma loop_length_le e cs : forall f, List.length (loop e cs f) <= List.length cs.
  Proof.
    induction cs as [|[c nm] r IH]; intro f; simpl; [lia|].
    destruct (r_code (exec c e (open_caps nm f)) =? 0)%Z; simpl; [specialize (IH (close_caps nm (exec c e (open_caps nm f)))); lia|lia].
  Qed.

  Lemma loop_nonempty e cs f : cs <> [] -> loop e cs f <> [].
  Proof.
    destruct cs as [|[c nm] r]; [congruence|]. intros _. simpl.
    destruct (r_code (exec c e (open_caps nm f)) =? 0)%Z; discriminate.
  Qed.

  Lemma last_code_app (l : list step) (s : step) : last_code (l ++ [s])%list = Some (r_code (st_res s)).
  Proof. unfold last_code. now rewrite rev_unit. Qed.

  Lemma last_code_none (l : list step) : last_code l = None -> l = [].
  Proof.
    destruct l as [|a l] using rev_ind; [reflexivity|]. rewrite last_code_app. discriminate.
  Qed.

  (* all succeeded <-> the last executed one succeeded (given the loop invariant) *)
  Lemma all_ok_iff_last e cs f c : last_code (loop e cs f) = Some c ->
    (Forall ok (loop e cs f) <-> c = 0%Z).
  Proof.
    pose proof (loop_init_ok e cs f) as Hin. revert Hin.
    destruct (loop e cs f) as [|a l] using rev_ind; [discriminate|]. clear IHl.
    rewrite last_code_app. intros Hin [= <-]. rewrite removelast_last in Hin.
    split.
    - intro H. apply Forall_app in H. destruct H as [_ H]. now inversion H.
    - intro H. apply Forall_app. split; [exact Hin|]. constructor; [exact H|constructor].
  Qed.

  Lemma loop_short_fails e cs : forall f, List.length (loop e cs f) < List.length cs ->
    exists l s, loop e cs f = (l ++ [s])%list /\ r_code (st_res s) <> 0%Z.
  Proof.
    induction cs as [|[c nm] r IH]; intro f; simpl; [lia|].
    destruct (r_code (exec c e (open_caps nm f)) =? 0)%Z eqn:E; simpl; intro H.
    - destruct (IH (close_caps nm (exec c e (open_caps nm f)))) as [l [s [Hl Hs]]]; [lia|].
      rewrite Hl. eexists (_ :: l), s. split; [reflexivity|exact Hs].
    - exists [], (mk_step c nm (open_caps nm f) (exec c e (open_caps nm f)) (close_caps nm (exec c e (open_caps nm f)))).
      split; [reflexivity|]. simpl. now apply Z.eqb_neq.
  Qed.

  (* "runs the commands in order ..., stops at the first failing command" *)
  Theorem loop_spec e cs f :
    let sts := loop e cs f in
    (exists rest, (map cmd_of sts ++ rest)%list = cs)
    /\ chained e f sts
    /\ Forall ok (removelast sts)
    /\ (Forall ok sts -> List.length sts = List.length cs)
    /\ (List.length sts < List.length cs -> exists l s, sts = (l ++ [s])%list /\ r_code (st_res s) <> 0%Z)
    /\ (cs <> [] -> sts <> []).
  Proof.
    cbv zeta. repeat split.
    - apply loop_prefix.
    - apply loop_chained.
    - apply loop_init_ok.
    - apply loop_all_ok_complete.
    - apply loop_short_fails.
    - apply loop_nonempty.
  Qed.

  (* ---- returned files = requested /\ existing, byte for byte *)
  Lemma collect_spec f req n :
    dget n (collect f req) = if existsb (String.eqb n) req then dget n f else None.
  Proof.
    unfold collect.
    assert (G : forall acc, dget n (fold_left (fun acc n0 => match dget n0 f with Some v => dset n0 v acc | None => acc end) req acc)
                = if existsb (String.eqb n) req then match dget n f with Some v => Some v | None => dget n acc end else dget n acc).
    { induction req as [|r rs IH]; intro acc; simpl; [reflexivity|].
      rewrite IH. destruct (String.eqb n r) eqn:E; simpl.
      - apply String.eqb_eq in E. subst r. destruct (dget n f) eqn:Ef.
        + rewrite dget_dset_same. now destruct (existsb (String.eqb n) rs).
        + now destruct (existsb (String.eqb n) rs).
      - assert (Hne : n <> r) by (intro; subst; now rewrite String.eqb_refl in E).
        destruct (dget r f); [rewrite dget_dset_other by exact Hne|]; reflexivity. }
    rewrite G. simpl. destruct (existsb (String.eqb n) req); [now destruct (dget n f)|reflexivity].
  Qed.

  Lemma all_present_spec f req : all_present f req = true <-> forall n, In n req -> dget n f <> None.
  Proof.
    unfold all_present. rewrite forallb_forall. unfold dhas.
    split; intros H n Hn; specialize (H n Hn); destruct (dget n f); congruence.
  Qed.

  (* ---- the body: exit status, recorded exit code, files, hash *)
  Definition all_succeeded (inp : jobinput cmd) (sts : list step) : Prop :=
    List.length sts = List.length (ji_cmds inp) /\ Forall ok sts.

  Theorem body_done_facts base inp st out sts :
    body cmd exec hash base inp = (Done st out, sts) ->
    let f0 := materialise (ji_files inp) in
    let e := overlay base (ji_env inp) in
    let f := final_fs f0 sts in
    sts = loop e (ji_cmds inp) f0
    /\ ((st = 0%Z) <-> (all_succeeded inp sts /\ forall n, In n (requested inp) -> dget n f <> None))
    /\ ((jo_exitcode out = 0%Z) <-> (all_succeeded inp sts /\ forall n, In n (requested inp) -> dget n f <> None))
    /\ (forall n, dget n (jo_files out) = if existsb (String.eqb n) (requested inp) then dget n f else None)
    /\ jo_hash out = hash inp
    /\ read_caps ".out" f (names_of sts) [] = Some (jo_stdouts out)
    /\ read_caps ".err" f (names_of sts) [] = Some (jo_stderrs out).
  Proof.
    unfold body. cbv zeta.
    set (f0 := materialise (ji_files inp)). set (e := overlay base (ji_env inp)).
    set (l := loop e (ji_cmds inp) f0). set (f := final_fs f0 l).
    destruct (read_caps ".out" f (names_of l) []) as [so|] eqn:Eo; [|destruct (read_caps ".err" f (names_of l) []); discriminate].
    destruct (read_caps ".err" f (names_of l) []) as [se|] eqn:Ee; [|discriminate].
    destruct (last_code l) as [c|] eqn:Ec; [|discriminate].
    intros [= <- <- <-]. fold f.
    pose proof (all_ok_iff_last e (ji_cmds inp) f0 c Ec) as Hall. fold l in Hall.
    assert (Hsucc : all_succeeded inp l <-> c = 0%Z).
    { unfold all_succeeded. rewrite <- Hall. split; [tauto|]. intro H. split; [|exact H]. now apply loop_all_ok_complete. }
    pose proof (all_present_spec f (requested inp)) as Hpres.
    split; [reflexivity|]. split; [|split; [|split; [|split; [|split]]]]; simpl.
    - rewrite Hsucc, <- Hpres. destruct (Z.eqb_spec c 0) as [E0|E0]; destruct (all_present f (requested inp)); simpl;
        split; intro H;
        first [ discriminate | (split; [assumption|reflexivity]) | (exfalso; congruence) | (destruct H; congruence) ].
    - rewrite Hsucc, <- Hpres. destruct (Z.eqb_spec c 0) as [E0|E0]; destruct (all_present f (requested inp)); simpl;
        split; intro H;
        first [ discriminate | (split; [assumption|reflexivity]) | (exfalso; congruence) | (destruct H; congruence) ].
    - intro n. apply collect_spec.
    - reflexivity.
    - exact Eo.
    - exact Ee.
  Qed.

  (* ---- captures *)
  (* names of the capture files of a job *)
  Definition cap_files (cs : list (cmd * option string)) : list string :=
    flat_map (fun c => match snd c with Some n => [n ++ ".out"; n ++ ".err"] | None => [] end) cs.

  Lemma open_caps_other nm f x : (forall n, nm = Some n -> x <> n ++ ".out" /\ x <> n ++ ".err") ->
    dget x (open_caps nm f) = dget x f.
  Proof.
    intro H. destruct nm as [n|]; simpl; [|reflexivity].
    destruct (H n eq_refl) as [H1 H2]. now rewrite !dget_dset_other.
  Qed.

  Lemma close_caps_other nm r x : (forall n, nm = Some n -> x <> n ++ ".out" /\ x <> n ++ ".err") ->
    dget x (close_caps nm r) = dget x (r_fs r).
  Proof.
    intro H. destruct nm as [n|]; simpl; [|reflexivity].
    destruct (H n eq_refl) as [H1 H2]. now rewrite !dget_dset_other.
  Qed.

  Lemma close_caps_own n r :
    dget (n ++ ".out") (close_caps (Some n) r) = Some (r_out r) /\ dget (n ++ ".err") (close_caps (Some n) r) = Some (r_err r).
  Proof.
    simpl. split.
    - rewrite dget_dset_other by apply out_ne_err. apply dget_dset_same.
    - apply dget_dset_same.
  Qed.

  Lemma cap_name_distinct n m : n <> m ->
    (n ++ ".out" <> m ++ ".out" /\ n ++ ".out" <> m ++ ".err") /\ (n ++ ".err" <> m ++ ".out" /\ n ++ ".err" <> m ++ ".err").
  Proof.
    intro H. repeat split; intro E.
    - apply str_app_inj_l in E. contradiction.
    - now apply out_ne_err in E.
    - symmetry in E. now apply out_ne_err in E.
    - apply str_app_inj_l in E. contradiction.
  Qed.

  Section Captures.
    Variable protected : list string.
    (* the commands leave the capture files alone *)
    Hypothesis exec_keeps : forall c e f x, In x protected -> dget x (r_fs (exec c e f)) = dget x f.

    (* a protected file that is not a capture file of any step in `sts` survives the steps *)
    Lemma chained_keeps e x : In x protected -> forall sts f,
      chained e f sts ->
      (forall s n, In s sts -> st_name s = Some n -> x <> n ++ ".out" /\ x <> n ++ ".err") ->
      dget x (final_fs f sts) = dget x f.
    Proof.
      intros Hx. induction sts as [|s r IH]; intros f Hch Hnm; [reflexivity|].
      destruct Hch as (Hb & Hr & Ha & Hch). simpl.
      rewrite IH; [|exact Hch|intros s' n Hs' Hn; apply (Hnm s' n); [now right|exact Hn]].
      rewrite Ha, close_caps_other by (intros n Hn; apply (Hnm s n); [now left|exact Hn]).
      rewrite Hr, exec_keeps by exact Hx. rewrite Hb.
      apply open_caps_other. intros n Hn. apply (Hnm s n); [now left|exact Hn].
    Qed.

    Lemma in_names_of (sts : list step) n : In n (names_of sts) <-> exists s, In s sts /\ st_name s = Some n.
    Proof.
      unfold names_of. rewrite in_flat_map. split; intros [s [Hs Hn]]; exists s; split; try exact Hs.
      - destruct (st_name s) as [m|]; [destruct Hn as [->|[]]; reflexivity|destruct Hn].
      - rewrite Hn. now left.
    Qed.

    (* after the loop the capture files of every executed named command hold exactly what that command wrote *)
    Lemma final_captures e : forall sts f,
      chained e f sts -> NoDup (names_of sts) ->
      (forall s n, In s sts -> st_name s = Some n -> In (n ++ ".out") protected /\ In (n ++ ".err") protected) ->
      forall s n, In s sts -> st_name s = Some n ->
        dget (n ++ ".out") (final_fs f sts) = Some (r_out (st_res s))
        /\ dget (n ++ ".err") (final_fs f sts) = Some (r_err (st_res s)).
    Proof.
      induction sts as [|s0 r IH]; intros f Hch Hnd Hprot s n Hs Hn; [destruct Hs|].
      destruct Hch as (Hb & Hr & Ha & Hch). simpl.
      destruct Hs as [<-|Hs].
      - (* the head: its captures are written now and survive the rest *)
        assert (Hnotin : ~ In n (names_of r)).
        { unfold names_of in Hnd. simpl in Hnd. rewrite Hn in Hnd. simpl in Hnd. now inversion Hnd. }
        assert (Hother : forall s' m, In s' r -> st_name s' = Some m -> n <> m).
        { intros s' m Hs' Hm E. subst m. apply Hnotin. apply in_names_of. now exists s'. }
        destruct (Hprot s0 n (or_introl eq_refl) Hn) as [Po Pe].
        rewrite !(chained_keeps e _) with (f := st_after s0); try assumption.
        + rewrite Ha, Hn. apply close_caps_own.
        + intros s' m Hs' Hm. apply (cap_name_distinct n m). now apply (Hother s').
        + intros s' m Hs' Hm. apply (cap_name_distinct n m). now apply (Hother s').
      - apply IH; try assumption.
        + unfold names_of in *. simpl in Hnd. destruct (st_name s0); [now inversion Hnd|exact Hnd].
        + intros s' m Hs' Hm. apply (Hprot s' m); [now right|exact Hm].
    Qed.

    (* reading the captures back *)
    Lemma read_caps_spec ext f : forall names acc d, read_caps ext f names acc = Some d ->
      (forall n, In n names -> dget n d = dget (n ++ ext) f) /\ (forall n, ~ In n names -> dget n d = dget n acc).
    Proof.
      induction names as [|n0 r IH]; intros acc d H; simpl in H.
      - injection H as <-. split; [intros n []|reflexivity].
      - destruct (dget (n0 ++ ext) f) as [v|] eqn:E; [|discriminate].
        destruct (IH _ _ H) as [I1 I2]. split.
        + intros n [<-|Hn].
          * destruct (in_dec string_dec n0 r) as [Hin|Hni]; [now apply I1|].
            rewrite I2 by exact Hni. rewrite dget_dset_same. now symmetry.
          * now apply I1.
        + intros n Hn. rewrite I2 by (intro; apply Hn; now right).
          apply dget_dset_other. intro; subst. apply Hn. now left.
    Qed.

    Lemma read_caps_total ext f : forall names acc, (forall n, In n names -> dget (n ++ ext) f <> None) ->
      exists d, read_caps ext f names acc = Some d.
    Proof.
      induction names as [|n0 r IH]; intros acc H; simpl; [now eexists|].
      destruct (dget (n0 ++ ext) f) as [v|] eqn:E; [|exfalso; apply (H n0); [now left|exact E]].
      apply IH. intros n Hn. apply H. now right.
    Qed.

    (* stdout/stderr are recorded for every executed named command, with what it wrote, and for nothing else;
       and reading them back cannot fail *)
    Theorem captures_exact e cs f0 :
      let sts := loop e cs f0 in
      NoDup (names_of sts) ->
      (forall x, In x (cap_files cs) -> In x protected) ->
      exists so se,
        read_caps ".out" (final_fs f0 sts) (names_of sts) [] = Some so
        /\ read_caps ".err" (final_fs f0 sts) (names_of sts) [] = Some se
        /\ (forall s n, In s sts -> st_name s = Some n ->
              dget n so = Some (r_out (st_res s)) /\ dget n se = Some (r_err (st_res s)))
        /\ (forall n, ~ In n (names_of sts) -> dget n so = None /\ dget n se = None).
    Proof.
      intros sts Hnd Hprot.
      assert (Hp : forall s n, In s sts -> st_name s = Some n -> In (n ++ ".out") protected /\ In (n ++ ".err") protected).
      { intros s n Hs Hn. destruct (loop_prefix e cs f0) as [rest Hrest]. fold sts in Hrest.
        assert (Hin : In (st_cmd s, Some n) cs).
        { rewrite <- Hrest. apply in_or_app. left. rewrite <- Hn. change (st_cmd s, st_name s) with (cmd_of s). now apply in_map. }
        split; apply Hprot; unfold cap_files; apply in_flat_map; exists (st_cmd s, Some n); (split; [exact Hin|simpl; tauto]). }
      pose proof (final_captures e sts f0 (loop_chained e cs f0) Hnd Hp) as Hfin.
      destruct (read_caps_total ".out" (final_fs f0 sts) (names_of sts) []) as [so Hso].
      { intros n Hn. apply in_names_of in Hn. destruct Hn as [s [Hs Hsn]]. destruct (Hfin s n Hs Hsn) as [-> _]. discriminate. }
      destruct (read_caps_total ".err" (final_fs f0 sts) (names_of sts) []) as [se Hse].
      { intros n Hn. apply in_names_of in Hn. destruct Hn as [s [Hs Hsn]]. destruct (Hfin s n Hs Hsn) as [_ ->]. discriminate. }
      exists so, se. split; [exact Hso|]. split; [exact Hse|].
      destruct (read_caps_spec _ _ _ _ _ Hso) as [O1 O2]. destruct (read_caps_spec _ _ _ _ _ Hse) as [E1 E2].
      split.
      - intros s n Hs Hn. assert (Hin : In n (names_of sts)) by (apply in_names_of; now exists s).
        rewrite O1, E1 by exact Hin. now apply Hfin.
      - intros n Hn. now rewrite O2, E2.
    Qed.
  End Captures.

  (* ---- input files and environment *)
  Lemma materialise_spec l n : NoDup (map fst l) ->
    dget n (materialise (Some l)) = dget n l.
  Proof.
    intro H. unfold materialise. rewrite dget_fold_dset by exact H. simpl. now destruct (dget n l).
  Qed.

  Lemma overlay_spec base o v : NoDup (map fst o) ->
    dget v (overlay base (Some o)) = match dget v o with Some x => Some x | None => dget v base end.
  Proof. intro H. unfold overlay. now apply dget_dmerge. Qed.

  (* ---- the whole function *)
  Lemma run_local_unfold scratch td base inp :
    run_local cmd exec hash scratch td base inp
    = mk_rr cmd (fst (body cmd exec hash base inp)) (snd (body cmd exec hash base inp))
        (flat_map (fun s => r_ext (st_res s)) (snd (body cmd exec hash base inp))) scratch.
  Proof.
    unfold run_local. destruct (body cmd exec hash base inp) as [o sts]. simpl. now rewrite String.eqb_refl.
  Qed.

  Lemma body_steps base inp :
    snd (body cmd exec hash base inp) = loop (overlay base (ji_env inp)) (ji_cmds inp) (materialise (ji_files inp)).
  Proof.
    unfold body. cbv zeta.
    destruct (read_caps ".out" _ _ []); [|reflexivity].
    destruct (read_caps ".err" _ _ []); [|reflexivity].
    destruct (last_code _); reflexivity.
  Qed.

  Theorem run_local_steps scratch td base inp :
    let r := run_local cmd exec hash scratch td base inp in
    rr_steps r = loop (overlay base (ji_env inp)) (ji_cmds inp) (materialise (ji_files inp))
    /\ rr_ext r = flat_map (fun s => r_ext (st_res s)) (rr_steps r)
    /\ rr_outcome r = fst (body cmd exec hash base inp).
  Proof. cbv zeta. rewrite run_local_unfold. simpl. now rewrite body_steps. Qed.

  (* an output is written unless there is no command at all or a capture file has disappeared *)
  Theorem body_crash_iff base inp :
    let sts := snd (body cmd exec hash base inp) in
    fst (body cmd exec hash base inp) = Crashed <->
    (ji_cmds inp = [] \/ read_caps ".out" (final_fs (materialise (ji_files inp)) sts) (names_of sts) [] = None
                       \/ read_caps ".err" (final_fs (materialise (ji_files inp)) sts) (names_of sts) [] = None).
  Proof.
    cbv zeta. rewrite body_steps. unfold body. cbv zeta.
    set (l := loop _ _ _).
    destruct (read_caps ".out" _ (names_of l) []) as [so|] eqn:Eo; [|simpl; tauto].
    destruct (read_caps ".err" _ (names_of l) []) as [se|] eqn:Ee; [|simpl; tauto].
    destruct (last_code l) as [c|] eqn:Ec; simpl.
    - split; [discriminate|]. intros [H|[H|H]]; try discriminate.
      exfalso. unfold l in Ec. rewrite H in Ec. discriminate.
    - split; [|reflexivity]. intros _. left.
      apply last_code_none in Ec. destruct (ji_cmds inp) as [|c0 r]; [reflexivity|].
      exfalso. apply (loop_nonempty (overlay base (ji_env inp)) (c0 :: r) (materialise (ji_files inp))); [discriminate|exact Ec].
  Qed.

  (* the scratch directory is left as it was found, whatever happened inside (returned, raised, exit()) *)
  Theorem scratch_restored scratch td base inp :
    rr_scratch (run_local cmd exec hash scratch td base inp) = scratch.
  Proof. now rewrite run_local_unfold. Qed.
End RunLocalFacts.
