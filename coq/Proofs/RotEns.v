(* C11, ensemble part: per-conformer laws of the ensemble operations (for ensembles of every shape, in particular
   n_conformers = n_atoms), the statement-by-statement ensemble alignment is the molecule alignment applied to every
   conformer, and the per-atom reading of an (n, 3) translation array is refuted.  Builds on Proofs/RotMotion.v. *)
From Coq Require Import Reals Lra List ZArith Lia.
From Molli Require Import Common.Field3 Common.Field3R Model.Rot Model.RotEns Proofs.Rot Proofs.RotMotion.
Import ListNotations.
Local Open Scope R_scope.

(* ------------------------------------------------------------------ list plumbing *)
Lemma map2_length {A B C} (f : A -> B -> C) (l : list A) (m : list B) :
  length l = length m -> length (map2 f l m) = length l.
Proof.
  revert m. induction l as [|a l IH]; intros [|b m] H; simpl in *; try discriminate; [reflexivity|].
  f_equal. apply IH. lia.
Qed.
Lemma map2_nth {A B C} (f : A -> B -> C) (l : list A) (m : list B) (k : nat) (da : A) (db : B) (dc : C) :
  length l = length m -> (k < length l)%nat -> nth k (map2 f l m) dc = f (nth k l da) (nth k m db).
Proof.
  revert m k. induction l as [|a l IH]; intros [|b m] k H Hk; simpl in *; try discriminate; try lia.
  destruct k; [reflexivity|]. apply IH; lia.
Qed.
Lemma all_some_spec {A} (l : list (option A)) (r : list A) : all_some l = Some r -> l = map Some r.
Proof.
  revert r. induction l as [|[x|] l IH]; simpl; intros r H.
  - injection H as <-. reflexivity.
  - destruct (all_some l) as [r'|] eqn:E; [|discriminate]. injection H as <-. simpl. f_equal. apply IH. reflexivity.
  - discriminate.
Qed.

(* ------------------------------------------------------------------ per-conformer stacks *)
(* translate((n_conformers, 3) array): conformer k moves by row k -- whatever the number of atoms *)
Theorem ens_translate2_nth (vs : list vecR) (E : list (list vecR)) (k : nat) :
  length vs = length E -> (k < length E)%nat ->
  nth k (ens_translate2 ROps vs E) [] = translate ROps (nth k vs (vzero ROps)) (nth k E []).
Proof. intros HL Hk. unfold ens_translate2. apply map2_nth; [exact HL | lia]. Qed.

(* rotate((n_conformers, 3, 3) stack): conformer k is turned by matrix k *)
Theorem ens_rotate_each_nth (Ms : list matR) (E : list (list vecR)) (k : nat) :
  length Ms = length E -> (k < length E)%nat ->
  nth k (ens_rotate_each ROps Ms E) [] = transform ROps (nth k Ms (eye ROps)) (nth k E []).
Proof. intros HL Hk. unfold ens_rotate_each. apply map2_nth; [exact HL | lia]. Qed.

Theorem ens_rotate_each_shape (Ms : list matR) (E : list (list vecR)) :
  length Ms = length E -> Forall proper Ms -> Forall2 same_shape E (ens_rotate_each ROps Ms E).
Proof.
  revert Ms. induction E as [|X E IH]; intros [|M Ms] HL HP; simpl in HL; try discriminate; simpl; constructor.
  - apply transform_same_shape. inversion HP; assumption.
  - apply IH; [lia | inversion HP; assumption].
Qed.

(* ------------------------------------------------------------------ the per-atom reading is not a rigid motion *)
(* two conformers of a two-atom molecule (n_conformers = n_atoms = 2): adding row j of the array to atom j doubles
   the bond length *)
Lemma displace_atoms_not_rigid :
  let E := [[(0, 0, 0); (1, 0, 0)]; [(0, 0, 0); (0, 1, 0)]] : list (list vecR) in
  let vs := [(0, 0, 0); (1, 0, 0)] : list vecR in
  length vs = length E /\ Forall (fun X : list vecR => length X = length E) E /\
  Forall2 same_shape E (ens_translate2 ROps vs E) /\
  ~ Forall2 same_shape E (ens_displace_atoms ROps vs E).
Proof.
  cbv zeta. split; [reflexivity|]. split; [repeat constructor|]. split.
  - apply ens_translate2_shape. reflexivity.
  - intros H. inversion H as [|X Y E1 E2 H1 H2]; subst. clear H H2.
    destruct H1 as [_ [D _]]. specialize (D 0%nat 1%nat I I). simpl length in D.
    specialize (D ltac:(lia) ltac:(lia)). unfold pt in D. simpl in D. f3_in D. lra.
Qed.

(* ------------------------------------------------------------------ scale: a similarity *)
Definition scaled_shape (f : R) (X Y : list vecR) : Prop :=
  length Y = length X /\
  (forall i j, dist2 ROps (pt Y i) (pt Y j) = f * f * dist2 ROps (pt X i) (pt X j)) /\
  (forall i j k l, signed_volume ROps (pt Y i) (pt Y j) (pt Y k) (pt Y l)
                   = f * f * f * signed_volume ROps (pt X i) (pt X j) (pt X k) (pt X l)).
Lemma pt_scale (f : R) (X : list vecR) (i : nat) : pt (map (vscale ROps f) X) i = vscale ROps f (pt X i).
Proof.
  unfold pt. replace (vzero ROps) with (vscale ROps f (vzero ROps)) at 1 by (f3; veq; ring).
  apply (map_nth (vscale ROps f)).
Qed.
Theorem ens_scale_shape (f : R) (E : list (list vecR)) : Forall2 (scaled_shape f) E (ens_scale ROps f E).
Proof.
  induction E as [|X E IH]; simpl; constructor; [|exact IH].
  split; [apply map_length|]. split; intros; rewrite !pt_scale.
  - generalize (pt X i) (pt X j). intros x y. vdestruct. f3. ring.
  - generalize (pt X i) (pt X j) (pt X k) (pt X l). intros x y z w. vdestruct. f3. ring.
Qed.

(* ------------------------------------------------------------------ ensemble alignment = molecule alignment, conformer-wise *)
(* the code's sequence (centre all, pick per conformer, rotate by the stack, shift all) is the molecule procedure
   (Model/Rot.v align_with) carried out on every conformer *)
Lemma ens_align_steps_eq (E : list (list vecR)) (idx0 : list nat) (results : list (list (matR * R))) (v : option vecR) :
  length results = length E ->
  ens_align_steps ROps E idx0 results v = ens_align_with ROps E idx0 results v.
Proof.
  unfold ens_align_steps, ens_align_with.
  revert results. induction E as [|X E IH]; intros [|res results] HL; simpl in HL; try discriminate.
  - simpl. destruct v; reflexivity.
  - injection HL as HL. specialize (IH results HL).
    change (center_at_core ROps idx0 (X :: E))
      with (translate ROps (vopp ROps (centroid ROps (select ROps idx0 X))) X :: center_at_core ROps idx0 E).
    cbn [map all_some map2]. unfold align_with at 1, align_centered.
    destruct (pick_best ROps res) as [r [M|]]; cbn [fst snd]; [|reflexivity].
    destruct (all_some (map snd (map (pick_best ROps) results))) as [Ms|];
      destruct (all_some (map2 (fun X0 res0 => align_with ROps X0 idx0 res0 v) E results)) as [l|];
      try discriminate; [|reflexivity].
    injection IH as I1 I2. cbn [map fst snd]. rewrite <- I1, <- I2.
    unfold ens_rotate_each. cbn [map2]. destruct v; reflexivity.
Qed.

Theorem ens_align_conformerwise (func : list vecR -> list vecR -> matR * R)
        (E : list (list vecR)) (idxs : list (list nat)) (ref : list vecR) (v : option vecR)
        (E' : list (list vecR)) (rs : list R) :
  ens_align ROps func E idxs ref v = Some (E', rs) ->
  length E' = length E /\ length rs = length E /\
  forall k, (k < length E)%nat -> align ROps func (nth k E []) idxs ref v = Some (nth k E' [], nth k rs 0).
Proof.
  unfold ens_align, align. destruct idxs as [|idx0 rest]; [discriminate|].
  set (idxs := idx0 :: rest). unfold ens_align_inputs. rewrite map_map.
  set (h := fun X : list vecR => map (fun P => func P ref) (align_inputs ROps X idx0 idxs)).
  rewrite ens_align_steps_eq by (now rewrite map_length).
  unfold ens_align_with.
  set (g := fun (X : list vecR) (res : list (matR * R)) => align_with ROps X idx0 res v).
  destruct (all_some (map2 g E (map h E))) as [l|] eqn:A; [|discriminate].
  intros H. injection H as <- <-. apply all_some_spec in A.
  assert (HL : length l = length E).
  { apply (f_equal (@length _)) in A. rewrite map_length in A. rewrite <- A. apply map2_length. now rewrite map_length. }
  rewrite !map_length. split; [exact HL|]. split; [exact HL|].
  intros k Hk.
  assert (N : nth k (map2 g E (map h E)) None = g (nth k E []) (nth k (map h E) [])).
  { apply map2_nth; [now rewrite map_length | exact Hk]. }
  rewrite A in N. rewrite (map_nth_lt Some l None ([], 0) k) in N by lia.
  rewrite (map_nth_lt h E [] [] k) in N by exact Hk.
  unfold g, h in N. rewrite <- N.
  rewrite (map_nth_lt fst l [] ([], 0) k), (map_nth_lt snd l 0 ([], 0) k) by lia.
  now destruct (nth k l ([], 0)).
Qed.

Section EnsAlign.
Variable dev : list vecR -> list vecR -> R.
Variable func : list vecR -> list vecR -> matR * R.
Hypothesis func_proper : forall P Q, proper (fst (func P Q)).
Hypothesis func_reports : forall P Q, snd (func P Q) = dev (transform ROps (fst (func P Q)) P) Q.

(* every conformer: moved rigidly, and the k-th returned value is the deviation of the pose conformer k is left in
   (before the optional final shift), the least among the candidate mappings -- for every n_conformers, n_atoms *)
Theorem ens_align_reports (E : list (list vecR)) (idxs : list (list nat)) (ref : list vecR) (v : option vecR)
        (E' : list (list vecR)) (rs : list R) :
  ens_align ROps func E idxs ref v = Some (E', rs) ->
  length E' = length E /\ length rs = length E /\
  forall k, (k < length E)%nat ->
    exists idx Xr,
      In idx idxs /\
      nth k E' [] = match v with Some t => translate ROps t Xr | None => Xr end /\
      nth k rs 0 = dev (select ROps idx Xr) ref /\
      nth k rs 0 < 100 /\
      (forall idx', In idx' idxs ->
         nth k rs 0 <= snd (func (select ROps idx' (align_centered ROps (nth k E []) (hd [] idxs))) ref)) /\
      same_shape (nth k E []) (nth k E' []).
Proof.
  intros H. destruct (ens_align_conformerwise func E idxs ref v E' rs H) as [L1 [L2 Hk]].
  split; [exact L1|]. split; [exact L2|]. intros k Hlt.
  exact (align_reports dev func func_proper func_reports (nth k E []) idxs ref v (nth k E' []) (nth k rs 0) (Hk k Hlt)).
Qed.
End EnsAlign.
