(* A frame theorem for the object's attributes: a MiniPy program leaves alone every attribute it contains no assignment to.
   Decided syntactically on the translated term ([sets_attr]), so that "put / get / flush never touch self.mode" is re-established
   from the source on every run by [reflexivity]. *)
From Coq Require Import NArith List Bool String.
Import ListNotations.
From Molli Require Import Model.UKV Model.MiniPy.

Fixpoint sets_attr (x : string) (c : stmt) : bool :=
  match c with
  | SSetAttr a _ => String.eqb a x
  | STocSet _ _ => String.eqb "_toc" x
  | SSeq a b => sets_attr x a || sets_attr x b
  | SIf _ a b => sets_attr x a || sets_attr x b
  | SWhile a _ b => sets_attr x a || sets_attr x b
  | SCall _ body | SCallRet _ body => sets_attr x body
  | STryElse a b c => sets_attr x a || sets_attr x b || sets_attr x c
  | _ => false
  end.

Lemma bind_args_attrs s : forall args acc s0, bind_args s acc args = Val s0 -> attrs s0 = attrs acc.
Proof.
  induction args as [|[p e] args IH]; intros acc s0 H; cbn [bind_args] in H; [inversion H; reflexivity|].
  destruct (eval s e); [|discriminate]. apply IH in H. exact H.
Qed.

Lemma set_env_other e a v x : String.eqb a x = false -> lookup_env (set_env e a v) x = lookup_env e x.
Proof. intros H. unfold lookup_env, set_env. rewrite H. reflexivity. Qed.

Lemma wloop_frame (P : state -> Prop) (Q : state -> state -> Prop) ec eb x
  (Qrefl : forall s, Q s s) (Qtrans : forall a b c, Q a b -> Q b c -> Q a c)
  (Hc : forall s, Q s (fst (ec s))) (Hb : forall s, Q s (fst (eb s))) :
  forall n s, Q s (fst (wloop ec eb x n s)).
Proof.
  induction n as [|n IH]; intros s; cbn [wloop]; [apply Qrefl|].
  pose proof (Hc s) as C. destruct (ec s) as [s1 o]. cbn [fst] in C.
  destruct o; try exact C.
  destruct (lookup_env (locals s1) x) as [v|]; [|exact C].
  destruct (truthy v); [|exact C].
  pose proof (Hb s1) as B. destruct (eb s1) as [s2 o2]. cbn [fst] in B.
  destruct o2; try (eapply Qtrans; [exact C|exact B]).
  eapply Qtrans; [exact C|]. eapply Qtrans; [exact B|]. apply IH.
Qed.

Theorem exec_attr_frame x fuel : forall c s,
  sets_attr x c = false -> lookup_env (attrs (fst (exec fuel c s))) x = lookup_env (attrs s) x.
Proof.
  induction c; intros s0 H; cbn [sets_attr] in H; cbn [exec]; try reflexivity.
  - (* SSeq *) apply orb_false_iff in H. destruct H as [H1 H2].
    pose proof (IHc1 s0 H1) as A. destruct (exec fuel c1 s0) as [s1 o]. cbn [fst] in A.
    destruct o; try exact A. rewrite (IHc2 s1 H2). exact A.
  - (* SAssign *) destruct (eval s0 e); reflexivity.
  - (* SSetAttr *) destruct (eval s0 e); [|reflexivity]. cbn [fst set_attr attrs]. apply set_env_other. exact H.
  - (* STocSet *) destruct (eval s0 k) as [[]|]; try reflexivity. destruct (eval s0 v) as [[]|]; try reflexivity.
    destruct (lookup_env (attrs s0) "_toc") as [[]|]; try reflexivity. cbn [fst set_attr attrs]. apply set_env_other. exact H.
  - (* SIf *) apply orb_false_iff in H. destruct H as [H1 H2]. destruct (eval s0 c1); [|reflexivity].
    destruct (truthy a); auto.
  - (* SWhile *) apply orb_false_iff in H. destruct H as [H1 H2].
    apply (wloop_frame (fun _ => True) (fun a b => lookup_env (attrs b) x = lookup_env (attrs a) x)).
    + reflexivity.
    + intros a b c E1 E2. rewrite E2. exact E1.
    + intros s. apply IHc1. exact H1.
    + intros s. apply IHc2. exact H2.
  - (* SReturn *) destruct (eval s0 e); reflexivity.
  - (* SSeek *) destruct (s_closed (strm s0)); [reflexivity|]. destruct (eval s0 e) as [[]|]; reflexivity.
  - (* SSeekRel *) destruct (s_closed (strm s0)); [reflexivity|]. destruct (eval s0 e) as [[]|]; reflexivity.
  - (* SSeekEnd *) destruct (s_closed (strm s0)); reflexivity.
  - (* SRead *) destruct (s_closed (strm s0)); [reflexivity|]. destruct (eval s0 n) as [[]|]; reflexivity.
  - (* SWrite *) destruct (s_closed (strm s0)); [reflexivity|]. destruct (eval s0 e) as [[]|]; try reflexivity.
    destruct (s_wr (strm s0)); reflexivity.
  - (* STruncate *) destruct (s_closed (strm s0)); [reflexivity|]. destruct (eval s0 e) as [[]|]; try reflexivity.
    destruct (s_wr (strm s0)); reflexivity.
  - (* SUnpackRead *) destruct (s_closed (strm s0)); [reflexivity|]. cbn [do_read]. destruct (unpack h _); reflexivity.
  - (* SCall *) destruct (bind_args s0 s0 args) as [s1|] eqn:B; [|reflexivity].
    pose proof (IHc s1 H) as A. destruct (exec fuel c s1) as [s2 o]. cbn [fst restore_locals attrs] in *.
    rewrite A. rewrite (bind_args_attrs s0 args s0 s1 B). reflexivity.
  - (* SCallRet *) destruct (bind_args s0 s0 args) as [s1|] eqn:B; [|reflexivity].
    pose proof (IHc s1 H) as A. destruct (exec fuel c s1) as [s2 o]. cbn [fst restore_locals attrs] in *.
    rewrite A. rewrite (bind_args_attrs s0 args s0 s1 B). reflexivity.
  - (* STryElse *) apply orb_false_iff in H. destruct H as [H12 H3]. apply orb_false_iff in H12. destruct H12 as [H1 H2].
    pose proof (IHc1 s0 H1) as A. destruct (exec fuel c1 s0) as [s1 o]. cbn [fst] in A.
    destruct o; try exact A.
    + rewrite (IHc3 s1 H3). exact A.
    + pose proof (IHc2 s1 H2) as B. destruct (exec fuel c2 s1) as [s2 o2]. cbn [fst] in B.
      destruct o2; cbn [fst]; rewrite B; exact A.
Qed.
