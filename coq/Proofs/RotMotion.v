(* C11: rigid motions of coordinate lists, row-selective edits, the dihedral target law,
   centring and alignment.  Builds on Proofs/Rot.v (rotation matrices). *)
From Coq Require Import Reals Nsatz Lra Psatz List ZArith Lia.
From Molli Require Import Common.Field3 Common.Field3R Model.Rot Proofs.Rot.
Import ListNotations.
Local Open Scope R_scope.

(* ------------------------------------------------------------------ rigid maps of space *)
(* distances and handedness (signed volume of every ordered quadruple) are kept *)
Definition rigid_map (g : vecR -> vecR) : Prop :=
  (forall x y, dist2 ROps (g x) (g y) = dist2 ROps x y) /\
  (forall p0 p1 p2 p3, signed_volume ROps (g p0) (g p1) (g p2) (g p3) = signed_volume ROps p0 p1 p2 p3).

Lemma rigid_id : rigid_map (fun x => x).
Proof. split; intros; reflexivity. Qed.
Lemma rigid_vm (M : matR) : proper M -> rigid_map (fun x => vm ROps x M).
Proof.
  intros HM. split; intros.
  - apply orth_preserves_dist2, HM.
  - apply proper_preserves_signed_volume, HM.
Qed.
Lemma rigid_vadd (v : vecR) : rigid_map (fun x => vadd ROps x v).
Proof. split; intros; [apply translate_preserves_dist2 | apply translate_preserves_signed_volume]. Qed.
Lemma rigid_compose (f g : vecR -> vecR) : rigid_map f -> rigid_map g -> rigid_map (fun x => g (f x)).
Proof. intros [F1 F2] [G1 G2]. split; intros; [rewrite G1, F1 | rewrite G2, F2]; reflexivity. Qed.

(* ------------------------------------------------------------------ coordinate lists *)
Definition pt (X : list vecR) (i : nat) : vecR := nth i X (vzero ROps).

(* Y has the same shape as X on the rows satisfying P: all pairwise distances and all signed volumes agree *)
Definition same_shape_on (P : nat -> Prop) (X Y : list vecR) : Prop :=
  length Y = length X /\
  (forall i j, P i -> P j -> (i < length X)%nat -> (j < length X)%nat ->
     dist2 ROps (pt Y i) (pt Y j) = dist2 ROps (pt X i) (pt X j)) /\
  (forall i j k l, P i -> P j -> P k -> P l ->
     (i < length X)%nat -> (j < length X)%nat -> (k < length X)%nat -> (l < length X)%nat ->
     signed_volume ROps (pt Y i) (pt Y j) (pt Y k) (pt Y l) = signed_volume ROps (pt X i) (pt X j) (pt X k) (pt X l)).
Definition same_shape := same_shape_on (fun _ => True).

Lemma same_shape_by_map (P : nat -> Prop) (g : vecR -> vecR) (X Y : list vecR) :
  rigid_map g -> length Y = length X ->
  (forall i, P i -> (i < length X)%nat -> pt Y i = g (pt X i)) -> same_shape_on P X Y.
Proof.
  intros [G1 G2] HL H. split; [exact HL|]. split; intros.
  - rewrite !H by assumption. apply G1.
  - rewrite !H by assumption. apply G2.
Qed.
Lemma same_shape_on_refl P X : same_shape_on P X X.
Proof. apply (same_shape_by_map P (fun x => x)); [apply rigid_id | reflexivity | reflexivity]. Qed.
Lemma same_shape_on_trans P X Y Z : same_shape_on P X Y -> same_shape_on P Y Z -> same_shape_on P X Z.
Proof.
  intros [L1 [D1 V1]] [L2 [D2 V2]]. split; [congruence|]. split; intros.
  - rewrite D2, D1 by (try assumption; rewrite L1; assumption). reflexivity.
  - rewrite V2, V1 by (try assumption; rewrite L1; assumption). reflexivity.
Qed.

Lemma map_nth_lt {A B} (f : A -> B) (l : list A) (d : B) (d' : A) (k : nat) :
  (k < length l)%nat -> nth k (map f l) d = f (nth k l d').
Proof. intros H. rewrite (nth_indep _ d (f d')) by (rewrite map_length; exact H). apply map_nth. Qed.

Lemma pt_translate v X i : (i < length X)%nat -> pt (translate ROps v X) i = vadd ROps (pt X i) v.
Proof. intros. unfold pt, translate. now apply (map_nth_lt (fun x => vadd ROps x v)). Qed.
Lemma pt_transform M X i : (i < length X)%nat -> pt (transform ROps M X) i = vm ROps (pt X i) M.
Proof. intros. unfold pt, transform. now apply (map_nth_lt (fun x => vm ROps x M)). Qed.

(* whole-structure translate / transform (CartesianGeometry.translate, .transform, ConformerEnsemble.rotate) *)
Theorem translate_same_shape v X : same_shape X (translate ROps v X).
Proof.
  apply (same_shape_by_map _ (fun x => vadd ROps x v)); [apply rigid_vadd | apply map_length |].
  intros; now apply pt_translate.
Qed.
Theorem transform_same_shape M X : proper M -> same_shape X (transform ROps M X).
Proof.
  intros HM. apply (same_shape_by_map _ (fun x => vm ROps x M)); [now apply rigid_vm | apply map_length |].
  intros; now apply pt_transform.
Qed.

(* ------------------------------------------------------------------ substructure edits: exactly the selected rows *)
Theorem update_rows_frame (sel : nat -> bool) (f : vecR -> vecR) (X : list vecR) :
  length (update_rows sel f X) = length X /\
  forall i, (i < length X)%nat -> pt (update_rows sel f X) i = if sel i then f (pt X i) else pt X i.
Proof. split; [apply update_rows_length | intros; unfold pt; now apply update_rows_nth]. Qed.

(* a rigid map applied to the selected rows: the selected part keeps its shape, the rest does not move at all *)
Theorem update_rows_rigid (sel : nat -> bool) (g : vecR -> vecR) (X : list vecR) :
  rigid_map g ->
  same_shape_on (fun i => sel i = true) X (update_rows sel g X) /\
  (forall i, sel i = false -> pt (update_rows sel g X) i = pt X i).
Proof.
  intros Hg. destruct (update_rows_frame sel g X) as [HL HN]. split.
  - apply (same_shape_by_map _ g); [exact Hg | exact HL |]. intros i Hi Hlt. rewrite HN, Hi by exact Hlt. reflexivity.
  - intros i Hi. destruct (Nat.lt_ge_cases i (length X)) as [Hlt|Hge].
    + rewrite HN, Hi by exact Hlt. reflexivity.
    + unfold pt. rewrite !nth_overflow by (try rewrite HL; exact Hge). reflexivity.
Qed.

Corollary sub_translate_rigid sel v X :
  same_shape_on (fun i => sel i = true) X (sub_translate ROps sel v X) /\
  (forall i, sel i = false -> pt (sub_translate ROps sel v X) i = pt X i).
Proof. apply (update_rows_rigid sel (fun x => vadd ROps x v)), rigid_vadd. Qed.
Corollary sub_transform_rigid sel M X : proper M ->
  same_shape_on (fun i => sel i = true) X (sub_transform ROps sel M X) /\
  (forall i, sel i = false -> pt (sub_transform ROps sel M X) i = pt X i).
Proof. intros HM. apply (update_rows_rigid sel (fun x => vm ROps x M)), rigid_vm, HM. Qed.

(* ------------------------------------------------------------------ dihedral law and rotate_dihedral *)
(* turning u3 by the row action of the rotation (s, c) about u2 turns the arctan2 arguments by MINUS that angle *)
Lemma dihedral_law (u1 u2 u3 : vecR) (n s c : R) : n <> 0 -> n * n = norm2 ROps u2 ->
  let u3' := vm ROps u3 (rot_from_axis ROps u2 n s c) in
  n * dot ROps u1 (cross ROps u2 u3')
    = c * (n * dot ROps u1 (cross ROps u2 u3)) - s * dot ROps (cross ROps u1 u2) (cross ROps u2 u3) /\
  dot ROps (cross ROps u1 u2) (cross ROps u2 u3')
    = c * dot ROps (cross ROps u1 u2) (cross ROps u2 u3) + s * (n * dot ROps u1 (cross ROps u2 u3)).
Proof.
  vdestruct. intros Hn E. f3_in E. cbv zeta. rot_unfold. f3. inv_as_var Hn. clear Hn. split; nsatz.
Qed.

(* the rotation and the per-row map used by rotate_dihedral *)
Definition rd_matrix (P1 P2 P3 P4 : vecR) (st ct n2 rho : R) : matR :=
  let '(g1, g2) := dihedral_args ROps P1 P2 P3 P4 n2 in
  rot_from_axis ROps (vsub ROps P3 P2) n2 (g1 / rho * ct - g2 / rho * st) (g2 / rho * ct + g1 / rho * st).
Definition rd_move (M : matR) (o x : vecR) : vecR := vadd ROps (vm ROps (vadd ROps x (vopp ROps o)) M) o.

Lemma rotate_dihedral_unfold X i1 i2 i3 i4 sel st ct n2 rho :
  rotate_dihedral ROps X i1 i2 i3 i4 sel st ct n2 rho
  = update_rows sel (rd_move (rd_matrix (pt X i1) (pt X i2) (pt X i3) (pt X i4) st ct n2 rho) (pt X i2)) X.
Proof.
  unfold rotate_dihedral, rd_matrix, pt.
  destruct (dihedral_args ROps (nth i1 X (vzero ROps)) (nth i2 X (vzero ROps)) (nth i3 X (vzero ROps)) (nth i4 X (vzero ROps)) n2) as [g1 g2].
  unfold sub_translate, sub_transform. rewrite !update_rows_compose. reflexivity.
Qed.

Lemma rd_move_rigid M o : proper M -> rigid_map (rd_move M o).
Proof.
  intros HM. unfold rd_move.
  apply (rigid_compose (fun x => vm ROps (vadd ROps x (vopp ROps o)) M) (fun y => vadd ROps y o)); [|apply rigid_vadd].
  apply (rigid_compose (fun x => vadd ROps x (vopp ROps o)) (fun y => vm ROps y M)); [apply rigid_vadd | apply rigid_vm, HM].
Qed.
Lemma rd_move_diff M o x y : vsub ROps (rd_move M o x) (rd_move M o y) = vm ROps (vsub ROps x y) M.
Proof. unfold rd_move. vdestruct. f3. veq; ring. Qed.
Lemma rd_move_axis M o x : vm ROps (vsub ROps x o) M = vsub ROps x o -> rd_move M o x = x.
Proof. unfold rd_move. vdestruct. f3. intros H. injection H; intros. veq; lra. Qed.

Lemma sincos_diff_unit (g1 g2 rho st ct : R) : rho <> 0 -> rho * rho = g1 * g1 + g2 * g2 -> st * st + ct * ct = 1 ->
  let s := g1 / rho * ct - g2 / rho * st in let c := g2 / rho * ct + g1 / rho * st in
  s * s + c * c = 1 /\ c * g1 - s * g2 = rho * st /\ c * g2 + s * g1 = rho * ct.
Proof. intros Hr E Hsc. cbv zeta. inv_as_var Hr. repeat split; nsatz. Qed.

Lemma rd_matrix_proper P1 P2 P3 P4 st ct n2 rho :
  0 < n2 -> n2 * n2 = norm2 ROps (vsub ROps P3 P2) ->
  0 < rho -> rho * rho = fst (dihedral_args ROps P1 P2 P3 P4 n2) * fst (dihedral_args ROps P1 P2 P3 P4 n2)
                       + snd (dihedral_args ROps P1 P2 P3 P4 n2) * snd (dihedral_args ROps P1 P2 P3 P4 n2) ->
  st * st + ct * ct = 1 -> proper (rd_matrix P1 P2 P3 P4 st ct n2 rho).
Proof.
  intros Hn E Hr Er Hsc. unfold rd_matrix.
  destruct (dihedral_args ROps P1 P2 P3 P4 n2) as [g1 g2]. simpl fst in Er. simpl snd in Er.
  assert (Hr' : rho <> 0) by lra.
  destruct (sincos_diff_unit g1 g2 rho st ct Hr' Er Hsc) as [U _].
  apply (rot_from_axis_correct _ _ _ _ Hn E U).
Qed.

(* Structure.rotate_dihedral reaches the target: after the call the arctan2 arguments of dihedral(a1..a4)
   are (rho sin t, rho cos t) with rho > 0, so the dihedral IS t (for t in (-pi, pi]); the moved side keeps
   its shape, nothing else moves, and |x3 - x2| is unchanged. *)
Theorem rotate_dihedral_correct (X : list vecR) (i1 i2 i3 i4 : nat) (sel : nat -> bool) (st ct n2 rho : R) :
  (i1 < length X)%nat -> (i2 < length X)%nat -> (i3 < length X)%nat -> (i4 < length X)%nat ->
  sel i1 = false -> sel i2 = false -> sel i3 = true -> sel i4 = true ->
  0 < n2 -> n2 * n2 = norm2 ROps (vsub ROps (pt X i3) (pt X i2)) ->
  let g := dihedral_args ROps (pt X i1) (pt X i2) (pt X i3) (pt X i4) n2 in
  0 < rho -> rho * rho = fst g * fst g + snd g * snd g ->
  st * st + ct * ct = 1 ->
  let X' := rotate_dihedral ROps X i1 i2 i3 i4 sel st ct n2 rho in
  dihedral_args ROps (pt X' i1) (pt X' i2) (pt X' i3) (pt X' i4) n2 = (rho * st, rho * ct) /\
  n2 * n2 = norm2 ROps (vsub ROps (pt X' i3) (pt X' i2)) /\
  same_shape_on (fun i => sel i = true) X X' /\
  (forall i, sel i = false -> pt X' i = pt X i).
Proof.
  intros L1 L2 L3 L4 S1 S2 S3 S4 Hn E g Hr Er Hsc X'.
  subst X'. rewrite rotate_dihedral_unfold.
  set (M := rd_matrix (pt X i1) (pt X i2) (pt X i3) (pt X i4) st ct n2 rho).
  assert (PM : proper M) by (apply rd_matrix_proper; assumption).
  destruct (update_rows_rigid sel (rd_move M (pt X i2)) X (rd_move_rigid M (pt X i2) PM)) as [Shape Frame].
  destruct (update_rows_frame sel (rd_move M (pt X i2)) X) as [HL HN].
  rewrite (Frame i1 S1), (Frame i2 S2), (HN i3 L3), (HN i4 L4), S3, S4.
  (* the axis end x3 is fixed *)
  assert (Ax : rd_move M (pt X i2) (pt X i3) = pt X i3).
  { apply rd_move_axis. subst M. unfold rd_matrix. fold g. destruct g as [g1 g2]. simpl fst in Er. simpl snd in Er.
    assert (Hr' : rho <> 0) by lra.
    destruct (sincos_diff_unit g1 g2 rho st ct Hr' Er Hsc) as [U _].
    apply (rot_from_axis_correct _ _ _ _ Hn E U). }
  rewrite Ax. split; [|split; [exact E | split; [exact Shape | exact Frame]]].
  (* u3' = (x4 - x3) M *)
  assert (U3 : vsub ROps (rd_move M (pt X i2) (pt X i4)) (pt X i3) = vm ROps (vsub ROps (pt X i4) (pt X i3)) M).
  { rewrite <- (rd_move_diff M (pt X i2)). rewrite Ax. reflexivity. }
  unfold dihedral_args at 1. rewrite U3. clear U3 Ax Shape Frame HN HL PM.
  subst M g. unfold rd_matrix, dihedral_args in *. simpl fst in Er. simpl snd in Er. cbv beta iota.
  set (u1 := vsub ROps (pt X i2) (pt X i1)) in *.
  set (u2 := vsub ROps (pt X i3) (pt X i2)) in *.
  set (u3 := vsub ROps (pt X i4) (pt X i3)) in *.
  set (g1 := fmul ROps n2 (dot ROps u1 (cross ROps u2 u3))) in *.
  set (g2 := dot ROps (cross ROps u1 u2) (cross ROps u2 u3)) in *.
  assert (Hn' : n2 <> 0) by lra. assert (Hr' : rho <> 0) by lra.
  destruct (sincos_diff_unit g1 g2 rho st ct Hr' Er Hsc) as [_ [T1 T2]].
  destruct (dihedral_law u1 u2 u3 n2 (g1 / rho * ct - g2 / rho * st) (g2 / rho * ct + g1 / rho * st) Hn' E) as [D1 D2].
  cbv zeta in D1, D2. change (fmul ROps) with Rmult in *. rewrite D1, D2.
  fold g1 g2. f_equal; [exact T1 | exact T2].
Qed.

(* ------------------------------------------------------------------ centroids and centring *)
Lemma fnat_INR (n : nat) : fnat ROps n = INR n.
Proof. unfold fnat. cbv [fofZ ROps]. symmetry. apply INR_IZR_INZ. Qed.

Lemma vsum_translate v X : vsum ROps (translate ROps v X) = vadd ROps (vsum ROps X) (vscale ROps (INR (length X)) v).
Proof.
  induction X as [|x X IH].
  - destruct v as [[? ?] ?]. simpl. f3. veq; ring.
  - change (vsum ROps (translate ROps v (x :: X))) with (vadd ROps (vadd ROps x v) (vsum ROps (translate ROps v X))).
    rewrite IH. change (vsum ROps (x :: X)) with (vadd ROps x (vsum ROps X)).
    change (length (x :: X)) with (S (length X)). rewrite S_INR.
    generalize (vsum ROps X) (INR (length X)). intros y k. vdestruct. f3. veq; ring.
Qed.
Lemma vsum_transform M X : vsum ROps (transform ROps M X) = vm ROps (vsum ROps X) M.
Proof.
  induction X as [|x X IH].
  - destruct M as [[[[? ?] ?] [[? ?] ?]] [[? ?] ?]]. simpl. f3. veq; ring.
  - change (vsum ROps (transform ROps M (x :: X))) with (vadd ROps (vm ROps x M) (vsum ROps (transform ROps M X))).
    rewrite IH. change (vsum ROps (x :: X)) with (vadd ROps x (vsum ROps X)). symmetry. apply vm_vadd.
Qed.

Lemma centroid_translate v X : X <> [] -> centroid ROps (translate ROps v X) = vadd ROps (centroid ROps X) v.
Proof.
  intros HX. unfold centroid. rewrite vsum_translate. unfold translate. rewrite map_length, fnat_INR.
  assert (Hn : INR (length X) <> 0) by (apply not_0_INR; destruct X; [contradiction | discriminate]).
  generalize (vsum ROps X) (INR (length X)) Hn. intros y k Hk. vdestruct. f3. veq; field; exact Hk.
Qed.
Lemma centroid_transform M X : centroid ROps (transform ROps M X) = vm ROps (centroid ROps X) M.
Proof.
  unfold centroid. rewrite vsum_transform. unfold transform. rewrite map_length.
  generalize (vsum ROps X) (fnat ROps (length X)). intros y k. vdestruct. f3. unfold Rdiv. veq; ring.
Qed.

(* centring at the centroid puts the centroid at the origin (Molecule.align_to_ref_coords step 1, center_at_core) *)
Theorem centred_centroid X : X <> [] -> centroid ROps (translate ROps (vopp ROps (centroid ROps X)) X) = vzero ROps.
Proof. intros HX. rewrite centroid_translate by exact HX. generalize (centroid ROps X). intros c. vdestruct. f3. veq; ring. Qed.

Lemma select_translate idx v X : (forall i, In i idx -> (i < length X)%nat) ->
  select ROps idx (translate ROps v X) = translate ROps v (select ROps idx X).
Proof.
  intros H. unfold select, translate. rewrite map_map. apply map_ext_in. intros i Hi.
  apply (map_nth_lt (fun x => vadd ROps x v)). apply H, Hi.
Qed.
Lemma vm_vzero M : vm ROps (vzero ROps) M = vzero ROps.
Proof. vdestruct. f3. veq; ring. Qed.
Lemma select_transform idx M X : select ROps idx (transform ROps M X) = transform ROps M (select ROps idx X).
Proof.
  unfold select, transform. rewrite map_map. apply map_ext. intros i.
  rewrite <- (vm_vzero M) at 1. apply (map_nth (fun x => vm ROps x M)).
Qed.

(* ------------------------------------------------------------------ ensembles: every conformer keeps its shape *)
Lemma ens_translate2_shape vs E : length vs = length E -> Forall2 same_shape E (ens_translate2 ROps vs E).
Proof.
  revert vs. induction E as [|X E IH]; intros [|v vs] HL; simpl in HL; try discriminate; simpl; constructor.
  - apply translate_same_shape.
  - apply IH. lia.
Qed.
Theorem ens_translate1_shape v E : Forall2 same_shape E (ens_translate1 ROps v E).
Proof. induction E as [|X E IH]; simpl; constructor; [apply translate_same_shape | exact IH]. Qed.
Theorem ens_rotate_shape M E : proper M -> Forall2 same_shape E (ens_rotate ROps M E).
Proof. intros HM. induction E as [|X E IH]; simpl; constructor; [now apply transform_same_shape | exact IH]. Qed.
Theorem center_at_atom_shape k E : Forall2 same_shape E (center_at_atom ROps k E).
Proof. apply ens_translate2_shape. now rewrite map_length. Qed.
Theorem center_at_core_shape idx E : Forall2 same_shape E (center_at_core ROps idx E).
Proof. apply ens_translate2_shape. now rewrite map_length. Qed.
(* and the centring atom really lands on the origin, in every conformer *)
Lemma ens_translate2_map (f : list vecR -> vecR) E :
  ens_translate2 ROps (map f E) E = map (fun X => translate ROps (f X) X) E.
Proof. unfold ens_translate2. induction E as [|X E IH]; simpl; [reflexivity | now rewrite IH]. Qed.
Theorem center_at_atom_origin k E X' :
  In X' (center_at_atom ROps k E) -> (k < length X')%nat -> pt X' k = vzero ROps.
Proof.
  unfold center_at_atom. rewrite (ens_translate2_map (fun X => vopp ROps (nth k X (vzero ROps)))).
  intros HI Hk. apply in_map_iff in HI. destruct HI as [X [<- _]].
  unfold translate in Hk. rewrite map_length in Hk. rewrite pt_translate by exact Hk.
  unfold pt. generalize (nth k X (vzero ROps)). intros y. vdestruct. f3. veq; ring.
Qed.
Theorem center_at_core_origin idx E X' :
  In X' (center_at_core ROps idx E) -> idx <> [] -> (forall i, In i idx -> (i < length X')%nat) ->
  centroid ROps (select ROps idx X') = vzero ROps.
Proof.
  unfold center_at_core. rewrite (ens_translate2_map (fun X => vopp ROps (centroid ROps (select ROps idx X)))).
  intros HI Hne Hidx. apply in_map_iff in HI. destruct HI as [X [<- _]].
  rewrite select_translate by (intros i Hi; specialize (Hidx i Hi); unfold translate in Hidx; now rewrite map_length in Hidx).
  apply centred_centroid. unfold select. destruct idx; [contradiction | discriminate].
Qed.

(* ------------------------------------------------------------------ alignment *)
Lemma pick_best_spec (results : list (matR * R)) (r : R) (M : matR) :
  pick_best ROps results = (r, Some M) ->
  In (M, r) results /\ r < 100 /\ (forall M' r', In (M', r') results -> r <= r').
Proof.
  unfold pick_best.
  (* invariant of the fold: the running best is below 100 and minimal so far, and comes from the list *)
  assert (G : forall (l : list (matR * R)) (seen : list (matR * R)) (b : R * option matR),
    (fst b <= 100) ->
    (forall M' r', In (M', r') seen -> fst b <= r') ->
    (match snd b with Some Mb => In (Mb, fst b) seen /\ fst b < 100 | None => fst b = 100 end) ->
    fold_left (fun best r0 => if fltb ROps (snd r0) (fst best) then (snd r0, Some (fst r0)) else best) l b = (r, Some M) ->
    In (M, r) (seen ++ l) /\ r < 100 /\ (forall M' r', In (M', r') (seen ++ l) -> r <= r')).
  { induction l as [|[Mx rx] l IH]; intros seen b Hb Hmin Hsrc Hf; simpl in Hf.
    - subst b. simpl in *. rewrite app_nil_r. destruct Hsrc as [Hin Hlt]. repeat split; assumption.
    - replace (seen ++ (Mx, rx) :: l) with ((seen ++ [(Mx, rx)]) ++ l) by (rewrite <- app_assoc; reflexivity).
      unfold fltb in Hf. cbv [fleb ROps] in Hf. simpl snd in Hf. simpl fst in Hf.
      destruct (Rleb (fst b) rx) eqn:Cmp; simpl negb in Hf.
      + apply Rleb_true in Cmp. apply (IH (seen ++ [(Mx, rx)]) b); try assumption.
        * intros M' r' Hin. apply in_app_or in Hin. destruct Hin as [Hin|[Heq|[]]]; [eapply Hmin; eassumption|].
          inversion Heq; subst. exact Cmp.
        * destruct (snd b); [|exact Hsrc]. destruct Hsrc. split; [apply in_or_app; left|]; assumption.
      + apply Rleb_false in Cmp. apply (IH (seen ++ [(Mx, rx)]) (rx, Some Mx)); try assumption; simpl.
        * lra.
        * intros M' r' Hin. apply in_app_or in Hin. destruct Hin as [Hin|[Heq|[]]].
          -- specialize (Hmin M' r' Hin). lra.
          -- inversion Heq; subst. lra.
        * split; [apply in_or_app; right; left; reflexivity | lra]. }
  intros Hf. apply (G results [] (fofZ ROps 100, None)); simpl; try (cbv [fofZ ROps]; lra); try exact Hf.
  intros ? ? [].
Qed.

Section Align.
(* The user-supplied callback (Kabsch via SVD in molli/scripts/align.py) is external.  It is described by
   hypotheses: it returns a proper rotation together with the deviation achieved by that rotation, for SOME
   deviation measure `dev` (the RMSD in practice; nothing below depends on which). *)
Variable dev : list vecR -> list vecR -> R.
Variable func : list vecR -> list vecR -> matR * R.
Hypothesis func_proper : forall P Q, proper (fst (func P Q)).
Hypothesis func_reports : forall P Q, snd (func P Q) = dev (transform ROps (fst (func P Q)) P) Q.

(* Molecule.align_to_ref_coords: the value returned is the deviation of the pose the call leaves (before the
   optional final shift by vec), it is the smallest among the candidate mappings, and the whole molecule
   has been moved rigidly. *)
Theorem align_reports (X : list vecR) (idxs : list (list nat)) (ref : list vecR) (v : option vecR)
        (X' : list vecR) (r : R) :
  align ROps func X idxs ref v = Some (X', r) ->
  exists idx Xr,
    In idx idxs /\
    X' = match v with Some t => translate ROps t Xr | None => Xr end /\
    r = dev (select ROps idx Xr) ref /\
    r < 100 /\
    (forall idx', In idx' idxs ->
       r <= snd (func (select ROps idx' (align_centered ROps X (hd [] idxs))) ref)) /\
    same_shape X X'.
Proof.
  unfold align. destruct idxs as [|idx0 rest]; [discriminate|].
  set (idxs := idx0 :: rest). unfold align_with.
  set (X1 := align_centered ROps X idx0).
  destruct (pick_best ROps (map (fun P => func P ref) (align_inputs ROps X idx0 idxs))) as [rb [Mb|]] eqn:PB; [|discriminate].
  intros H. injection H; intros <- <-. clear H.
  apply pick_best_spec in PB. destruct PB as [Hin [Hlt Hmin]].
  apply in_map_iff in Hin. destruct Hin as [P [HP HinP]].
  unfold align_inputs in HinP. apply in_map_iff in HinP. destruct HinP as [idx [<- Hidx]]. fold X1 in HP.
  assert (EM : Mb = fst (func (select ROps idx X1) ref)) by (rewrite HP; reflexivity).
  assert (Er : rb = snd (func (select ROps idx X1) ref)) by (rewrite HP; reflexivity).
  assert (PMb : proper Mb) by (rewrite EM; apply func_proper).
  exists idx, (transform ROps Mb X1).
  split; [exact Hidx|]. split; [reflexivity|].
  split; [rewrite select_transform; rewrite Er, func_reports, <- EM; reflexivity|].
  split; [exact Hlt|]. split.
  - intros idx' Hidx'. simpl hd. fold X1.
    apply (Hmin (fst (func (select ROps idx' X1) ref))).
    apply in_map_iff. exists (select ROps idx' X1). split; [apply surjective_pairing|].
    unfold align_inputs. apply in_map_iff. exists idx'. split; [reflexivity | exact Hidx'].
  - assert (S1 : same_shape X (transform ROps Mb X1)).
    { apply (same_shape_on_trans _ X X1); [apply translate_same_shape | now apply transform_same_shape]. }
    destruct v as [t|]; [|exact S1].
    apply (same_shape_on_trans _ X (transform ROps Mb X1)); [exact S1 | apply translate_same_shape].
Qed.

(* ---- the returned value does not depend on the initial pose ---- *)
(* further contract of the callback: the deviation it reports is the same for a rotated copy of its first argument
   (true of any optimal-superposition routine: Kabsch, quaternion fit, ...) *)
Hypothesis func_invariant : forall P Q M, proper M -> snd (func (transform ROps M P) Q) = snd (func P Q).

Definition pb_step (best : R * option matR) (r : matR * R) : R * option matR :=
  if fltb ROps (snd r) (fst best) then (snd r, Some (fst r)) else best.

Lemma pick_best_fold_snd_only (l l' : list (matR * R)) :
  Forall2 (fun r r' => snd r = snd r') l l' ->
  forall b b' : R * option matR, fst b = fst b' -> (snd b = None <-> snd b' = None) ->
  fst (fold_left pb_step l b) = fst (fold_left pb_step l' b') /\
  (snd (fold_left pb_step l b) = None <-> snd (fold_left pb_step l' b') = None).
Proof.
  induction 1 as [|r r' l l' Hr H IH]; intros b b' Hb Hn; simpl; [split; assumption|].
  assert (S : fst (pb_step b r) = fst (pb_step b' r') /\ (snd (pb_step b r) = None <-> snd (pb_step b' r') = None)).
  { unfold pb_step. rewrite Hr, Hb. destruct (fltb ROps (snd r') (fst b')); simpl.
    - split; [reflexivity | split; discriminate].
    - split; assumption. }
  apply IH; apply S.
Qed.

Lemma align_with_value (X : list vecR) idx0 results v :
  option_map snd (align_with ROps X idx0 results v)
  = match snd (pick_best ROps results) with Some _ => Some (fst (pick_best ROps results)) | None => None end.
Proof. unfold align_with. destruct (pick_best ROps results) as [r [M|]]; reflexivity. Qed.

Lemma align_centered_reposed (X : list vecR) (idx0 : list nat) (M : matR) (w : vecR) :
  idx0 <> [] -> (forall i, In i idx0 -> (i < length X)%nat) ->
  align_centered ROps (translate ROps w (transform ROps M X)) idx0 = transform ROps M (align_centered ROps X idx0).
Proof.
  intros Hne Hr. unfold align_centered.
  rewrite select_translate by (intros i Hi; unfold transform; rewrite map_length; apply Hr, Hi).
  rewrite select_transform.
  assert (Hs : transform ROps M (select ROps idx0 X) <> []).
  { unfold transform, select. destruct idx0; [contradiction | discriminate]. }
  rewrite centroid_translate by exact Hs. rewrite centroid_transform.
  generalize (centroid ROps (select ROps idx0 X)). intros c.
  unfold translate, transform. rewrite !map_map. apply map_ext. intros x.
  vdestruct. f3. veq; ring.
Qed.

Theorem align_pose_independent (X : list vecR) (idxs : list (list nat)) (ref : list vecR) (v : option vecR)
        (M : matR) (w : vecR) :
  proper M -> hd [] idxs <> [] -> (forall i, In i (hd [] idxs) -> (i < length X)%nat) ->
  option_map snd (align ROps func (translate ROps w (transform ROps M X)) idxs ref v)
  = option_map snd (align ROps func X idxs ref v).
Proof.
  intros HM Hne Hr. unfold align. destruct idxs as [|idx0 rest]; [reflexivity|]. simpl hd in *.
  rewrite !align_with_value.
  set (l' := map (fun P => func P ref) (align_inputs ROps X idx0 (idx0 :: rest))).
  set (l := map (fun P => func P ref) (align_inputs ROps (translate ROps w (transform ROps M X)) idx0 (idx0 :: rest))).
  assert (F : Forall2 (fun r r' => snd r = snd r') l l').
  { subst l l'. unfold align_inputs. rewrite align_centered_reposed by assumption. rewrite !map_map.
    generalize (idx0 :: rest). intros L. induction L as [|ix L IH]; simpl; constructor; [|exact IH].
    rewrite select_transform. apply func_invariant, HM. }
  destruct (pick_best_fold_snd_only l l' F (fofZ ROps 100, None) (fofZ ROps 100, None) eq_refl (conj (fun e => e) (fun e => e))) as [E1 E2].
  change (fold_left pb_step l (fofZ ROps 100, None)) with (pick_best ROps l) in *.
  change (fold_left pb_step l' (fofZ ROps 100, None)) with (pick_best ROps l') in *.
  rewrite E1. destruct (snd (pick_best ROps l)) as [m|] eqn:A; destruct (snd (pick_best ROps l')) as [m'|] eqn:B; try reflexivity.
  - destruct E2 as [_ E2]. specialize (E2 eq_refl). discriminate.
  - destruct E2 as [E2 _]. specialize (E2 eq_refl). discriminate.
Qed.
End Align.
