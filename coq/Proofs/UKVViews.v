(* C02: the derived views of a handle (items, values) and pickled copies of a handle, against the insert-only map. *)
From Coq Require Import NArith Arith List Bool Lia.
Import ListNotations.
From Molli Require Import Model.UKV Proofs.UKVBase Proofs.UKV Model.UKVViews.
Open Scope N_scope.

(* reading the keys of a sublist of the records through a complete open handle returns those records *)
Lemma gets_sub H rs h : full H rs h -> closed h = false -> NoDup (map fst rs) ->
  forall l, incl l rs -> gets (H ++ blocks rs) h (map fst l) = Some l.
Proof.
  intros Hf Hc Hnd l. induction l as [|[k v] l IH]; intros Hin; [reflexivity|].
  cbn [map fst gets].
  pose proof (get_spec H rs [] h k Hf Hc) as G. rewrite app_nil_r in G. rewrite G.
  rewrite (assoc_in rs k v Hnd (Hin _ (or_introl eq_refl))).
  rewrite IH; [reflexivity|]. intros x Hx. apply Hin. right. exact Hx.
Qed.

(* items() of an open handle is exactly the abstract map, in insertion order; values() its values *)
Theorem items_open H rs w i :
  Inv H rs w -> closed (hnth (snd w) i) = false ->
  items (fst w) (hnth (snd w) i) = VRItems rs /\ values (fst w) (hnth (snd w) i) = VRVals (map snd rs).
Proof.
  intros I Hc. pose proof (inv_open _ _ _ I i Hc) as Hf.
  assert (K : keys (hnth (snd w) i) = map fst rs).
  { destruct Hf as [Ht _]. unfold keys. rewrite Ht. apply map_fst_index. }
  unfold items, values. rewrite K, (inv_file _ _ _ I).
  rewrite (gets_sub H rs _ Hf Hc (inv_nodup _ _ _ I) rs (incl_refl rs)). split; reflexivity.
Qed.

(* through a closed handle nothing is served: the generator raises at its first key (or is empty) *)
Theorem items_closed f h : closed h = true ->
  (items f h = VRFail \/ items f h = VRItems []) /\ (values f h = VRFail \/ values f h = VRVals []).
Proof.
  intros Hc. unfold items, values. destruct (keys h) as [|k ks]; [split; right; reflexivity|].
  cbn [gets]. unfold get. rewrite Hc. split; left; reflexivity.
Qed.

(* the discipline for the derived operations: base operations as before; a handle object is copied (pickled) only
   while it is closed, into a slot whose handle is closed *)
Definition ok_vop (w : world) (o : vop) : Prop :=
  match o with
  | VBase o' => ok_op w o'
  | VItems i | VValues i | VHeader i => (i < length (snd w))%nat
  | VDup i j => (i < length (snd w))%nat /\ (j < length (snd w))%nat /\
                closed (hnth (snd w) i) = true /\ closed (hnth (snd w) j) = true
  end.

Definition vstep_spec (rs : list kv) (w : world) (o : vop) (r : vres) (rs' : list kv) : Prop :=
  match o with
  | VBase o' => exists r', r = VR r' /\ step_spec rs (hnth (snd w) (op_handle o')) o' r' rs'
  | VItems i => rs' = rs /\ if closed (hnth (snd w) i) then r = VRFail \/ r = VRItems [] else r = VRItems rs
  | VValues i => rs' = rs /\ if closed (hnth (snd w) i) then r = VRFail \/ r = VRVals [] else r = VRVals (map snd rs)
  | VDup _ _ => rs' = rs /\ r = VR ROk
  | VHeader _ => rs' = rs /\ r = (let '(a, b, c) := read_header (fst w) in VRHdr a b c)
  end.

Theorem vstep_refines H rs w o :
  Inv H rs w -> ok_vop w o ->
  exists rs', Inv H rs' (fst (vstep w o)) /\ vstep_spec rs w o (snd (vstep w o)) rs'.
Proof.
  intros I Hok. destruct o as [o'|i|i|i j|i]; cbn [vstep ok_vop vstep_spec] in *; [| | | |exists rs; simpl; split; [exact I|split; reflexivity]].
  - destruct (step_refines H rs w o' I Hok) as [rs' [I' [S' _]]]. exists rs'.
    destruct (step w o') as [w' r'] eqn:E. simpl in *. split; [exact I'|]. exists r'. split; [reflexivity|exact S'].
  - exists rs. simpl. split; [exact I|]. split; [reflexivity|]. fold (hnth (snd w) i).
    destruct (closed (hnth (snd w) i)) eqn:Ec.
    + apply (items_closed (fst w) _ Ec).
    + apply (items_open H rs w i I Ec).
  - exists rs. simpl. split; [exact I|]. split; [reflexivity|]. fold (hnth (snd w) i).
    destruct (closed (hnth (snd w) i)) eqn:Ec.
    + apply (items_closed (fst w) _ Ec).
    + apply (items_open H rs w i I Ec).
  - exists rs. simpl. split; [|split; reflexivity].
    destruct Hok as [Hi [Hj [Hci Hcj]]]. destruct w as [f hs]. simpl in *. fold (hnth hs i).
    destruct I as [If Ih Iwf Ind Isnap Iopen Iexcl]. simpl in *.
    constructor; simpl; try assumption.
    + intros a. unfold hnth. destruct (Nat.eq_dec a j) as [->|Ha].
      * rewrite nth_upd_same by exact Hj. apply Isnap.
      * rewrite nth_upd_other by assumption. apply Isnap.
    + intros a. unfold hnth. destruct (Nat.eq_dec a j) as [->|Ha].
      * rewrite nth_upd_same by exact Hj. fold (hnth hs i). congruence.
      * rewrite nth_upd_other by assumption. apply Iopen.
    + intros a b Hab. unfold hnth.
      destruct (Nat.eq_dec a j) as [->|Ha]; destruct (Nat.eq_dec b j) as [->|Hb]; try contradiction.
      * rewrite nth_upd_same by exact Hj. fold (hnth hs i). congruence.
      * rewrite nth_upd_same by exact Hj. intros _ _. exact Hci.
      * rewrite !nth_upd_other by assumption. apply Iexcl; exact Hab.
Qed.

Fixpoint ok_vrun (w : world) (ops : list vop) : Prop :=
  match ops with
  | [] => True
  | o :: ops' => ok_vop w o /\ ok_vrun (fst (vstep w o)) ops'
  end.

Fixpoint vrun_spec (rs : list kv) (w : world) (ops : list vop) (out : list vres) (rs_final : list kv) : Prop :=
  match ops, out with
  | [], [] => rs_final = rs
  | o :: ops', r :: out' =>
      exists rs', vstep_spec rs w o r rs' /\ vrun_spec rs' (fst (vstep w o)) ops' out' rs_final
  | _, _ => False
  end.

(* every disciplined history over base operations, derived views and pickled handle copies *)
Theorem vrun_refines H : forall ops rs w,
  Inv H rs w -> ok_vrun w ops ->
  exists rs', Inv H rs' (snd (vrun w ops)) /\ vrun_spec rs w ops (fst (vrun w ops)) rs'.
Proof.
  induction ops as [|o ops IH]; intros rs w I Hok.
  - exists rs. simpl. split; [exact I|reflexivity].
  - destruct Hok as [Ho Hrest].
    destruct (vstep_refines H rs w o I Ho) as [rs1 [I1 S1]].
    destruct (IH rs1 (fst (vstep w o)) I1 Hrest) as [rs2 [I2 R2]].
    exists rs2. simpl. destruct (vstep w o) as [w1 r1] eqn:Es. simpl in *.
    destruct (vrun w1 ops) as [rs_out wf] eqn:Er. simpl in *.
    split; [exact I2|]. exists rs1. split; assumption.
Qed.

(* the header fields a handle reports are the ones the file was created with: whatever was appended since *)
Theorem read_header_spec h1 h2 b0 rest :
  length h1 = 16%nat -> len h2 < 65536 -> len b0 < 4294967296 ->
  read_header (mk_header h1 h2 b0 ++ rest) = (h1, h2, b0).
Proof.
  intros L1 L2 L3. unfold read_header, mk_header.
  assert (S16 : forall x, skipn 16 (h1 ++ x) = x).
  { intros x. replace 16%nat with (length h1 + 0)%nat by lia. rewrite skipn_app, Nat.add_0_r, skipn_all, Nat.sub_diag. reflexivity. }
  rewrite <- !app_assoc. rewrite S16. cbn [app be32].
  assert (F16 : forall x, firstn 16 (h1 ++ x) = h1).
  { intros x. rewrite <- L1. rewrite firstn_app, Nat.sub_diag, firstn_all. simpl. apply app_nil_r. }
  rewrite F16.
  assert (E2 : len h2 / 256 mod 256 * 256 + len h2 mod 256 = len h2) by lia.
  assert (E0 : rd32 (len b0 / 16777216 mod 256) (len b0 / 65536 mod 256) (len b0 / 256 mod 256) (len b0 mod 256) = len b0)
    by (unfold rd32; lia).
  rewrite E2, E0.
  set (pre := h1 ++ [len h2 / 256 mod 256; len h2 mod 256] ++ [len b0 / 16777216 mod 256; len b0 / 65536 mod 256; len b0 / 256 mod 256; len b0 mod 256] ++ repeat 0 10).
  assert (Lp : len pre = 32).
  { unfold pre, len. rewrite !app_length, L1, repeat_length. reflexivity. }
  assert (Ef : h1 ++ len h2 / 256 mod 256 :: len h2 mod 256 :: len b0 / 16777216 mod 256 :: len b0 / 65536 mod 256 ::
               len b0 / 256 mod 256 :: len b0 mod 256 :: repeat 0 10 ++ h2 ++ b0 ++ rest = pre ++ h2 ++ b0 ++ rest).
  { unfold pre. rewrite <- !app_assoc. reflexivity. }
  rewrite Ef. f_equal; [f_equal|].
  - rewrite <- Lp. apply sub_app_mid.
  - replace (pre ++ h2 ++ b0 ++ rest) with ((pre ++ h2) ++ b0 ++ rest) by (rewrite <- app_assoc; reflexivity).
    replace (32 + len h2) with (len (pre ++ h2)) by (rewrite len_app, Lp; reflexivity). apply sub_app_mid.
Qed.
