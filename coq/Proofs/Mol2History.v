(* C07 -- lemmas about Model/Mol2History.v: nothing that looks at an ensemble before the write shows in the text, and
   every iterator over an ensemble has a cursor of its own. *)
From Coq Require Import String List Bool NArith Lia.
From Molli Require Import Common.StrSplit Common.Dec6 Gen.Mol2Types Model.Mol2Text Proofs.Mol2Text Model.Mol2History.
Import ListNotations.
Local Open Scope N_scope.

Lemma h_step_ens s o : hs_ens (fst (h_step s o)) = hs_ens s.
Proof.
  destruct o as [|i|k| |]; simpl; try reflexivity.
  destruct (nth_error (hs_its s) i) as [c|]; [|reflexivity].
  destruct (c <? lenN (e_confs (hs_ens s))); reflexivity.
Qed.

Lemma h_run_ens ops : forall s, hs_ens (h_run s ops) = hs_ens s.
Proof.
  induction ops as [|o t IH]; intros s; [reflexivity|]. simpl. rewrite IH. apply h_step_ens.
Qed.

Lemma ens_lines_write e : text_of (ens_lines e) = write_ens RV e.
Proof. unfold ens_lines, write_ens, write_all. now rewrite map_map. Qed.

(* the text written after ANY history is the text of the ensemble as it stands *)
Theorem write_after_any_history e ops : write_after e ops = write_ens RV e.
Proof. unfold write_after. rewrite h_run_ens. simpl. apply ens_lines_write. Qed.

Theorem history_roundtrip (Hacc : types_accb = true) (Hb : bonds_okb = true) e ops :
  wf_real_ens e = true -> read_ens RV (write_after e ops) = Some (norm_ens RV e).
Proof. intros H. rewrite write_after_any_history. now apply real_ensemble. Qed.

Theorem history_count_order (Hacc : types_accb = true) (Hb : bonds_okb = true) e ops e' :
  wf_real_ens e = true -> read_ens RV (write_after e ops) = Some e' ->
  length (e_confs e') = length (e_confs e) /\
  forall k c, nth_error (e_confs e) k = Some c -> nth_error (e_confs e') k = Some (map canon_cpos c).
Proof.
  intros H. rewrite write_after_any_history. apply ensemble_count_order. now apply real_good_ens.
Qed.

(* ---------------------------------------------------------------- cursors *)
Lemma nth_upd_same l : forall i v c, nth_error l i = Some c -> nth_error (upd l i v) i = Some v.
Proof.
  induction l as [|x t IH]; intros [|i] v c H; simpl in *; try discriminate; [reflexivity|]. now apply IH with c.
Qed.

Lemma nth_upd_other l : forall i j v, i <> j -> nth_error (upd l i v) j = nth_error l j.
Proof.
  induction l as [|x t IH]; intros [|i] [|j] v H; simpl; try reflexivity; [congruence|]. apply IH. congruence.
Qed.

Fixpoint count_next (i : nat) (ops : list hop) : N :=
  match ops with
  | [] => 0
  | HNext j :: t => (if Nat.eqb j i then 1 else 0) + count_next i t
  | _ :: t => count_next i t
  end.

(* an iterator that stands at conformer c stands, after any further history, at c + (the number of times ITS next()
   was called), capped at the number of conformers -- whatever was done with other iterators, with the ensemble, and
   however many writes happened in between *)
Theorem iterator_cursor ops : forall s i c,
  nth_error (hs_its s) i = Some c -> c <= lenN (e_confs (hs_ens s)) ->
  nth_error (hs_its (h_run s ops)) i = Some (N.min (c + count_next i ops) (lenN (e_confs (hs_ens s)))).
Proof.
  induction ops as [|o t IH]; intros s i c Hi Hc.
  - cbn [h_run count_next]. rewrite N.add_0_r, N.min_l by exact Hc. exact Hi.
  - destruct o as [|j|k| |]; cbn [h_run count_next h_step fst]; try (apply IH; assumption).
    + rewrite (IH (mk_hst (hs_ens s) (hs_its s ++ [0])) i c); [reflexivity| |exact Hc].
      cbn [hs_its]. rewrite nth_error_app1; [exact Hi|]. apply nth_error_Some. congruence.
    + destruct (Nat.eqb j i) eqn:E.
      * apply PeanoNat.Nat.eqb_eq in E. subst j. rewrite Hi.
        destruct (c <? lenN (e_confs (hs_ens s))) eqn:L; cbn [fst].
        -- apply N.ltb_lt in L.
           rewrite (IH (mk_hst (hs_ens s) (upd (hs_its s) i (c + 1))) i (c + 1)); cbn [hs_ens hs_its].
           ++ do 2 f_equal. lia.
           ++ now apply nth_upd_same with c.
           ++ lia.
        -- apply N.ltb_ge in L. rewrite (IH s i c Hi Hc). f_equal. rewrite !N.min_r by lia. reflexivity.
      * apply PeanoNat.Nat.eqb_neq in E. rewrite N.add_0_l.
        destruct (nth_error (hs_its s) j) as [cj|]; [|cbn [fst]; exact (IH s i c Hi Hc)].
        destruct (cj <? lenN (e_confs (hs_ens s))); cbn [fst].
        -- rewrite (IH (mk_hst (hs_ens s) (upd (hs_its s) j (cj + 1))) i c); cbn [hs_ens hs_its]; [reflexivity| |exact Hc].
           rewrite nth_upd_other; [exact Hi|exact E].
        -- exact (IH s i c Hi Hc).
Qed.

(* hence: the n-th next() of a fresh iterator hands out conformer n (or ends), for every interleaving *)
Corollary fresh_iterator_yields s ops :
  let s1 := fst (h_step s HNew) in
  let i := length (hs_its s) in
  let s2 := h_run s1 ops in
  snd (h_step s2 (HNext i)) =
    (if count_next i ops <? lenN (e_confs (hs_ens s)) then RYield (count_next i ops) else RStop).
Proof.
  intros s1 i s2.
  assert (H : nth_error (hs_its s2) i = Some (N.min (0 + count_next i ops) (lenN (e_confs (hs_ens s1))))).
  { apply iterator_cursor; [|lia]. simpl. rewrite nth_error_app2; [|lia]. now rewrite PeanoNat.Nat.sub_diag. }
  simpl. rewrite H. unfold s2. rewrite h_run_ens. simpl hs_ens. rewrite N.add_0_l.
  destruct (count_next i ops <? lenN (e_confs (hs_ens s))) eqn:L.
  - apply N.ltb_lt in L. rewrite N.min_l by lia. apply N.ltb_lt in L. rewrite L. reflexivity.
  - apply N.ltb_ge in L. rewrite N.min_r by lia. rewrite N.ltb_irrefl. reflexivity.
Qed.

(* ---------------------------------------------------------------- non-vacuity *)
Definition hist_demo : ens RV :=
  rens (u8 "ens") [((6, 5, 0), u8 "C1"); ((1, 1, 0), [])] [rbond 0 1 1]
    [[mk_cpos (mk_fx false 1) (mk_fx false 2) (mk_fx false 3) (mk_fx false 4); mk_cpos (mk_fx true 5) (mk_fx false 6) (mk_fx false 7) (mk_fx true 8)];
     [mk_cpos (mk_fx false 11) (mk_fx false 12) (mk_fx false 13) (mk_fx false 14); mk_cpos (mk_fx true 15) (mk_fx false 16) (mk_fx false 17) (mk_fx true 18)];
     [mk_cpos (mk_fx false 21) (mk_fx false 22) (mk_fx false 23) (mk_fx false 24); mk_cpos (mk_fx true 25) (mk_fx false 26) (mk_fx false 27) (mk_fx true 28)]].

(* a loop left at the second conformer with a second loop nested in it, an iterator that is still suspended, a write *)
Definition hist_demo_ops : list hop := [HNew; HNext 0; HNew; HNext 1; HNext 0; HIndex 2; HNew; HNext 2; HWrite; HLook].

Lemma history_demo :
  wf_real_ens hist_demo = true
  /\ option_map (fun e : ens RV => length (e_confs e)) (read_ens RV (write_after hist_demo hist_demo_ops)) = Some 3%nat
  /\ check_hist (CHist hist_demo
       [(HNew, ONone); (HNext 0, OYield [0]); (HNew, ONone); (HNext 1, OYield [0]); (HNext 0, OYield [1]); (HIndex 2, OYield [2]);
        (HNext 0, OYield [2]); (HNext 0, OStop); (HNext 0, OStop); (HNext 1, OAny)]
       (ens_lines hist_demo)) = true
  /\ check_hist (CHist hist_demo [(HNew, ONone); (HNext 0, OYield [0]); (HNew, ONone); (HNext 1, OYield [1])] (ens_lines hist_demo)) = false.
Proof. vm_compute. repeat split; reflexivity. Qed.

(* the excluded design (one cursor stored on the ensemble, rewound at the end of a loop): a fresh or fully iterated
   ensemble is written completely, but after next(iter(ens)) or a loop left at its first conformer the text starts at
   the second conformer -- 3 conformers in memory, 2 in the file *)
Lemma shared_cursor_refuted :
  option_map (fun e : ens RV => length (e_confs e)) (read_ens RV (shared_write_after hist_demo [])) = Some 3%nat
  /\ option_map (fun e : ens RV => length (e_confs e))
       (read_ens RV (shared_write_after hist_demo [HNew; HNext 0; HNext 0; HNext 0; HNext 0; HWrite])) = Some 3%nat
  /\ option_map (fun e : ens RV => length (e_confs e)) (read_ens RV (shared_write_after hist_demo [HNew; HNext 0])) = Some 2%nat
  /\ option_map (fun e : ens RV => length (e_confs e)) (read_ens RV (write_after hist_demo [HNew; HNext 0])) = Some 3%nat.
Proof. vm_compute. repeat split; reflexivity. Qed.
