(* C05 -- lemmas about Model/MolEdit.v *)
From Coq Require Import List Bool Arith ZArith NArith PArith Lia.
Import ListNotations.
From Molli Require Import Model.MolEdit.

Set Implicit Arguments.

(* ================================================================== list level *)
(* total version of del_nth *)
Fixpoint rm {A} (n : nat) (l : list A) : list A :=
  match l, n with
  | [], _ => []
  | _ :: r, O => r
  | x :: r, S k => x :: rm k r
  end.

Lemma del_nth_rm {A} : forall n (l : list A), n < length l -> del_nth n l = Some (rm n l).
Proof.
  induction n as [|n IH]; intros [|x l] H; simpl in *; try lia; [reflexivity|].
  rewrite IH by lia. reflexivity.
Qed.

Lemma del_nth_some {A} : forall n (l l' : list A), del_nth n l = Some l' -> n < length l /\ l' = rm n l.
Proof.
  induction n as [|n IH]; intros [|x l] l' H; simpl in *; try discriminate.
  - inversion H; split; [lia|reflexivity].
  - destruct (del_nth n l) eqn:E; simpl in H; [|discriminate]. inversion H; subst.
    apply IH in E. destruct E as [E1 E2]. split; [lia|]. rewrite E2. reflexivity.
Qed.

Lemma rm_length_eq {A B} : forall n (l1 : list A) (l2 : list B),
  length l1 = length l2 -> length (rm n l1) = length (rm n l2).
Proof.
  induction n as [|n IH]; intros [|x l1] [|y l2] H; simpl in *; try discriminate; try reflexivity.
  - inversion H; reflexivity.
  - f_equal. apply IH. lia.
Qed.

Lemma rm_in {A} : forall n (l : list A) x, In x (rm n l) -> In x l.
Proof.
  induction n as [|n IH]; intros [|y l] x H; simpl in *; auto.
  destruct H as [H|H]; [left; exact H | right; apply IH; exact H].
Qed.

Lemma rm_map {A B} (f : A -> B) : forall n (l : list A), map f (rm n l) = rm n (map f l).
Proof.
  induction n as [|n IH]; intros [|y l]; simpl; try reflexivity. f_equal. apply IH.
Qed.

Lemma rm_nodup {A} : forall n (l : list A), NoDup l -> NoDup (rm n l).
Proof.
  induction n as [|n IH]; intros [|y l] H; simpl; try assumption.
  - inversion H; assumption.
  - inversion H; subst. constructor; [|apply IH; assumption].
    intro Hin. apply rm_in in Hin. contradiction.
Qed.

Lemma rm_keeps {A} : forall n (l : list A) x y,
  nth_error l n = Some x -> In y l -> y <> x -> In y (rm n l).
Proof.
  induction n as [|n IH]; intros [|z l] x y Hn Hin Hne; simpl in *; try discriminate.
  - inversion Hn; subst. destruct Hin as [H|H]; [congruence|exact H].
  - destruct Hin as [H|H]; [left; exact H|right; eapply IH; eauto].
Qed.

Lemma rm_removed {A} : forall n (l : list A) x,
  NoDup l -> nth_error l n = Some x -> ~ In x (rm n l).
Proof.
  induction n as [|n IH]; intros [|z l] x Hnd Hn; simpl in *; try discriminate.
  - inversion Hn; subst. inversion Hnd; assumption.
  - inversion Hnd; subst. intros [H|H].
    + subst. apply nth_error_In in Hn. contradiction.
    + eapply IH; eauto.
Qed.

Lemma rm_tl {A} : forall n (l : list A), tl (rm (S n) l) = rm n (tl l).
Proof. intros n [|x l]; simpl; [destruct n|]; reflexivity. Qed.

(* find_idx / find / nth_error *)
Lemma find_idx_nth {A} (p : A -> bool) : forall l i,
  find_idx p l = Some i -> exists x, nth_error l i = Some x /\ p x = true /\ find p l = Some x.
Proof.
  induction l as [|y l IH]; intros i H; simpl in *; [discriminate|].
  destruct (p y) eqn:E.
  - inversion H; subst. exists y. simpl. auto.
  - destruct (find_idx p l) eqn:F; simpl in H; [|discriminate]. inversion H; subst.
    destruct (IH _ eq_refl) as [x [H1 [H2 H3]]]. exists x. simpl. auto.
Qed.

Lemma find_find_idx {A} (p : A -> bool) : forall l x,
  find p l = Some x -> exists i, find_idx p l = Some i /\ nth_error l i = Some x.
Proof.
  induction l as [|y l IH]; intros x H; simpl in *; [discriminate|].
  destruct (p y) eqn:E.
  - inversion H; subst. exists 0. auto.
  - destruct (IH _ H) as [i [H1 H2]]. exists (S i). rewrite H1. auto.
Qed.

Lemma find_idx_none_find {A} (p : A -> bool) : forall l, find_idx p l = None -> find p l = None.
Proof.
  induction l as [|y l IH]; simpl; intros H; [reflexivity|].
  destruct (p y); [discriminate|]. destruct (find_idx p l); [discriminate|]. apply IH. reflexivity.
Qed.

Lemma find_idx_lt {A} (p : A -> bool) : forall l i, find_idx p l = Some i -> i < length l.
Proof.
  intros l i H. destruct (find_idx_nth p l H) as [x [Hx _]].
  apply nth_error_Some. congruence.
Qed.

Lemma find_idx_app_l {A} (p : A -> bool) : forall l l' i,
  find_idx p l = Some i -> find_idx p (l ++ l') = Some i.
Proof.
  induction l as [|y l IH]; intros l' i H; simpl in *; [discriminate|].
  destruct (p y); [exact H|].
  destruct (find_idx p l) eqn:F; simpl in H; [|discriminate].
  rewrite (IH l' n eq_refl). exact H.
Qed.

Lemma find_idx_app_r {A} (p : A -> bool) : forall l x,
  (forall y, In y l -> p y = false) -> p x = true -> find_idx p (l ++ [x]) = Some (length l).
Proof.
  induction l as [|y l IH]; intros x Hl Hx; simpl.
  - rewrite Hx. reflexivity.
  - rewrite (Hl y) by (left; reflexivity). rewrite IH; auto. intros z Hz. apply Hl. right; exact Hz.
Qed.

Lemma remove_first_find_idx {A} (p : A -> bool) : forall l i,
  find_idx p l = Some i -> remove_first p l = Some (rm i l).
Proof.
  induction l as [|y l IH]; intros i H; simpl in *; [discriminate|].
  destruct (p y); [inversion H; reflexivity|].
  destruct (find_idx p l) eqn:F; simpl in H; [|discriminate]. inversion H; subst.
  rewrite (IH n eq_refl). reflexivity.
Qed.

Lemma remove_first_some {A} (p : A -> bool) : forall l l',
  remove_first p l = Some l' -> exists i, find_idx p l = Some i /\ l' = rm i l.
Proof.
  induction l as [|y l IH]; intros l' H; simpl in *; [discriminate|].
  destruct (p y); [inversion H; exists 0; auto|].
  destruct (remove_first p l) eqn:F; simpl in H; [|discriminate]. inversion H; subst.
  destruct (IH _ eq_refl) as [i [H1 H2]]. exists (S i). rewrite H1, H2. auto.
Qed.

Lemma mem_In x l : mem x l = true <-> In x l.
Proof.
  unfold mem. rewrite existsb_exists. split.
  - intros [y [H1 H2]]. apply Pos.eqb_eq in H2. subst. exact H1.
  - intros H. exists x. split; [exact H|apply Pos.eqb_refl].
Qed.

Lemma nodup_b_NoDup l : nodup_b l = true <-> NoDup l.
Proof.
  induction l as [|x l IH]; simpl.
  - split; [constructor|reflexivity].
  - rewrite andb_true_iff, negb_true_iff, IH. split.
    + intros [H1 H2]. constructor; [|exact H2]. intro Hin. apply mem_In in Hin. congruence.
    + intros H. inversion H; subst. split; [|assumption].
      destruct (mem x l) eqn:E; [apply mem_In in E; contradiction|reflexivity].
Qed.

Lemma nodup_map_filter {A B} (f : A -> B) (p : A -> bool) : forall l,
  NoDup (map f l) -> NoDup (map f (filter p l)).
Proof.
  induction l as [|x l IH]; simpl; intros H; [constructor|].
  inversion H; subst. destruct (p x); simpl; [|auto].
  constructor; [|auto]. intro Hin. apply H2.
  apply in_map_iff in Hin. destruct Hin as [y [Hy1 Hy2]]. apply filter_In in Hy2.
  apply in_map_iff. exists y. tauto.
Qed.

(* position of an element with a unique key *)
Lemma nodup_find_idx (l : list atom) : forall i a,
  NoDup (map a_id l) -> nth_error l i = Some a -> find_idx (id_is (a_id a)) l = Some i.
Proof.
  induction l as [|y l IH]; intros i a Hnd Hn; [destruct i; discriminate|].
  simpl in Hnd. inversion Hnd; subst. destruct i as [|i]; simpl in *.
  - inversion Hn; subst. unfold id_is. rewrite Pos.eqb_refl. reflexivity.
  - destruct (id_is (a_id a) y) eqn:E.
    + unfold id_is in E. apply Pos.eqb_eq in E. exfalso. apply H1. rewrite E.
      apply in_map. eapply nth_error_In; eauto.
    + rewrite (IH i a H2 Hn). reflexivity.
Qed.

Lemma NoDup_app_single {A} (l : list A) x : NoDup l -> ~ In x l -> NoDup (l ++ [x]).
Proof.
  induction l as [|y l IH]; simpl; intros H Hx.
  - constructor; [intros []|constructor].
  - inversion H; subst. constructor.
    + intro Hin. apply in_app_or in Hin. destruct Hin as [Hin|[Hin|[]]]; [contradiction|]. apply Hx. left. symmetry. exact Hin.
    + apply IH; [assumption|]. intro Hin. apply Hx. right. exact Hin.
Qed.

Lemma id_is_true x a : id_is x a = true <-> a_id a = x.
Proof. unfold id_is. apply Pos.eqb_eq. Qed.

Lemma is_member_In s x : is_member s x = true <-> In x (ids s).
Proof.
  unfold is_member, ids. rewrite existsb_exists. split.
  - intros [a [H1 H2]]. apply id_is_true in H2. subst. apply in_map. exact H1.
  - intros H. apply in_map_iff in H. destruct H as [a [H1 H2]]. exists a. split; [exact H2|apply id_is_true; exact H1].
Qed.

(* ================================================================== the invariant *)
Definition numeric (c : charge) : Prop := exists t, c = CNum t.

Definition Inv (s : st) : Prop :=
  length (coords s) = length (atoms s) /\
  (if has_q s then length (charges s) = length (atoms s) /\ Forall numeric (charges s)
   else charges s = []) /\
  NoDup (ids s) /\
  (forall a, In a (atoms s) -> a_par a = OThis /\ (a_id a < next_a s)%positive) /\
  NoDup (bids s) /\
  (forall b, In b (bonds s) ->
     b_par b = OThis /\ (b_id b < next_b s)%positive /\ In (b_a1 b) (ids s) /\ In (b_a2 b) (ids s)).

Lemma owner_eqb_eq a b : owner_eqb a b = true <-> a = b.
Proof. destruct a, b; simpl; split; intros H; try reflexivity; discriminate. Qed.

Lemma inv_b_iff s : inv_b s = true <-> Inv s.
Proof.
  unfold inv_b, Inv. repeat rewrite andb_true_iff. rewrite Nat.eqb_eq.
  rewrite !nodup_b_NoDup, !forallb_forall.
  assert (Hq : (if has_q s
                then (length (charges s) =? length (atoms s)) && forallb is_num (charges s)
                else match charges s with [] => true | _ :: _ => false end) = true
               <-> (if has_q s then length (charges s) = length (atoms s) /\ Forall numeric (charges s)
                    else charges s = [])).
  { destruct (has_q s).
    - rewrite andb_true_iff, Nat.eqb_eq, forallb_forall, Forall_forall.
      split; intros [H1 H2]; split; auto; intros c Hc; specialize (H2 c Hc).
      + destruct c; [eexists; reflexivity|discriminate].
      + destruct H2 as [t ->]. reflexivity.
    - destruct (charges s); split; intros H; try reflexivity; discriminate. }
  rewrite Hq. clear Hq.
  split.
  - intros [[[[[H1 H2] H3] H4] H5] H6]. repeat split; auto.
    + apply H4 in H. apply andb_true_iff in H. apply owner_eqb_eq. tauto.
    + apply H4 in H. apply andb_true_iff in H. apply Pos.ltb_lt. tauto.
    + apply H6 in H. repeat rewrite andb_true_iff in H. apply owner_eqb_eq. tauto.
    + apply H6 in H. repeat rewrite andb_true_iff in H. apply Pos.ltb_lt. tauto.
    + apply H6 in H. repeat rewrite andb_true_iff in H. apply mem_In. tauto.
    + apply H6 in H. repeat rewrite andb_true_iff in H. apply mem_In. tauto.
  - intros [H1 [H2 [H3 [H4 [H5 H6]]]]]. repeat split; auto.
    + intros a Ha. destruct (H4 a Ha) as [P1 P2]. rewrite P1. simpl. apply Pos.ltb_lt. exact P2.
    + intros b Hb. destruct (H6 b Hb) as [P1 [P2 [P3 P4]]]. rewrite P1. simpl.
      repeat rewrite andb_true_iff. repeat split; [apply Pos.ltb_lt; exact P2| apply mem_In; exact P3|apply mem_In; exact P4].
Qed.

(* ================================================================== rows *)
Definition row3 (y : positive) (ats : list atom) (cs : list Z) (qs : list charge) : option (Z * option charge) :=
  match find_idx (id_is y) ats with
  | None => None
  | Some i => match nth_error cs i with
              | None => None
              | Some c => Some (c, nth_error qs i)
              end
  end.

Lemma row_of_row3 s y : row_of s y = row3 y (atoms s) (coords s) (charges s).
Proof. reflexivity. Qed.

Lemma row3_cons y a ats c cs qs :
  row3 y (a :: ats) (c :: cs) qs = if id_is y a then Some (c, nth_error qs 0) else row3 y ats cs (tl qs).
Proof.
  unfold row3. simpl. destruct (id_is y a); [reflexivity|].
  destruct (find_idx (id_is y) ats); simpl; [|reflexivity].
  destruct (nth_error cs n); [|reflexivity]. destruct qs; simpl; [destruct n|]; reflexivity.
Qed.

Lemma row3_rm y : forall ats i cs qs a,
  length cs = length ats -> nth_error ats i = Some a -> a_id a <> y ->
  row3 y (rm i ats) (rm i cs) (rm i qs) = row3 y ats cs qs.
Proof.
  induction ats as [|a0 ats IH]; intros i cs qs a Hlen Hn Hne; [destruct i; discriminate|].
  destruct cs as [|c0 cs]; [discriminate|]. simpl in Hlen.
  destruct i as [|i]; simpl in Hn.
  - inversion Hn; subst. simpl. rewrite row3_cons.
    assert (E : id_is y a = false).
    { unfold id_is. apply Pos.eqb_neq. exact Hne. }
    rewrite E. destruct qs; reflexivity.
  - change (rm (S i) (a0 :: ats)) with (a0 :: rm i ats).
    change (rm (S i) (c0 :: cs)) with (c0 :: rm i cs).
    rewrite !row3_cons. destruct (id_is y a0).
    + destruct qs; reflexivity.
    + rewrite rm_tl. eapply IH; eauto.
Qed.

Lemma row3_app y ats cs qs a c qs' i :
  find_idx (id_is y) ats = Some i -> length cs = length ats -> (qs = [] \/ length qs = length ats) ->
  (qs = [] -> qs' = []) ->
  row3 y (ats ++ [a]) (cs ++ [c]) (qs ++ qs') = row3 y ats cs qs.
Proof.
  intros Hf Hc Hq Hq'. unfold row3. rewrite (find_idx_app_l _ _ [a] Hf), Hf.
  pose proof (find_idx_lt _ _ Hf) as Hlt.
  rewrite nth_error_app1 by lia.
  destruct (nth_error cs i); [|reflexivity].
  destruct Hq as [Hq|Hq].
  - subst. rewrite (Hq' eq_refl). reflexivity.
  - rewrite nth_error_app1 by lia. reflexivity.
Qed.

(* ================================================================== the two primitive effects *)
(* the atom at position i (named x) is gone, with its row, its charge and its bonds *)
Definition deleted (s : st) (i : nat) (x : positive) : st :=
  mkSt (has_q s) (rm i (atoms s)) (rm i (coords s)) (rm i (charges s))
       (filter (fun b => negb (incident x b)) (bonds s)) (next_a s) (next_b s).

(* a new atom, named next_a s, with row c (and charge q for a Molecule) *)
Definition added (s : st) (e : N) (l : option N) (c : Z) (q : Z) : st :=
  mkSt (has_q s) (atoms s ++ [mkAtom (next_a s) e l OThis]) (coords s ++ [c])
       (if has_q s then charges s ++ [CNum q] else charges s) (bonds s) (Pos.succ (next_a s)) (next_b s).

(* the frame relation: names only grow, atoms only disappear or are new, and every atom present
   before and after has the same coordinate row and the same charge *)
Definition Keeps (s s' : st) : Prop :=
  has_q s' = has_q s /\
  (next_a s <= next_a s')%positive /\ (next_b s <= next_b s')%positive /\
  (forall y, In y (ids s') -> In y (ids s) \/ (next_a s <= y)%positive) /\
  (forall y, In y (ids s) -> In y (ids s') -> row_of s' y = row_of s y).

Lemma Keeps_refl s : Keeps s s.
Proof. unfold Keeps. repeat split; try reflexivity; auto. Qed.

Lemma Keeps_trans s1 s2 s3 : Inv s1 -> Keeps s1 s2 -> Keeps s2 s3 -> Keeps s1 s3.
Proof.
  intros HI [A1 [A2 [A3 [A4 A5]]]] [B1 [B2 [B3 [B4 B5]]]].
  assert (Hlt : forall y, In y (ids s1) -> (y < next_a s1)%positive).
  { intros y Hy. unfold ids in Hy. apply in_map_iff in Hy. destruct Hy as [a [<- Ha]].
    destruct HI as [_ [_ [_ [H4 _]]]]. apply H4. exact Ha. }
  unfold Keeps. repeat split.
  - congruence.
  - lia.
  - lia.
  - intros y Hy. destruct (B4 y Hy) as [H|H]; [destruct (A4 y H); auto|right; lia].
  - intros y H1 H3. destruct (B4 y H3) as [H|H].
    + rewrite B5 by assumption. apply A5; assumption.
    + specialize (Hlt y H1). lia.
Qed.

Lemma ids_lt s : Inv s -> forall y, In y (ids s) -> (y < next_a s)%positive.
Proof.
  intros HI y Hy. unfold ids in Hy. apply in_map_iff in Hy. destruct Hy as [a [<- Ha]].
  destruct HI as [_ [_ [_ [H4 _]]]]. apply H4. exact Ha.
Qed.

Lemma Inv_deleted s i a : Inv s -> nth_error (atoms s) i = Some a -> Inv (deleted s i (a_id a)).
Proof.
  intros [H1 [H2 [H3 [H4 [H5 H6]]]]] Hn. unfold Inv, deleted, ids, bids in *. simpl.
  repeat split.
  - apply rm_length_eq. exact H1.
  - destruct (has_q s).
    + destruct H2 as [H2 H2']. split; [apply rm_length_eq; exact H2|].
      rewrite Forall_forall in *. intros c Hc. apply H2'. eapply rm_in; eauto.
    + rewrite H2. destruct i; reflexivity.
  - rewrite rm_map. apply rm_nodup. exact H3.
  - apply H4. eapply rm_in; eauto.
  - apply H4. eapply rm_in; eauto.
  - apply nodup_map_filter. exact H5.
  - apply filter_In in H. apply H6. tauto.
  - apply filter_In in H. apply H6. tauto.
  - apply filter_In in H. destruct H as [Hb Hinc]. rewrite rm_map.
    apply rm_keeps with (x := a_id a).
    + rewrite nth_error_map, Hn. reflexivity.
    + apply H6. exact Hb.
    + unfold incident in Hinc. apply negb_true_iff, orb_false_iff in Hinc. destruct Hinc as [E _].
      apply Pos.eqb_neq in E. exact E.
  - apply filter_In in H. destruct H as [Hb Hinc]. rewrite rm_map.
    apply rm_keeps with (x := a_id a).
    + rewrite nth_error_map, Hn. reflexivity.
    + apply H6. exact Hb.
    + unfold incident in Hinc. apply negb_true_iff, orb_false_iff in Hinc. destruct Hinc as [_ E].
      apply Pos.eqb_neq in E. exact E.
Qed.

Lemma Keeps_deleted s i a : Inv s -> nth_error (atoms s) i = Some a -> Keeps s (deleted s i (a_id a)).
Proof.
  intros HI Hn. pose proof HI as [H1 [H2 [H3 _]]].
  unfold Keeps. repeat split; try reflexivity.
  - intros y Hy. left. unfold deleted, ids in *. simpl in Hy. rewrite rm_map in Hy. eapply rm_in; eauto.
  - intros y Hy Hy'. rewrite !row_of_row3. unfold deleted. simpl.
    apply row3_rm with (a := a); auto.
    intro E. unfold deleted, ids in Hy'. simpl in Hy'. rewrite rm_map in Hy'.
    apply (@rm_removed _ i (map a_id (atoms s)) (a_id a) H3).
    + rewrite nth_error_map, Hn. reflexivity.
    + rewrite E. exact Hy'.
Qed.

Lemma Inv_added s e l c q : Inv s -> Inv (added s e l c q).
Proof.
  intros [H1 [H2 [H3 [H4 [H5 H6]]]]]. unfold Inv, added, ids, bids in *. simpl.
  repeat split.
  - rewrite !app_length. simpl. lia.
  - destruct (has_q s).
    + destruct H2 as [H2 H2']. split; [rewrite !app_length; simpl; lia|].
      apply Forall_app. split; [exact H2'|]. constructor; [eexists; reflexivity|constructor].
    + exact H2.
  - rewrite map_app. simpl. apply NoDup_app_single; [exact H3|].
    intro Hin. apply in_map_iff in Hin. destruct Hin as [a [E Ha]]. destruct (H4 a Ha) as [_ Hlt]. lia.
  - apply in_app_or in H. destruct H as [H|[<-|[]]]; [apply H4; exact H|reflexivity].
  - apply in_app_or in H. destruct H as [H|[<-|[]]]; [destruct (H4 a H); lia|simpl; lia].
  - exact H5.
  - apply H6. exact H.
  - apply H6. exact H.
  - rewrite map_app. apply in_or_app. left. apply H6. exact H.
  - rewrite map_app. apply in_or_app. left. apply H6. exact H.
Qed.

Lemma in_ids_find_idx s y : In y (ids s) -> exists i, find_idx (id_is y) (atoms s) = Some i.
Proof.
  unfold ids. induction (atoms s) as [|a l IH]; simpl; intros H; [destruct H|].
  destruct (id_is y a) eqn:E; [eexists; reflexivity|].
  destruct H as [H|H]; [apply id_is_true in H; congruence|].
  destruct (IH H) as [i Hi]. rewrite Hi. eexists; reflexivity.
Qed.

Lemma Keeps_added s e l c q : Inv s -> Keeps s (added s e l c q).
Proof.
  intros HI. pose proof HI as [H1 [H2 [H3 [H4 _]]]].
  unfold Keeps. repeat split; simpl; try reflexivity; try lia.
  - intros y Hy. unfold added, ids in Hy. simpl in Hy. rewrite map_app in Hy.
    apply in_app_or in Hy. destruct Hy as [Hy|[Hy|[]]]; [left; exact Hy|right; simpl in Hy; lia].
  - intros y Hy _. destruct (in_ids_find_idx s y Hy) as [i Hi].
    rewrite !row_of_row3. unfold added. simpl. destruct (has_q s).
    + destruct H2 as [H2 _]. apply row3_app with (i := i); auto. intros E. rewrite E in H2.
      pose proof (find_idx_lt _ _ Hi). simpl in H2. lia.
    + rewrite <- (app_nil_r (charges s)) at 1. apply row3_app with (i := i); auto.
Qed.

Lemma added_row s e l c q : Inv s ->
  row_of (added s e l c q) (next_a s) = Some (c, if has_q s then Some (CNum q) else None).
Proof.
  intros [H1 [H2 [H3 [H4 _]]]]. unfold row_of, added. simpl.
  rewrite find_idx_app_r.
  - rewrite nth_error_app2 by lia. rewrite H1, Nat.sub_diag. simpl.
    destruct (has_q s).
    + destruct H2 as [H2 _]. rewrite nth_error_app2 by lia. rewrite H2, Nat.sub_diag. reflexivity.
    + rewrite H2. destruct (length (atoms s)); reflexivity.
  - intros a Ha. destruct (H4 a Ha) as [_ Hlt]. unfold id_is. apply Pos.eqb_neq. lia.
  - unfold id_is. simpl. apply Pos.eqb_refl.
Qed.

(* ================================================================== specifications of the layered operations *)
Lemma add_atom_spec s e l c q :
  add_atom s e l c q = match c with
                       | None => Err s
                       | Some c' => Ok (added s e l c' (match q with Some t => t | None => 0%Z end))
                       end.
Proof.
  unfold add_atom, mol_add_atom, geom_add_atom, added. destruct (has_q s) eqn:E; destruct c; simpl; reflexivity.
Qed.

Lemma get_atom_in s sl a : get_atom s sl = Some a -> exists i, nth_error (atoms s) i = Some a.
Proof.
  destruct sl as [ox|iz|lb|el]; simpl; intros H.
  - apply find_find_idx in H. destruct H as [i [_ H]]. eauto.
  - destruct (py_index (length (atoms s)) iz); [eauto|discriminate].
  - apply find_find_idx in H. destruct H as [i [_ H]]. eauto.
  - apply find_find_idx in H. destruct H as [i [_ H]]. eauto.
Qed.

Lemma get_atom_index_agrees s sl i a :
  get_atom_index s sl = Some i -> get_atom s sl = Some a -> nth_error (atoms s) i = Some a.
Proof.
  destruct sl as [ox|iz|lb|el]; simpl; intros Hi Ha.
  - apply find_idx_nth in Hi. destruct Hi as [x0 [H1 [_ H3]]]. congruence.
  - destruct ((0 <=? iz)%Z && (iz <? Z.of_nat (length (atoms s)))%Z) eqn:E; [|discriminate].
    apply andb_true_iff in E. destruct E as [E1 E2]. inversion Hi; subst.
    unfold py_index in Ha. rewrite E1, E2 in Ha. exact Ha.
  - apply find_idx_nth in Hi. destruct Hi as [x0 [H1 [_ H3]]]. congruence.
  - apply find_idx_nth in Hi. destruct Hi as [x0 [H1 [_ H3]]]. congruence.
Qed.

Lemma same_ends_incident x b y :
  same_ends (b_a1 b) (b_a2 b) y = true -> incident x b = true -> incident x y = true.
Proof.
  unfold same_ends, incident. rewrite !orb_true_iff, !andb_true_iff, !Pos.eqb_eq.
  intros [[A B]|[A B]] [C|C]; subst; auto; rewrite <- ?A, <- ?B; auto.
Qed.

Lemma same_ends_refl b : same_ends (b_a1 b) (b_a2 b) b = true.
Proof. unfold same_ends. rewrite !Pos.eqb_refl. reflexivity. Qed.

Lemma remove_first_mid {A} (p : A -> bool) : forall pre b cur,
  (forall y, In y pre -> p y = false) -> p b = true -> remove_first p (pre ++ b :: cur) = Some (pre ++ cur).
Proof.
  induction pre as [|z pre IH]; intros b cur Hpre Hb; simpl.
  - rewrite Hb. reflexivity.
  - rewrite (Hpre z) by (left; reflexivity). rewrite IH; auto. intros y Hy. apply Hpre. right. exact Hy.
Qed.

Lemma fold_bind_stuck {X} (G : st -> X -> res) : forall l r,
  (forall s, r <> Ok s) -> fold_left (fun r x => bind r (fun s' => G s' x)) l r = r.
Proof.
  induction l as [|x l IH]; intros r Hr; simpl; [reflexivity|].
  destruct r; try (apply IH; intros s0; discriminate). exfalso. eapply Hr. reflexivity.
Qed.

Lemma del_bonds_loop_gen x : forall cur pre s0,
  (forall b, In b pre -> incident x b = false) -> bonds s0 = pre ++ cur ->
  del_bonds_loop (filter (incident x) cur) s0
  = Ok (set_bonds s0 (pre ++ filter (fun b => negb (incident x b)) cur)).
Proof.
  induction cur as [|b cur IH]; intros pre s0 Hpre Hb; simpl.
  - unfold del_bonds_loop. simpl. rewrite <- Hb. destruct s0; reflexivity.
  - destruct (incident x b) eqn:E; simpl.
    + unfold del_bonds_loop. simpl. unfold conn_del_bond at 2. rewrite Hb.
      rewrite remove_first_mid.
      * change (fold_left _ (filter (incident x) cur) (Ok ?s)) with (del_bonds_loop (filter (incident x) cur) s).
        rewrite (IH pre); [reflexivity|exact Hpre|reflexivity].
      * intros y Hy. destruct (same_ends (b_a1 b) (b_a2 b) y) eqn:F; [|reflexivity].
        pose proof (same_ends_incident x b y F E) as G. rewrite (Hpre y Hy) in G. discriminate.
      * apply same_ends_refl.
    + rewrite (IH (pre ++ [b])).
      * rewrite <- app_assoc. reflexivity.
      * intros y Hy. apply in_app_or in Hy. destruct Hy as [Hy|[<-|[]]]; [apply Hpre; exact Hy|exact E].
      * rewrite <- app_assoc. exact Hb.
Qed.

Lemma del_bonds_loop_spec s x :
  del_bonds_loop (filter (incident x) (bonds s)) s
  = Ok (set_bonds s (filter (fun b => negb (incident x b)) (bonds s))).
Proof. apply (del_bonds_loop_gen x (bonds s) [] s); [intros b []|reflexivity]. Qed.

(* deletion through the geometry layer, by object: everything but the charge row *)
Definition gdeleted (s : st) (j : nat) (x : positive) : st :=
  mkSt (has_q s) (rm j (atoms s)) (rm j (coords s)) (charges s)
       (filter (fun b => negb (incident x b)) (bonds s)) (next_a s) (next_b s).

Lemma geom_del_obj s j a :
  NoDup (ids s) -> length (coords s) = length (atoms s) -> nth_error (atoms s) j = Some a ->
  geom_del_atom s (ByObj (a_id a)) = Ok (gdeleted s j (a_id a)).
Proof.
  intros Hnd Hlen Hn.
  pose proof (nodup_find_idx (atoms s) j Hnd Hn) as Hf.
  assert (Hfind : find (id_is (a_id a)) (atoms s) = Some a).
  { destruct (find_idx_nth _ _ Hf) as [x0 [H1 [_ H3]]]. congruence. }
  unfold geom_del_atom. simpl get_atom_index. rewrite Hf.
  assert (Hj : j < length (coords s)).
  { rewrite Hlen. apply nth_error_Some. congruence. }
  rewrite (del_nth_rm _ Hj).
  unfold conn_del_atom. simpl get_atom. rewrite Hfind.
  change (bonds (set_coords s (rm j (coords s)))) with (bonds s).
  pose proof (del_bonds_loop_spec (set_coords s (rm j (coords s))) (a_id a)) as Hl.
  change (bonds (set_coords s (rm j (coords s)))) with (bonds s) in Hl. rewrite Hl. simpl bind.
  unfold pm_del_atom. simpl get_atom. rewrite Hfind.
  simpl atoms. rewrite (remove_first_find_idx _ _ Hf). reflexivity.
Qed.

Lemma del_atom_spec s sl : Inv s ->
  match del_atom s sl with
  | Ok s' => exists a i, get_atom s sl = Some a /\ nth_error (atoms s) i = Some a /\ s' = deleted s i (a_id a)
  | Err s' => s' = s
  | _ => False
  end.
Proof.
  intros [H1 [H2 [H3 _]]]. unfold del_atom. destruct (has_q s) eqn:Eq.
  - unfold mol_del_atom. destruct (get_atom_index s sl) as [i|] eqn:Ei; [|reflexivity].
    unfold struct_del_atom. destruct (get_atom s sl) as [a|] eqn:Ea; [|reflexivity].
    pose proof (get_atom_index_agrees s sl Ei Ea) as Hn.
    rewrite (geom_del_obj s i H3 H1 Hn). simpl bind.
    destruct H2 as [H2 _].
    assert (Hi : i < length (charges s)). { rewrite H2. apply nth_error_Some. congruence. }
    simpl charges. rewrite (del_nth_rm _ Hi).
    exists a, i. split; [reflexivity|split; [exact Hn|reflexivity]].
  - unfold struct_del_atom. destruct (get_atom s sl) as [a|] eqn:Ea; [|reflexivity].
    destruct (get_atom_in s sl Ea) as [i Hn].
    rewrite (geom_del_obj s i H3 H1 Hn).
    exists a, i. split; [reflexivity|split; [exact Hn|]]. unfold deleted, gdeleted. rewrite H2.
    replace (rm i (@nil charge)) with (@nil charge) by (destruct i; reflexivity). reflexivity.
Qed.

(* ================================================================== every operation keeps the invariant and the rows *)
Unset Implicit Arguments.

Definition good (s : st) (r : res) : Prop :=
  match r with
  | Ok s' | Err s' => Inv s' /\ Keeps s s'
  | _ => True
  end.

Lemma good_refl_err s : Inv s -> good s (Err s).
Proof. intros H. split; [exact H|apply Keeps_refl]. Qed.

Lemma good_bind s r f : Inv s -> good s r ->
  (forall s1, Inv s1 -> Keeps s s1 -> good s1 (f s1)) -> good s (bind r f).
Proof.
  intros HI Hr Hf. destruct r; simpl in *; auto.
  destruct Hr as [H1 H2]. specialize (Hf s0 H1 H2).
  destruct (f s0); simpl in *; auto; destruct Hf as [F1 F2]; split; auto; eapply Keeps_trans; eauto.
Qed.

Lemma good_fold {X} (G : st -> X -> res) :
  (forall s x, Inv s -> good s (G s x)) ->
  forall l s, Inv s -> good s (fold_left (fun r x => bind r (fun s' => G s' x)) l (Ok s)).
Proof.
  intros HG. induction l as [|x l IH]; intros s HI; simpl.
  - split; [exact HI|apply Keeps_refl].
  - pose proof (HG s x HI) as Hx. destruct (G s x) eqn:E.
    + destruct Hx as [H1 H2]. specialize (IH s0 H1).
      destruct (fold_left _ l (Ok s0)); simpl in *; auto; destruct IH as [F1 F2]; split; auto;
        eapply Keeps_trans; eauto.
    + rewrite fold_bind_stuck by (intros; discriminate). exact Hx.
    + rewrite fold_bind_stuck by (intros; discriminate). exact I.
    + rewrite fold_bind_stuck by (intros; discriminate). exact I.
Qed.

Lemma Keeps_same_rows s s' :
  has_q s' = has_q s -> atoms s' = atoms s -> coords s' = coords s -> charges s' = charges s ->
  (next_a s <= next_a s')%positive -> (next_b s <= next_b s')%positive -> Keeps s s'.
Proof.
  intros A B C D E F. unfold Keeps, ids, row_of. rewrite B, C, D. repeat split; auto.
Qed.

Lemma good_add_atom s e l c q : Inv s -> good s (add_atom s e l c q).
Proof.
  intros HI. rewrite add_atom_spec. destruct c.
  - split; [apply Inv_added; exact HI|apply Keeps_added; exact HI].
  - apply good_refl_err. exact HI.
Qed.

Lemma good_del_atom s sl : Inv s -> good s (del_atom s sl).
Proof.
  intros HI. pose proof (@del_atom_spec s sl HI) as H. destruct (del_atom s sl); simpl; auto.
  - destruct H as [a [i [_ [Hn ->]]]]. split; [apply Inv_deleted|apply Keeps_deleted]; assumption.
  - subst. split; [exact HI|apply Keeps_refl].
Qed.

Lemma good_append_bond s x y : Inv s -> good s (conn_append_bond s x y).
Proof.
  intros HI. unfold conn_append_bond.
  destruct (is_member s x && is_member s y) eqn:E; [|exact I].
  apply andb_true_iff in E. destruct E as [Ex Ey]. apply is_member_In in Ex. apply is_member_In in Ey.
  destruct HI as [H1 [H2 [H3 [H4 [H5 H6]]]]].
  split.
  - unfold Inv, ids, bids in *. simpl. repeat split; auto.
    + apply H4; assumption.
    + apply H4; assumption.
    + rewrite map_app. simpl. apply NoDup_app_single; [exact H5|].
      intro Hin. apply in_map_iff in Hin. destruct Hin as [b [Eb Hb]].
      destruct (H6 b Hb) as [_ [Hlt _]]. lia.
    + apply in_app_or in H. destruct H as [H|[<-|[]]]; [apply H6; exact H|reflexivity].
    + apply in_app_or in H. destruct H as [H|[<-|[]]]; [destruct (H6 b H) as [_ [Hlt _]]; lia|simpl; lia].
    + apply in_app_or in H. destruct H as [H|[<-|[]]]; [apply H6; exact H|exact Ex].
    + apply in_app_or in H. destruct H as [H|[<-|[]]]; [apply H6; exact H|exact Ey].
  - apply Keeps_same_rows; simpl; try reflexivity; lia.
Qed.

Lemma good_connect s s1 s2 : Inv s -> good s (conn_connect s s1 s2).
Proof.
  intros HI. unfold conn_connect.
  destruct (get_atom s s1); [|apply good_refl_err; exact HI].
  destruct (get_atom s s2); [|apply good_refl_err; exact HI].
  apply good_append_bond. exact HI.
Qed.

Lemma good_del_bond s x y : Inv s -> good s (conn_del_bond s x y).
Proof.
  intros HI. unfold conn_del_bond.
  destruct (remove_first (same_ends x y) (bonds s)) as [l'|] eqn:E; [|apply good_refl_err; exact HI].
  apply remove_first_some in E. destruct E as [i [_ ->]].
  destruct HI as [H1 [H2 [H3 [H4 [H5 H6]]]]].
  split.
  - unfold Inv, ids, bids in *. simpl. repeat split; auto.
    + apply H4; assumption.
    + apply H4; assumption.
    + rewrite rm_map. apply rm_nodup. exact H5.
    + apply rm_in in H. apply H6. exact H.
    + apply rm_in in H. apply H6. exact H.
    + apply rm_in in H. apply H6. exact H.
    + apply rm_in in H. apply H6. exact H.
  - apply Keeps_same_rows; simpl; try reflexivity; lia.
Qed.

Lemma good_append_bonds s l : Inv s -> good s (append_bonds s l).
Proof.
  intros HI. unfold append_bonds.
  apply (good_fold (fun s' p => conn_append_bond s' (fst p) (snd p))); [|exact HI].
  intros s0 p H0. apply good_append_bond. exact H0.
Qed.

Lemma good_remove_substituent s s1 s2 l : Inv s -> good s (remove_substituent s s1 s2 l).
Proof.
  intros HI. unfold remove_substituent.
  destruct (get_atom s s1) as [a1|]; [|apply good_refl_err; exact HI].
  destruct (get_atom s s2) as [a2|]; [|apply good_refl_err; exact HI].
  destruct (get_atom_index s (ByObj (a_id a2))) as [i2|]; [|apply good_refl_err; exact HI].
  destruct (nth_error (coords s) i2) as [c2|]; [|apply good_refl_err; exact HI].
  destruct (mem (a_id a2) (neighbours s (a_id a1))); [|apply good_refl_err; exact HI].
  destruct (bfs_loop (bfs_fuel s) s [a_id a2; a_id a1] [a_id a2] [a_id a2]) as [out|]; [|exact I].
  apply good_bind; [exact HI| |].
  - apply (good_fold (fun s' x => del_atom s' (ByObj x))); [intros; apply good_del_atom; assumption|exact HI].
  - intros sa Ha _. apply good_bind; [exact Ha|apply good_add_atom; exact Ha|].
    intros sb Hb _. apply good_connect. exact Hb.
Qed.

Lemma good_add_hs_one s x cs : Inv s -> good s (add_hs_one s x cs).
Proof.
  intros HI. unfold add_hs_one. destruct (is_member s x); [|apply good_refl_err; exact HI].
  apply (good_fold (fun s' c => bind (add_atom s' el_H None (Some c) None)
                                     (fun s'' => conn_append_bond s'' x (next_a s')))); [|exact HI].
  intros s0 c H0. apply good_bind; [exact H0|apply good_add_atom; exact H0|].
  intros s1 H1 _. apply good_append_bond. exact H1.
Qed.

Lemma good_add_hs s l : Inv s -> good s (add_hs s l).
Proof.
  intros HI. unfold add_hs.
  apply (good_fold (fun s' p => add_hs_one s' (fst p) (snd p))); [|exact HI].
  intros s0 p H0. apply good_add_hs_one. exact H0.
Qed.

Theorem step_good s o : Inv s -> good s (step s o).
Proof.
  intros HI. destruct o; simpl.
  - apply good_add_atom; exact HI.
  - apply good_add_atom; exact HI.
  - apply good_del_atom; exact HI.
  - apply good_connect; exact HI.
  - apply good_append_bond; exact HI.
  - apply good_append_bonds; exact HI.
  - apply good_del_bond; exact HI.
  - apply good_remove_substituent; exact HI.
  - apply good_add_hs; exact HI.
Qed.

Theorem run_good : forall h s s', Inv s -> run s h = Some s' -> Inv s' /\ Keeps s s'.
Proof.
  induction h as [|o h IH]; intros s s' HI H; simpl in H.
  - inversion H; subst. split; [exact HI|apply Keeps_refl].
  - pose proof (step_good s o HI) as Hg.
    destruct (step s o); try discriminate; destruct Hg as [G1 G2];
      destruct (IH _ _ G1 H) as [F1 F2]; (split; [exact F1|eapply Keeps_trans; eauto]).
Qed.

(* ================================================================== deleting an atom removes exactly its bonds *)
Theorem del_atom_exact s sl s' : Inv s -> del_atom s sl = Ok s' ->
  exists a, get_atom s sl = Some a /\ In a (atoms s) /\
    bonds s' = filter (fun b => negb (incident (a_id a) b)) (bonds s) /\
    (forall y, In y (ids s') <-> In y (ids s) /\ y <> a_id a) /\
    S (length (atoms s')) = length (atoms s).
Proof.
  intros HI H. pose proof (@del_atom_spec s sl HI) as Hs. rewrite H in Hs.
  destruct Hs as [a [i [Ha [Hn ->]]]]. exists a. split; [exact Ha|].
  split; [eapply nth_error_In; eauto|]. split; [reflexivity|].
  destruct HI as [_ [_ [H3 _]]]. unfold deleted, ids in *. simpl.
  assert (Hni : nth_error (map a_id (atoms s)) i = Some (a_id a)) by (rewrite nth_error_map, Hn; reflexivity).
  split.
  - intros y. rewrite rm_map. split.
    + intros Hy. split; [eapply rm_in; eauto|]. intro E. subst.
      exact (@rm_removed _ i (map a_id (atoms s)) (a_id a) H3 Hni Hy).
    + intros [Hy Hne]. eapply rm_keeps; eauto.
  - clear - Hn. revert i Hn. induction (atoms s) as [|z l IH]; intros [|i] Hn; simpl in *; try discriminate; auto.
Qed.

(* ================================================================== a failed operation changes nothing *)
Definition atomic (o : op) : bool :=
  match o with RemoveSubst _ _ _ | AddHs _ => false | _ => true end.

Lemma fold_no_err {X} (G : st -> X -> res) :
  (forall s x s', G s x <> Err s') ->
  forall l s s', fold_left (fun r x => bind r (fun s0 => G s0 x)) l (Ok s) <> Err s'.
Proof.
  intros HG. induction l as [|x l IH]; intros s s'; simpl; [discriminate|].
  destruct (G s x) eqn:E.
  - apply IH.
  - exfalso. eapply HG; eauto.
  - rewrite fold_bind_stuck by (intros; discriminate). discriminate.
  - rewrite fold_bind_stuck by (intros; discriminate). discriminate.
Qed.

Lemma append_bond_no_err s x y s' : conn_append_bond s x y <> Err s'.
Proof. unfold conn_append_bond. destruct (is_member s x && is_member s y); discriminate. Qed.

Theorem err_unchanged s o s' : Inv s -> atomic o = true -> step s o = Err s' -> s' = s.
Proof.
  intros HI Ha H. destruct o; simpl in *; try discriminate.
  - rewrite add_atom_spec in H. destruct c; congruence.
  - rewrite add_atom_spec in H. discriminate.
  - pose proof (@del_atom_spec s sl HI) as Hs. rewrite H in Hs. exact Hs.
  - unfold conn_connect in H. destruct (get_atom s s1); [|congruence].
    destruct (get_atom s s2); [|congruence]. exfalso. eapply append_bond_no_err; eauto.
  - exfalso. eapply append_bond_no_err; eauto.
  - exfalso. unfold append_bonds in H.
    eapply (fold_no_err (fun s0 p => conn_append_bond s0 (fst p) (snd p))); [|exact H].
    intros. apply append_bond_no_err.
  - unfold conn_del_bond in H. destruct (remove_first (same_ends x y) (bonds s)); congruence.
Qed.

(* ================================================================== what a new atom is given *)
Theorem add_atom_row s e l c q : Inv s ->
  exists s', step s (AddAtom e l (Some c) q) = Ok s' /\
    ids s' = ids s ++ [next_a s] /\
    row_of s' (next_a s) = Some (c, if has_q s then Some (CNum (match q with Some t => t | None => 0%Z end)) else None).
Proof.
  intros HI. simpl. rewrite add_atom_spec. eexists. split; [reflexivity|]. split.
  - unfold added, ids. simpl. rewrite map_app. reflexivity.
  - apply added_row. exact HI.
Qed.

(* the row an atom shows is the row at its index *)
Theorem idx_correct s i a : Inv s -> nth_error (atoms s) i = Some a ->
  idx_of s (a_id a) = Z.of_nat i /\
  get_atom_index s (ByObj (a_id a)) = Some i /\
  exists c, nth_error (coords s) i = Some c /\ row_of s (a_id a) = Some (c, nth_error (charges s) i).
Proof.
  intros [H1 [_ [H3 _]]] Hn. pose proof (@nodup_find_idx (atoms s) i a H3 Hn) as Hf.
  unfold idx_of, row_of. simpl. rewrite Hf. split; [reflexivity|]. split; [reflexivity|].
  destruct (nth_error (coords s) i) as [c|] eqn:E.
  - exists c. auto.
  - apply nth_error_None in E. assert (i < length (atoms s)) by (apply nth_error_Some; congruence). lia.
Qed.

(* ================================================================== initial states *)
Lemma Inv_empty q : Inv (empty q).
Proof. apply inv_b_iff. destruct q; reflexivity. Qed.

Lemma pos_add_nat_succ p n : pos_add_nat (Pos.succ p) n = Pos.succ (pos_add_nat p n).
Proof. induction n; simpl; [reflexivity|rewrite IHn; reflexivity]. Qed.

Lemma pos_add_nat_le p n : (p <= pos_add_nat p n)%positive.
Proof. induction n; simpl; lia. Qed.

Lemma load_atoms_spec : forall rows n a, In a (load_atoms n rows) ->
  a_par a = OThis /\ (n <= a_id a)%positive /\ (a_id a < pos_add_nat n (length rows))%positive.
Proof.
  induction rows as [|[[[e l] c] q] rows IH]; intros n a H; simpl in H; [destruct H|].
  destruct H as [<-|H]; simpl.
  - split; [reflexivity|]. pose proof (pos_add_nat_le n (length rows)). lia.
  - destruct (IH _ _ H) as [A [B C]]. rewrite pos_add_nat_succ in C. split; [exact A|]. lia.
Qed.

Lemma load_atoms_nodup : forall rows n, NoDup (map a_id (load_atoms n rows)).
Proof.
  induction rows as [|[[[e l] c] q] rows IH]; intros n; simpl; [constructor|].
  constructor; [|apply IH]. intro Hin. apply in_map_iff in Hin. destruct Hin as [a [E Ha]].
  destruct (load_atoms_spec _ _ _ Ha) as [_ [B _]]. lia.
Qed.

Lemma load_atoms_mem : forall rows n x, (n <= x)%positive -> (x < pos_add_nat n (length rows))%positive ->
  In x (map a_id (load_atoms n rows)).
Proof.
  induction rows as [|[[[e l] c] q] rows IH]; intros n x H1 H2; simpl in *; [lia|].
  destruct (Pos.eq_dec n x) as [->|Hne]; [left; reflexivity|right].
  apply IH; [lia|]. rewrite pos_add_nat_succ. exact H2.
Qed.

Lemma load_atoms_length : forall rows n, length (load_atoms n rows) = length rows.
Proof. induction rows as [|[[[e l] c] q] rows IH]; intros n; simpl; [reflexivity|rewrite IH; reflexivity]. Qed.

Lemma load_bonds_spec : forall bs n b, In b (load_bonds n bs) ->
  b_par b = OThis /\ (n <= b_id b)%positive /\ (b_id b < pos_add_nat n (length bs))%positive /\ In (b_a1 b, b_a2 b) bs.
Proof.
  induction bs as [|[x y] bs IH]; intros n b H; simpl in H; [destruct H|].
  destruct H as [<-|H]; simpl.
  - split; [reflexivity|]. pose proof (pos_add_nat_le n (length bs)). repeat split; try lia. left; reflexivity.
  - destruct (IH _ _ H) as [A [B [C D]]]. rewrite pos_add_nat_succ in C. repeat split; auto; lia.
Qed.

Lemma load_bonds_nodup : forall bs n, NoDup (map b_id (load_bonds n bs)).
Proof.
  induction bs as [|[x y] bs IH]; intros n; simpl; [constructor|].
  constructor; [|apply IH]. intro Hin. apply in_map_iff in Hin. destruct Hin as [b [E Hb]].
  destruct (load_bonds_spec _ _ _ Hb) as [_ [B _]]. lia.
Qed.

(* a file-loaded molecule: every bond must name two of the atoms read (positions 1..n) *)
Theorem Inv_load q rows bs :
  (forall x y, In (x, y) bs -> (x < pos_add_nat 1 (length rows))%positive /\ (y < pos_add_nat 1 (length rows))%positive) ->
  Inv (load q rows bs).
Proof.
  intros Hb. unfold Inv, load, ids, bids. simpl. repeat split.
  - rewrite map_length, load_atoms_length. reflexivity.
  - destruct q.
    + split; [rewrite map_length, load_atoms_length; reflexivity|].
      apply Forall_forall. intros c Hc. apply in_map_iff in Hc. destruct Hc as [r [<- _]]. eexists; reflexivity.
    + reflexivity.
  - apply load_atoms_nodup.
  - apply (load_atoms_spec _ _ _ H).
  - apply (load_atoms_spec _ _ _ H).
  - apply load_bonds_nodup.
  - apply (load_bonds_spec _ _ _ H).
  - apply (load_bonds_spec _ _ _ H).
  - destruct (load_bonds_spec _ _ _ H) as [_ [_ [_ D]]]. apply load_atoms_mem; [lia|apply (Hb _ _ D)].
  - destruct (load_bonds_spec _ _ _ H) as [_ [_ [_ D]]]. apply load_atoms_mem; [lia|apply (Hb _ _ D)].
Qed.

(* a clone: new objects, same order, same rows *)
Lemma NoDup_map_add k (l : list positive) : NoDup l -> NoDup (map (fun x => (x + k)%positive) l).
Proof.
  induction l as [|x l IH]; simpl; intros H; [constructor|]. inversion H; subst.
  constructor; [|apply IH; assumption]. intro Hin. apply in_map_iff in Hin. destruct Hin as [y [E Hy]].
  assert (y = x) by lia. subst. contradiction.
Qed.

Theorem Inv_clone k s : Inv s -> Inv (clone k s).
Proof.
  intros [H1 [H2 [H3 [H4 [H5 H6]]]]]. unfold Inv, clone, ids, bids in *. simpl. repeat split.
  - rewrite map_length. exact H1.
  - destruct (has_q s); [rewrite map_length; exact H2|exact H2].
  - rewrite map_map. simpl. rewrite <- (map_map a_id (fun x => (x + k)%positive)). apply NoDup_map_add. exact H3.
  - apply in_map_iff in H. destruct H as [a0 [<- _]]. reflexivity.
  - apply in_map_iff in H. destruct H as [a0 [<- Ha]]. simpl. destruct (H4 a0 Ha). lia.
  - rewrite map_map. simpl. rewrite <- (map_map b_id (fun x => (x + k)%positive)). apply NoDup_map_add. exact H5.
  - apply in_map_iff in H. destruct H as [b0 [<- _]]. reflexivity.
  - apply in_map_iff in H. destruct H as [b0 [<- Hb]]. simpl. destruct (H6 b0 Hb) as [_ [? _]]. lia.
  - apply in_map_iff in H. destruct H as [b0 [<- Hb]]. simpl. destruct (H6 b0 Hb) as [_ [_ [? _]]].
    rewrite map_map. simpl. rewrite <- (map_map a_id (fun x => (x + k)%positive)). apply (in_map (fun x => (x + k)%positive)). assumption.
  - apply in_map_iff in H. destruct H as [b0 [<- Hb]]. simpl. destruct (H6 b0 Hb) as [_ [_ [_ ?]]].
    rewrite map_map. simpl. rewrite <- (map_map a_id (fun x => (x + k)%positive)). apply (in_map (fun x => (x + k)%positive)). assumption.
Qed.

Theorem clone_row k s y : row_of (clone k s) (y + k)%positive = row_of s y.
Proof.
  unfold row_of, clone. simpl.
  assert (E : find_idx (id_is (y + k)%positive)
                (map (fun a => mkAtom (a_id a + k) (a_el a) (a_lab a) OThis) (atoms s))
              = find_idx (id_is y) (atoms s)).
  { induction (atoms s) as [|a l IH]; simpl; [reflexivity|].
    unfold id_is at 1 3. simpl.
    destruct (Pos.eqb_spec (a_id a) y) as [->|Hne].
    - rewrite Pos.eqb_refl. reflexivity.
    - destruct (Pos.eqb_spec (a_id a + k) (y + k)) as [E|_]; [exfalso; lia|]. rewrite IH. reflexivity. }
  rewrite E. reflexivity.
Qed.

(* ================================================================== the recorded finding, as coded *)
(* what append_bond does today with an atom y that is not in the molecule: the bond is appended and
   the atom is adopted through Promolecule.append_atom -- no coordinate row, no charge *)
Definition append_bond_foreign_as_coded (s : st) (x y : positive) (e : N) (l : option N) : st :=
  mkSt (has_q s) (atoms s ++ [mkAtom y e l OThis]) (coords s) (charges s)
       (bonds s ++ [mkBond (next_b s) x y OThis]) (next_a s) (Pos.succ (next_b s)).

Lemma foreign_as_coded_breaks s x y e l : Inv s -> ~ Inv (append_bond_foreign_as_coded s x y e l).
Proof.
  intros [H1 _] [G1 _]. unfold append_bond_foreign_as_coded in G1. simpl in G1.
  rewrite app_length in G1. simpl in G1. lia.
Qed.

(* ================================================================== remove_substituent does not fail half-way
   (a1 <> a2, however they are designated): once the checks at its beginning have passed, nothing raises *)
Record bfs_inv (s : st) (x1 : positive) (vis out : list positive) : Prop := {
  bi_sub : forall y, In y out -> In y vis;
  bi_nd : NoDup out;
  bi_x1 : In x1 vis;
  bi_nx1 : ~ In x1 out;
  bi_mem : forall y, In y out -> In y (ids s) }.

Lemma neighbours_members s x y : Inv s -> In y (neighbours s x) -> In y (ids s).
Proof.
  intros [_ [_ [_ [_ [_ H6]]]]] H. unfold neighbours in H. apply in_map_iff in H.
  destruct H as [b [E Hb]]. apply filter_In in Hb. destruct Hb as [Hb _].
  destruct (H6 b Hb) as [_ [_ [A B]]]. destruct (Pos.eqb (b_a1 b) x); subst; assumption.
Qed.

Lemma bfs_visit_inv s x1 vis q out a :
  In a (ids s) -> bfs_inv s x1 vis out ->
  let '(vis', _, out') := bfs_visit (vis, q, out) a in bfs_inv s x1 vis' out'.
Proof.
  intros Ha [I1 I2 I3 I5 I4]. unfold bfs_visit. destruct (mem a vis) eqn:E.
  - constructor; assumption.
  - assert (Hn : ~ In a vis) by (intro H; apply mem_In in H; congruence).
    constructor.
    + intros y [<-|Hy]; [left; reflexivity|right; apply I1; exact Hy].
    + constructor; [intro H; apply Hn; apply I1; exact H|exact I2].
    + right. exact I3.
    + intros [<-|Hy]; [apply Hn; exact I3|apply I5; exact Hy].
    + intros y [<-|Hy]; [exact Ha|apply I4; exact Hy].
Qed.

Lemma bfs_fold_inv s x1 : forall l vis q out,
  (forall a, In a l -> In a (ids s)) -> bfs_inv s x1 vis out ->
  let '(vis', _, out') := fold_left bfs_visit l (vis, q, out) in bfs_inv s x1 vis' out'.
Proof.
  induction l as [|a l IH]; intros vis q out Hl HI; cbn [fold_left]; [exact HI|].
  pose proof (bfs_visit_inv s x1 vis q out a (Hl a (or_introl eq_refl)) HI) as H.
  destruct (bfs_visit (vis, q, out) a) as [[v1 q1] o1]. apply IH; [|exact H].
  intros b Hb. apply Hl. right. exact Hb.
Qed.

Lemma bfs_loop_inv s x1 : Inv s -> forall fuel vis q out res,
  bfs_inv s x1 vis out -> bfs_loop fuel s vis q out = Some res ->
  exists vis', bfs_inv s x1 vis' (rev res).
Proof.
  intros HInv. induction fuel as [|f IH]; intros vis q out res HI H; destruct q as [|x q']; simpl in H; try discriminate.
  - inversion H; subst. rewrite rev_involutive. eauto.
  - inversion H; subst. rewrite rev_involutive. eauto.
  - pose proof (bfs_fold_inv s x1 (neighbours s x) vis q' out
                  (fun a Ha => neighbours_members s x a HInv Ha) HI) as HF.
    destruct (fold_left bfs_visit (neighbours s x) (vis, q', out)) as [[v1 q1] o1].
    eapply IH; eauto.
Qed.

Lemma del_atom_obj_ok s y : Inv s -> In y (ids s) -> exists s', del_atom s (ByObj y) = Ok s'.
Proof.
  intros HI Hy. pose proof HI as [H1 [H2 [H3 _]]].
  destruct (in_ids_find_idx s y Hy) as [i Hf].
  destruct (find_idx_nth _ _ Hf) as [a [Hn [Hp Hfind]]]. apply id_is_true in Hp. subst y.
  unfold del_atom. destruct (has_q s) eqn:Eq.
  - unfold mol_del_atom. simpl get_atom_index. rewrite Hf.
    unfold struct_del_atom. simpl get_atom. rewrite Hfind.
    rewrite (@geom_del_obj s i a H3 H1 Hn). simpl bind.
    destruct H2 as [H2 _].
    assert (Hi : i < length (charges s)). { rewrite H2. apply nth_error_Some. congruence. }
    simpl charges. rewrite (del_nth_rm _ Hi). eauto.
  - unfold struct_del_atom. simpl get_atom. rewrite Hfind.
    rewrite (@geom_del_obj s i a H3 H1 Hn). eauto.
Qed.

Lemma del_fold_ok : forall out s, Inv s -> NoDup out -> (forall y, In y out -> In y (ids s)) ->
  exists s1, fold_left (fun r x => bind r (fun s' => del_atom s' (ByObj x))) out (Ok s) = Ok s1 /\ Inv s1 /\
             (forall z, In z (ids s1) <-> In z (ids s) /\ ~ In z out).
Proof.
  induction out as [|y out IH]; intros s HI Hnd Hm; simpl.
  - exists s. split; [reflexivity|]. split; [exact HI|]. intros z. tauto.
  - destruct (del_atom_obj_ok s y HI (Hm y (or_introl eq_refl))) as [s0 H0]. rewrite H0.
    pose proof (step_good s (DelAtom (ByObj y)) HI) as G. simpl in G. rewrite H0 in G. destruct G as [G1 _].
    destruct (del_atom_exact s (ByObj y) s0 HI H0) as [a [Ha [_ [_ [Hids _]]]]].
    simpl in Ha. apply find_some in Ha. destruct Ha as [_ Ha]. apply id_is_true in Ha. subst y.
    inversion Hnd; subst.
    destruct (IH s0 G1 H3) as [s1 [F1 [F2 F3]]].
    { intros z Hz. apply Hids. split; [apply Hm; right; exact Hz|]. intro E. subst. contradiction. }
    exists s1. split; [exact F1|]. split; [exact F2|].
    intros z. rewrite F3, Hids. simpl. split.
    + intros [[A B] C]. split; [exact A|]. intros [E|E]; [congruence|contradiction].
    + intros [A B]. split; [split; [exact A|]|]; intro E; apply B; [left; congruence|right; exact E].
Qed.

Theorem rs_err_unchanged s s1 s2 l s' : Inv s ->
  (forall a1 a2, get_atom s s1 = Some a1 -> get_atom s s2 = Some a2 -> a_id a2 <> a_id a1) ->
  remove_substituent s s1 s2 l = Err s' -> s' = s.
Proof.
  intros HI Hne H. unfold remove_substituent in H.
  destruct (get_atom s s1) as [a1|] eqn:E1; [|congruence].
  destruct (get_atom s s2) as [a2|] eqn:E2; [|congruence].
  destruct (get_atom_index s (ByObj (a_id a2))) as [i2|]; [|congruence].
  destruct (nth_error (coords s) i2) as [c2|]; [|congruence].
  destruct (mem (a_id a2) (neighbours s (a_id a1))) eqn:Em; [|congruence].
  destruct (bfs_loop (bfs_fuel s) s [a_id a2; a_id a1] [a_id a2] [a_id a2]) as [out|] eqn:Eb; [|discriminate].
  exfalso. set (x1 := a_id a1) in *.
  destruct (get_atom_in s s1 E1) as [j1 Hj1].
  assert (Hx1 : In x1 (ids s)) by (apply in_map; eapply nth_error_In; eauto).
  destruct (get_atom_in s s2 E2) as [j Hj].
  assert (Ha2 : In (a_id a2) (ids s)) by (apply in_map; eapply nth_error_In; eauto).
  specialize (Hne a1 a2 eq_refl eq_refl). fold x1 in Hne.
  assert (HI0 : bfs_inv s x1 [a_id a2; x1] [a_id a2]).
  { constructor.
    - intros y [<-|[]]. left. reflexivity.
    - constructor; [intros []|constructor].
    - right. left. reflexivity.
    - intros [E|[]]. congruence.
    - intros y [<-|[]]. exact Ha2. }
  destruct (bfs_loop_inv s x1 HI _ _ _ _ _ HI0 Eb) as [vis' [B1 B2 B3 B5 B4]].
  assert (Hout_nd : NoDup out) by (rewrite <- (rev_involutive out); apply NoDup_rev; exact B2).
  assert (Hout_mem : forall y, In y out -> In y (ids s)) by (intros y Hy; apply B4; apply in_rev in Hy; exact Hy).
  assert (Hx1out : ~ In x1 out) by (intro Hy; apply B5; apply in_rev in Hy; exact Hy).
  destruct (del_fold_ok out s HI Hout_nd Hout_mem) as [s1' [F1 [F2 F3]]].
  rewrite F1 in H. cbn [bind] in H.
  rewrite add_atom_spec in H. cbn [bind] in H.
  set (sa := added s1' el_Unknown l c2 0) in *.
  unfold conn_connect in H. cbn [get_atom] in H.
  assert (M1 : In x1 (ids sa)).
  { unfold sa, added, ids. simpl. rewrite map_app. apply in_or_app. left. apply F3. split; assumption. }
  assert (M2 : In (next_a s1') (ids sa)).
  { unfold sa, added, ids. simpl. rewrite map_app. apply in_or_app. right. left. reflexivity. }
  destruct (in_ids_find_idx sa _ M1) as [k1 K1]. destruct (find_idx_nth _ _ K1) as [b1 [_ [P1 Q1]]].
  destruct (in_ids_find_idx sa _ M2) as [k2 K2]. destruct (find_idx_nth _ _ K2) as [b2 [_ [P2 Q2]]].
  rewrite Q1, Q2 in H.
  eapply append_bond_no_err. exact H.
Qed.

(* ================================================================== packaged statements used by Props/C05.v *)
Theorem inv_step s o s' : Inv s -> (step s o = Ok s' \/ step s o = Err s') -> Inv s'.
Proof. intros HI [H|H]; pose proof (step_good s o HI) as G; rewrite H in G; apply G. Qed.

Theorem keeps_step s o s' : Inv s -> (step s o = Ok s' \/ step s o = Err s') ->
  (forall y, In y (ids s) -> In y (ids s') -> row_of s' y = row_of s y) /\
  (forall y, In y (ids s') -> In y (ids s) \/ (next_a s <= y)%positive).
Proof.
  intros HI [H|H]; pose proof (step_good s o HI) as G; rewrite H in G;
    destruct G as [_ [_ [_ [_ [G4 G5]]]]]; auto.
Qed.

Theorem inv_history s h s' : Inv s -> run s h = Some s' -> Inv s'.
Proof. intros HI H. apply (run_good h s s' HI H). Qed.

Theorem keeps_history s h s' : Inv s -> run s h = Some s' ->
  (forall y, In y (ids s) -> In y (ids s') -> row_of s' y = row_of s y) /\
  (forall y, In y (ids s') -> In y (ids s) \/ (next_a s <= y)%positive).
Proof. intros HI H. destruct (run_good h s s' HI H) as [_ [_ [_ [_ [G4 G5]]]]]. auto. Qed.

(* run_check_run / check_case_sound: the correspondence runs over the extended alphabet (views, adoption);
   they are proved in Proofs/MolEditView.v *)
