(* C08, the SIZE dimension: what the writer model emits has, for EVERY number of atoms and of frames, the frame
   structure the oracle reads (header count = number of records, nothing before, between or after the frames),
   every record is exactly four tokens, and the pattern geometries of Model/XyzSize.v are writable at every size
   (so the round-trip theorem applies to the whole size family, not only to the sizes that were run). *)
From Coq Require Import List Bool Arith NArith ZArith Ascii String Lia.
From Molli Require Import Common.ParseStr Common.ParseStrFacts Model.Parse Model.XyzText Model.XyzSize
                          Proofs.Parse Proofs.XyzText.
Import ListNotations.
Local Open Scope char_scope.
Local Open Scope list_scope.

(* ---------------------------------------------------------------- take_N *)
Lemma take_N_app {A} (a b : list A) : take_N (N.of_nat (List.length a)) (a ++ b) = Some (a, b).
Proof.
  induction a as [|x a IH].
  - simpl. destruct b; reflexivity.
  - cbn [List.length app take_N]. rewrite Nat2N.inj_succ.
    destruct (N.eqb_spec (N.succ (N.of_nat (List.length a))) 0) as [E|_]; [lia|].
    rewrite N.pred_succ, IH. reflexivity.
Qed.

Lemma take_N_length {A} n (l a b : list A) : take_N n l = Some (a, b) -> l = a ++ b /\ n = N.of_nat (List.length a).
Proof.
  revert n a b. induction l as [|x l IH]; intros n a b H; simpl in H.
  - destruct (N.eqb_spec n 0) as [->|_]; [|discriminate]. injection H as <- <-. split; reflexivity.
  - destruct (N.eqb_spec n 0) as [->|Hn].
    + injection H as <- <-. split; reflexivity.
    + destruct (take_N (N.pred n) l) as [[a' b']|] eqn:E; [|discriminate]. injection H as <- <-.
      destruct (IH _ _ _ E) as [-> Hp]. split; [reflexivity|]. cbn [List.length]. rewrite Nat2N.inj_succ, <- Hp. lia.
Qed.

(* ---------------------------------------------------------------- one record = four tokens *)
Lemma atom_line_tokens sym a : tok sym ->
  split (atom_line sym a) = [sym; print_dec6 (fst (wa_x a)) (snd (wa_x a)); print_dec6 (fst (wa_y a)) (snd (wa_y a));
                             print_dec6 (fst (wa_z a)) (snd (wa_z a))].
Proof.
  intros Hs. unfold atom_line, ljust.
  destruct (fmt12_shape (wa_x a)) as [kx Ex]. destruct (fmt12_shape (wa_y a)) as [ky Ey]. destruct (fmt12_shape (wa_z a)) as [kz Ez].
  rewrite Ex, Ey, Ez.
  set (X := print_dec6 (fst (wa_x a)) (snd (wa_x a))). set (Y := print_dec6 (fst (wa_y a)) (snd (wa_y a))).
  set (Z := print_dec6 (fst (wa_z a)) (snd (wa_z a))). set (k := (5 - List.length sym)%nat).
  assert (E : (sym ++ blanks k) ++ " " :: (blanks kx ++ X) ++ " " :: (blanks ky ++ Y) ++ " " :: blanks kz ++ Z
              = [] ++ wline [(sym, blanks k ++ " " :: blanks kx); (X, " " :: blanks ky); (Y, " " :: blanks kz)] Z).
  { simpl. repeat rewrite <- app_assoc. simpl. repeat rewrite <- app_assoc. reflexivity. }
  rewrite E. rewrite split_wline.
  - assert (HZ : Z <> []) by (destruct (print_dec6_tok (fst (wa_z a)) (snd (wa_z a))) as [H _]; exact H).
    simpl. destruct Z as [|z0 Z']; [contradiction|]. reflexivity.
  - reflexivity.
  - constructor; [cbn [fst snd]; split; [exact Hs|split]|].
    + intros H. destruct (blanks k); discriminate H.
    + apply all_ws_app; [apply blanks_ws|apply all_ws_cons_blank, blanks_ws].
    + constructor; [cbn [fst snd]; split; [apply print_dec6_tok|split; [discriminate|apply all_ws_cons_blank, blanks_ws]]|].
      constructor; [cbn [fst snd]; split; [apply print_dec6_tok|split; [discriminate|apply all_ws_cons_blank, blanks_ws]]|].
      constructor.
  - right. apply print_dec6_tok.
Qed.

Lemma map_opt_length {A B} (f : A -> option B) l : forall r, map_opt f l = Some r -> List.length r = List.length l.
Proof.
  induction l as [|x l IH]; intros r H; simpl in H.
  - injection H as <-. reflexivity.
  - destruct (f x); [|discriminate]. destruct (map_opt f l) as [ys|]; [|discriminate]. injection H as <-.
    simpl. f_equal. now apply IH.
Qed.

Lemma written_record_tokens names syms g rs : vocab_ok names syms = true -> geom_records syms g = Some rs ->
  Forall2 (fun l a => exists sym, symbol_of syms (wa_elem a) = Some sym /\
                      split l = [sym; print_dec6 (fst (wa_x a)) (snd (wa_x a)); print_dec6 (fst (wa_y a)) (snd (wa_y a));
                                 print_dec6 (fst (wa_z a)) (snd (wa_z a))])
          rs (wg_atoms g).
Proof.
  intros Hv. unfold geom_records. revert rs. induction (wg_atoms g) as [|a atoms IH]; intros rs H; simpl in H.
  - injection H as <-. constructor.
  - unfold write_atom at 1 in H. destruct (symbol_of syms (wa_elem a)) as [s|] eqn:Es; [|discriminate].
    destruct (map_opt (write_atom syms) atoms) as [ls'|] eqn:E; [|discriminate]. injection H as <-.
    constructor; [|now apply IH]. exists s. split; [exact Es|].
    apply atom_line_tokens. now destruct (vocab_ok_sym names syms _ _ Hv Es).
Qed.

(* ---------------------------------------------------------------- frames of the written text *)
Lemma write_geom_records syms g : write_geom syms g =
  option_map (fun rs => print_N (N.of_nat (List.length (wg_atoms g))) :: wg_name g :: rs) (geom_records syms g).
Proof. unfold write_geom, geom_records. destruct (map_opt (write_atom syms) (wg_atoms g)); reflexivity. Qed.

Lemma text_frames_written syms gs : forall fuel lss, (List.length gs <= fuel)%nat ->
  map_opt (write_geom syms) gs = Some lss ->
  text_frames fuel (List.concat lss) = map_opt (geom_tframe syms) gs /\ map_opt (geom_tframe syms) gs <> None.
Proof.
  induction gs as [|g gs IH]; intros fuel lss Hf H; simpl in H.
  - injection H as <-. split; [destruct fuel; reflexivity|discriminate].
  - destruct (write_geom syms g) as [l|] eqn:Eg; [|discriminate].
    destruct (map_opt (write_geom syms) gs) as [lss'|] eqn:E; [|discriminate]. injection H as <-.
    destruct fuel as [|fuel]; [simpl in Hf; lia|].
    rewrite write_geom_records in Eg. destruct (geom_records syms g) as [rs|] eqn:Er; [|discriminate].
    simpl in Eg. injection Eg as <-.
    assert (Hlen : List.length rs = List.length (wg_atoms g)) by (unfold geom_records in Er; now apply map_opt_length in Er).
    destruct (IH fuel lss') as [IH1 IH2]; [simpl in Hf; lia|reflexivity|].
    cbn [List.concat app text_frames]. rewrite parse_int_print_N.
    destruct (Z.ltb_spec (Z.of_N (N.of_nat (List.length (wg_atoms g)))) 0) as [Hneg|_]; [lia|].
    rewrite N2Z.id, <- Hlen, take_N_app, IH1.
    assert (Eg' : geom_tframe syms g = Some (N.of_nat (List.length (wg_atoms g)), wg_name g, rs)) by (unfold geom_tframe; now rewrite Er).
    cbn [map_opt]. rewrite Eg', Hlen.
    destruct (map_opt (geom_tframe syms) gs) as [fs|]; [|contradiction]. split; [reflexivity|discriminate].
Qed.

Lemma write_xyz_frames_le syms gs : forall lss, map_opt (write_geom syms) gs = Some lss ->
  (List.length gs <= List.length (List.concat lss))%nat.
Proof.
  induction gs as [|g gs IH]; intros lss H; simpl in H.
  - injection H as <-. simpl. lia.
  - destruct (write_geom syms g) as [l|] eqn:Eg; [|discriminate].
    destruct (map_opt (write_geom syms) gs) as [lss'|] eqn:E; [|discriminate]. injection H as <-.
    specialize (IH lss' eq_refl). cbn [List.concat]. rewrite app_length.
    rewrite write_geom_records in Eg. destruct (geom_records syms g); [|discriminate]. simpl in Eg. injection Eg as <-.
    simpl. lia.
Qed.

(* the oracle's reading of whatever the writer accepts: one frame per geometry, in order, each with its own atom
   count in the header, its name as the comment and exactly its records *)
Theorem written_text_frames syms gs ls : write_xyz syms gs = Some ls ->
  exists frs, text_frames (List.length ls) ls = Some frs /\ map_opt (geom_tframe syms) gs = Some frs.
Proof.
  unfold write_xyz. intros H. destruct (map_opt (write_geom syms) gs) as [lss|] eqn:E; [|discriminate].
  simpl in H. injection H as <-.
  destruct (text_frames_written syms gs (List.length (List.concat lss)) lss) as [H1 H2]; [now apply (write_xyz_frames_le syms)|exact E|].
  destruct (map_opt (geom_tframe syms) gs) as [frs|]; [|contradiction]. exists frs. split; [exact H1|reflexivity].
Qed.

Lemma geom_tframe_counts syms g fr : geom_tframe syms g = Some fr ->
  fst (fst fr) = N.of_nat (List.length (wg_atoms g)) /\ List.length (snd fr) = List.length (wg_atoms g) /\ snd (fst fr) = wg_name g.
Proof.
  unfold geom_tframe. destruct (geom_records syms g) as [rs|] eqn:E; [|discriminate]. simpl. intros H. injection H as <-.
  cbn [fst snd]. repeat split. unfold geom_records in E. now apply map_opt_length in E.
Qed.

(* ... in particular: as many frames as geometries, every header count equals the number of records of its frame and the
   number of atoms of its geometry, and the text has no line outside the frames *)
Theorem written_text_counts syms gs ls : write_xyz syms gs = Some ls ->
  exists frs, text_frames (List.length ls) ls = Some frs /\
              Forall2 (fun fr g => fst (fst fr) = N.of_nat (List.length (wg_atoms g)) /\
                                   List.length (snd fr) = List.length (wg_atoms g) /\ snd (fst fr) = wg_name g) frs gs /\
              forallb frame_counts_ok frs = true /\
              ls = List.concat (map (fun fr => print_N (fst (fst fr)) :: snd (fst fr) :: snd fr) frs).
Proof.
  intros H. destruct (written_text_frames syms gs ls H) as [frs [H1 H2]]. exists frs. split; [exact H1|].
  assert (F : Forall2 (fun fr g => geom_tframe syms g = Some fr) frs gs).
  { clear H H1. revert frs H2. induction gs as [|g gs IH]; intros frs H2; simpl in H2.
    - injection H2 as <-. constructor.
    - destruct (geom_tframe syms g) as [fr|] eqn:Eg; [|discriminate].
      destruct (map_opt (geom_tframe syms) gs) as [frs'|] eqn:E; [|discriminate]. injection H2 as <-.
      constructor; [exact Eg|now apply IH]. }
  split; [|split].
  - clear H H1 H2. induction F as [|fr g frs gs Hg _ IH]; constructor; [now apply (geom_tframe_counts syms)|exact IH].
  - clear H H1 H2. induction F as [|fr g frs gs Hg _ IH]; [reflexivity|]. simpl. rewrite IH, andb_true_r.
    destruct (geom_tframe_counts syms g fr Hg) as [Ha [Hb _]]. unfold frame_counts_ok. rewrite Ha, Hb. apply N.eqb_refl.
  - clear H1 H2. unfold write_xyz in H. destruct (map_opt (write_geom syms) gs) as [lss|] eqn:E; [|discriminate].
    simpl in H. injection H as <-. f_equal. revert lss E. induction F as [|fr g frs gs Hg _ IH]; intros lss E; simpl in E.
    + injection E as <-. reflexivity.
    + destruct (write_geom syms g) as [l|] eqn:Eg; [|discriminate].
      destruct (map_opt (write_geom syms) gs) as [lss'|] eqn:E'; [|discriminate]. injection E as <-.
      simpl. f_equal; [|now apply IH]. rewrite write_geom_records in Eg. unfold geom_tframe in Hg.
      destruct (geom_records syms g) as [rs|]; [|discriminate]. simpl in Eg, Hg. injection Eg as <-. injection Hg as <-.
      reflexivity.
Qed.

(* a frame whose records are written twice under the same header (the surplus is then read as the next frame's
   header) has NO reading at all when the surplus record is not a number -- which is what every all-frames reader
   sees; and a reader that stops after the first frame cannot tell *)
Lemma text_frames_surplus fuel cm rs r rest : parse_int r = None ->
  text_frames (S fuel) (print_N (N.of_nat (List.length rs)) :: cm :: rs ++ r :: rest) = None.
Proof.
  intros Hr. cbn [text_frames]. rewrite parse_int_print_N.
  destruct (Z.ltb_spec (Z.of_N (N.of_nat (List.length rs))) 0) as [Hneg|_]; [lia|].
  rewrite N2Z.id, take_N_app. destruct fuel; [reflexivity|]. cbn [text_frames]. rewrite Hr. reflexivity.
Qed.

(* ---------------------------------------------------------------- the pattern at every size *)
Lemma seqN_from_length s len : List.length (seqN_from s len) = len.
Proof. revert s. induction len as [|len IH]; intros s; simpl; [reflexivity|]. now rewrite IH. Qed.
Lemma seqN_length n : List.length (seqN n) = N.to_nat n.
Proof. apply seqN_from_length. Qed.
Lemma pat_geom_atoms name n es cs : List.length (wg_atoms (pat_geom name (n, es, cs))) = N.to_nat n.
Proof. cbn [pat_geom wg_atoms]. now rewrite map_length, seqN_length. Qed.

Lemma In_seqN_from k : forall len s, (s <= k)%N -> (k < s + N.of_nat len)%N -> In k (seqN_from s len).
Proof.
  induction len as [|len IH]; intros s H1 H2; [lia|]. simpl.
  destruct (N.eq_dec s k) as [->|Hne]; [now left|]. right. apply IH; lia.
Qed.

(* every element the pattern uses has a symbol: decided on the regenerated table for all of 1..118 *)
Definition pat_elems_writable (syms : list (Z * str)) : bool :=
  forallb (fun k => match symbol_of syms (Z.of_N k) with Some _ => true | None => false end) (seqN_from 1 118).

Lemma pat_elem_writable syms es i : pat_elems_writable syms = true -> symbol_of syms (pat_elem es i) <> None.
Proof.
  intros H. unfold pat_elems_writable in H. rewrite forallb_forall in H. unfold pat_elem.
  assert (Hm : ((i * 7 + es) mod 118 < 118)%N) by (apply N.mod_lt; discriminate).
  set (m := ((i * 7 + es) mod 118)%N) in *. clearbody m.
  assert (Hin : In (1 + m)%N (seqN_from 1 118)).
  { apply In_seqN_from; [lia|]. change (N.of_nat 118) with 118%N. lia. }
  specialize (H _ Hin). destruct (symbol_of syms (Z.of_N (1 + m))); [discriminate|discriminate H].
Qed.

Lemma pat_atoms_writable syms es cs l : pat_elems_writable syms = true ->
  map_opt (write_atom syms) (map (pat_atom es cs) l) <> None.
Proof.
  intros H. induction l as [|i l IH]; [discriminate|]. simpl. unfold write_atom at 1. cbn [pat_atom wa_elem].
  destruct (symbol_of syms (pat_elem es i)) eqn:E; [|now apply pat_elem_writable in E].
  destruct (map_opt (write_atom syms) (map (pat_atom es cs) l)); [discriminate|contradiction].
Qed.

(* the size family lies inside the writer's domain for EVERY atom count, seed and number of frames *)
Theorem pat_writable syms name fs : pat_elems_writable syms = true -> write_xyz syms (pat_geoms name fs) <> None.
Proof.
  intros H. unfold write_xyz, pat_geoms.
  assert (G : map_opt (write_geom syms) (map (pat_geom name) fs) <> None).
  { induction fs as [|[[n es] cs] fs IH]; [discriminate|]. simpl. unfold write_geom at 1. cbn [pat_geom wg_atoms].
    pose proof (pat_atoms_writable syms es cs (seqN n) H) as Ha.
    destruct (map_opt (write_atom syms) (map (pat_atom es cs) (seqN n))); [|contradiction].
    destruct (map_opt (write_geom syms) (map (pat_geom name) fs)); [discriminate|contradiction]. }
  destruct (map_opt (write_geom syms) (map (pat_geom name) fs)); [discriminate|contradiction].
Qed.

(* the whole size family, for every atom count, seed, and number of frames: it is written, the text is read back as
   exactly these geometries, and the oracle's reading of the text finds one frame per geometry with the header count
   n of that geometry and exactly n records *)
Theorem size_family names syms name fs : vocab_ok names syms = true -> pat_elems_writable syms = true ->
  exists ls, write_xyz syms (pat_geoms name fs) = Some ls /\
             load_xyz names ls = Ok (map geom_mol (pat_geoms name fs)) /\
             exists frs, text_frames (List.length ls) ls = Some frs /\
                         map (fun fr => fst (fst fr)) frs = map (fun f => fst (fst f)) fs /\
                         forallb frame_counts_ok frs = true.
Proof.
  intros Hv Hw. destruct (write_xyz syms (pat_geoms name fs)) as [ls|] eqn:E; [|now apply pat_writable in E].
  exists ls. split; [reflexivity|]. split; [now apply (xyz_roundtrip names syms)|].
  destruct (written_text_counts syms _ ls E) as [frs [H1 [H2 [H3 _]]]]. exists frs. split; [exact H1|]. split; [|exact H3].
  clear E H1 H3. unfold pat_geoms in H2. revert frs H2. induction fs as [|[[n es] cs] fs IH]; intros frs H2; cbn [map] in H2.
  - inversion H2. reflexivity.
  - inversion H2 as [|fr g frs' gs' [Ha _] Hr]; subst. cbn [map fst]. f_equal; [|now apply IH].
    rewrite Ha. change (N.of_nat (List.length (wg_atoms (pat_geom name (n, es, cs)))) = n). rewrite pat_geom_atoms. apply N2Nat.id.
Qed.
