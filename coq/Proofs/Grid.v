(* C19 (grid descriptors): theorems about Model/Grid.v, all over Q (every float is a rational, so the statements
   cover every input the code can receive; rounding inside numpy/scipy is outside the model).
   rectangular_grid: floor lemmas -> count, closed form l + o + i*spacing of every axis point, spacing, centring,
   containment, no duplicates, Cartesian-product structure and raveling order of the mesh.
   nearest_atom_index: names an atom at minimal distance iff that distance is within the cut-off, else -1.
   prune: soundness and the (1+eps) completeness band under the KD-tree query contract (Section hypotheses).
   aso / aif(aeif): equal the (weighted) conformer average of the sphere-union indicator (times the value of the
   nearest atom). *)
From Coq Require Import List ZArith QArith Qabs Qround Bool Lia ZifyBool Lqa Arith FinFun.
From Molli Require Import Common.Field3 Common.FlatNth Model.Grid.
Import ListNotations.
Local Open Scope Q_scope.

(* ------------------------------------------------------------------ floor lemmas *)
Lemma floor_bounds (d s : Q) : 0 < s ->
  inject_Z (Qfloor (d / s)) * s <= d /\ d < (inject_Z (Qfloor (d / s)) + 1) * s.
Proof.
  intros Hs. assert (E : d / s * s == d) by (field; lra).
  split.
  - apply Qle_trans with (d / s * s); [|rewrite E; apply Qle_refl].
    apply Qmult_le_compat_r; [apply Qfloor_le | lra].
  - apply Qle_lt_trans with (d / s * s); [rewrite E; apply Qle_refl|].
    apply Qmult_lt_compat_r; [exact Hs|].
    pose proof (Qlt_floor (d / s)) as H. rewrite inject_Z_plus in H. exact H.
Qed.

Lemma axis_n_pred (l r s : Q) : (axis_n l r s - 1)%Z = Qfloor ((r - l) / s).
Proof. unfold axis_n. lia. Qed.

Lemma axis_n_pos (l r s : Q) : 0 < s -> l <= r -> (1 <= axis_n l r s)%Z.
Proof.
  intros Hs Hlr. unfold axis_n.
  assert (0 <= Qfloor ((r - l) / s))%Z; [|lia].
  change 0%Z with (Qfloor 0). apply Qfloor_resp_le.
  apply Qle_shift_div_l; [exact Hs | lra].
Qed.

(* 0 <= o < spacing/2, and the span left for the points is exactly (n-1) spacings *)
Lemma axis_off_bounds (l r s : Q) : 0 < s ->
  0 <= axis_off l r s /\ axis_off l r s < s / 2 /\
  r - l - 2 * axis_off l r s == inject_Z (axis_n l r s - 1) * s.
Proof.
  intros Hs. unfold axis_off. rewrite axis_n_pred.
  destruct (floor_bounds (r - l) s Hs) as [H1 H2].
  set (f := inject_Z (Qfloor ((r - l) / s))) in *.
  repeat split.
  - apply Qle_shift_div_l; lra.
  - apply Qlt_shift_div_r; [lra|]. 
    assert (s / 2 * 2 == s) by field. lra.
  - field.
Qed.

(* ------------------------------------------------------------------ linspace *)
Lemma lin_length (a st : Q) (n : nat) : forall k, length (lin a st k n) = n.
Proof. induction n as [|n IH]; intros k; simpl; [reflexivity | now rewrite IH]. Qed.

Lemma lin_nth (a st d : Q) (n : nat) : forall k i, (i < n)%nat ->
  nth i (lin a st k n) d = Qred (a + inject_Z (k + Z.of_nat i) * st).
Proof.
  induction n as [|n IH]; intros k i Hi; [lia|].
  destruct i as [|i]; simpl nth.
  - now rewrite Z.add_0_r.
  - rewrite IH by lia. do 4 f_equal. lia.
Qed.

Lemma linspace_length (a b : Q) (n : Z) : (0 <= n)%Z -> length (linspace a b n) = Z.to_nat n.
Proof.
  intros Hn. unfold linspace. destruct (n =? 1)%Z eqn:E.
  - apply Z.eqb_eq in E. subst. reflexivity.
  - apply lin_length.
Qed.

(* closed form of one axis: point i is  l + o + i * spacing *)
Definition axis_pts (l r s : Q) : list Q := match axis l r s with Some xs => xs | None => [] end.

Lemma axis_some (l r s : Q) : 0 < s -> l <= r -> axis l r s = Some (axis_pts l r s).
Proof.
  intros Hs Hlr. unfold axis_pts, axis. pose proof (axis_n_pos l r s Hs Hlr).
  destruct (axis_n l r s <? 0)%Z eqn:E; [lia | reflexivity].
Qed.

Lemma axis_length (l r s : Q) : 0 < s -> l <= r -> length (axis_pts l r s) = Z.to_nat (axis_n l r s).
Proof.
  intros Hs Hlr. unfold axis_pts, axis. pose proof (axis_n_pos l r s Hs Hlr).
  destruct (axis_n l r s <? 0)%Z eqn:E; [lia|]. apply linspace_length. lia.
Qed.

Lemma axis_nth (l r s d : Q) (i : nat) : 0 < s -> l <= r -> (i < Z.to_nat (axis_n l r s))%nat ->
  nth i (axis_pts l r s) d == l + axis_off l r s + inject_Z (Z.of_nat i) * s.
Proof.
  intros Hs Hlr Hi. unfold axis_pts, axis. pose proof (axis_n_pos l r s Hs Hlr) as Hn.
  destruct (axis_n l r s <? 0)%Z eqn:E; [lia|]. clear E.
  destruct (axis_off_bounds l r s Hs) as [_ [_ Hspan]].
  unfold linspace. destruct (axis_n l r s =? 1)%Z eqn:E1.
  - apply Z.eqb_eq in E1. rewrite E1 in Hi. assert (i = 0)%nat by lia. subst i. simpl. ring.
  - apply Z.eqb_neq in E1. rewrite lin_nth by exact Hi. rewrite Z.add_0_l, !Qred_correct.
    set (o := axis_off l r s) in *. set (m := inject_Z (axis_n l r s - 1)) in *.
    assert (Hm : ~ m == 0).
    { unfold m. intros H0. assert (H1 : inject_Z 1 <= inject_Z (axis_n l r s - 1)) by (rewrite <- Zle_Qle; lia).
      rewrite H0 in H1. compute in H1. apply H1. reflexivity. }
    assert (Est : (r - o - (l + o)) / m == s).
    { assert (Hs2 : r - o - (l + o) == m * s) by (rewrite <- Hspan; ring).
      rewrite Hs2. field. exact Hm. }
    rewrite Est. ring.
Qed.

(* consecutive points differ by the spacing *)
Lemma axis_spacing (l r s d : Q) (i : nat) : 0 < s -> l <= r -> (S i < Z.to_nat (axis_n l r s))%nat ->
  nth (S i) (axis_pts l r s) d - nth i (axis_pts l r s) d == s.
Proof.
  intros Hs Hlr Hi. rewrite !axis_nth by (try assumption; lia).
  rewrite Nat2Z.inj_succ. unfold Z.succ. rewrite inject_Z_plus. ring.
Qed.

(* centred: the first point is o above the lower face, the last point o below the upper face, 0 <= o < s/2 *)
Lemma axis_centred (l r s d : Q) : 0 < s -> l <= r ->
  let n := Z.to_nat (axis_n l r s) in let o := axis_off l r s in
  nth 0 (axis_pts l r s) d - l == o /\ r - nth (n - 1) (axis_pts l r s) d == o /\ 0 <= o /\ o < s / 2.
Proof.
  intros Hs Hlr n o. pose proof (axis_n_pos l r s Hs Hlr) as Hn.
  destruct (axis_off_bounds l r s Hs) as [Ho1 [Ho2 Hspan]]. fold o in Ho1, Ho2, Hspan.
  split; [|split; [|split; assumption]].
  - rewrite axis_nth by (try assumption; lia). fold o. simpl. ring.
  - rewrite axis_nth by (try assumption; unfold n; lia). fold o.
    replace (Z.of_nat (n - 1)) with (axis_n l r s - 1)%Z by (unfold n; lia).
    rewrite <- Hspan. ring.
Qed.

(* contained in [l, r] *)
Lemma axis_contained (l r s : Q) (x : Q) : 0 < s -> l <= r -> In x (axis_pts l r s) -> l <= x /\ x <= r.
Proof.
  intros Hs Hlr Hx. apply (In_nth _ _ 0) in Hx as [i [Hi Ex]]. rewrite axis_length in Hi by assumption.
  pose proof (axis_nth l r s 0 i Hs Hlr Hi) as E. rewrite Ex in E.
  destruct (axis_off_bounds l r s Hs) as [Ho1 [Ho2 Hspan]]. set (o := axis_off l r s) in *.
  assert (H0 : 0 <= inject_Z (Z.of_nat i)) by (change 0 with (inject_Z 0); rewrite <- Zle_Qle; lia).
  assert (H1 : inject_Z (Z.of_nat i) <= inject_Z (axis_n l r s - 1)) by (rewrite <- Zle_Qle; lia).
  assert (H2 : inject_Z (Z.of_nat i) * s <= inject_Z (axis_n l r s - 1) * s) by (apply Qmult_le_compat_r; lra).
  assert (H3 : 0 <= inject_Z (Z.of_nat i) * s) by (apply Qmult_le_0_compat; lra).
  rewrite E. split; lra.
Qed.

(* strictly increasing, hence without duplicates *)
Lemma axis_increasing (l r s d : Q) (i j : nat) : 0 < s -> l <= r -> (i < j)%nat -> (j < Z.to_nat (axis_n l r s))%nat ->
  nth i (axis_pts l r s) d < nth j (axis_pts l r s) d.
Proof.
  intros Hs Hlr Hij Hj. rewrite !axis_nth by (try assumption; lia).
  assert (H1 : inject_Z (Z.of_nat i) < inject_Z (Z.of_nat j)) by (rewrite <- Zlt_Qlt; lia).
  assert (H2 : inject_Z (Z.of_nat i) * s < inject_Z (Z.of_nat j) * s) by (apply Qmult_lt_compat_r; assumption).
  lra.
Qed.

Lemma axis_NoDup (l r s : Q) : 0 < s -> l <= r -> NoDup (axis_pts l r s).
Proof.
  intros Hs Hlr. apply (NoDup_nth _ 0). intros i j Hi Hj E.
  rewrite axis_length in Hi, Hj by assumption.
  destruct (Nat.lt_trichotomy i j) as [H|[H|H]]; [|exact H|]; exfalso.
  - pose proof (axis_increasing l r s 0 i j Hs Hlr H Hj) as L. rewrite E in L. exact (Qlt_irrefl _ L).
  - pose proof (axis_increasing l r s 0 j i Hs Hlr H Hi) as L. rewrite E in L. exact (Qlt_irrefl _ L).
Qed.

(* ------------------------------------------------------------------ the mesh *)
Lemma mesh_length (xs ys zs : list Q) : length (mesh xs ys zs) = (length ys * (length xs * length zs))%nat.
Proof.
  unfold mesh. apply flat_map_uniform_length. intros y _.
  apply flat_map_uniform_length. intros x _. apply map_length.
Qed.

Lemma in_mesh (xs ys zs : list Q) (x y z : Q) : In (x, y, z) (mesh xs ys zs) <-> In x xs /\ In y ys /\ In z zs.
Proof.
  unfold mesh. rewrite in_flat_map. split.
  - intros [y' [Hy H]]. apply in_flat_map in H as [x' [Hx H]]. apply in_map_iff in H as [z' [E Hz]].
    injection E as -> -> ->. auto.
  - intros [Hx [Hy Hz]]. exists y. split; [exact Hy|]. apply in_flat_map. exists x. split; [exact Hx|].
    apply in_map_iff. exists z. auto.
Qed.

Lemma mesh_NoDup (xs ys zs : list Q) : NoDup xs -> NoDup ys -> NoDup zs -> NoDup (mesh xs ys zs).
Proof.
  intros Hx Hy Hz. unfold mesh. apply NoDup_flat_map; [exact Hy | |].
  - intros y _. apply NoDup_flat_map; [exact Hx | |].
    + intros x _. apply FinFun.Injective_map_NoDup; [|exact Hz]. intros a b E. now injection E.
    + intros a b p _ _ Ha Hb. apply in_map_iff in Ha as [? [<- _]]. apply in_map_iff in Hb as [? [E _]]. now injection E.
  - intros a b p _ _ Ha Hb.
    apply in_flat_map in Ha as [? [_ Ha]]. apply in_map_iff in Ha as [? [<- _]].
    apply in_flat_map in Hb as [? [_ Hb]]. apply in_map_iff in Hb as [? [E _]]. now injection E.
Qed.

(* order: y slowest, z fastest *)
Lemma mesh_nth (xs ys zs : list Q) (i j k : nat) : (i < length xs)%nat -> (j < length ys)%nat -> (k < length zs)%nat ->
  nth ((j * length xs + i) * length zs + k) (mesh xs ys zs) qvz = (nth i xs 0, nth j ys 0, nth k zs 0).
Proof.
  intros Hi Hj Hk. unfold mesh.
  replace ((j * length xs + i) * length zs + k)%nat with (j * (length xs * length zs) + (i * length zs + k))%nat by lia.
  rewrite (flat_map_uniform_nth _ (length xs * length zs)%nat 0); [| |exact Hj|nia].
  - rewrite (flat_map_uniform_nth _ (length zs) 0); [| |exact Hi|exact Hk].
    + rewrite (nth_indep _ qvz (nth i xs 0, nth j ys 0, 0)) by (rewrite map_length; exact Hk).
      apply (map_nth (fun z => (nth i xs 0, nth j ys 0, z))).
    + intros; apply map_length.
  - intros y _. apply flat_map_uniform_length. intros; apply map_length.
Qed.

(* ------------------------------------------------------------------ rectangular_grid *)
Definition box_ok (r1 r2 : qv) (pad : Q) : Prop :=
  let '(a1, a2, a3) := r1 in let '(b1, b2, b3) := r2 in
  a1 - pad <= b1 + pad /\ a2 - pad <= b2 + pad /\ a3 - pad <= b3 + pad.

Definition grid_axes (r1 r2 : qv) (pad s : Q) : list Q * list Q * list Q :=
  let '(a1, a2, a3) := r1 in let '(b1, b2, b3) := r2 in
  (axis_pts (a1 - pad) (b1 + pad) s, axis_pts (a2 - pad) (b2 + pad) s, axis_pts (a3 - pad) (b3 + pad) s).

Lemma rectangular_grid_some (r1 r2 : qv) (pad s : Q) : 0 < s -> box_ok r1 r2 pad ->
  rectangular_grid r1 r2 pad s = Some (let '(xs, ys, zs) := grid_axes r1 r2 pad s in mesh xs ys zs).
Proof.
  destruct r1 as [[a1 a2] a3], r2 as [[b1 b2] b3]. intros Hs [H1 [H2 H3]].
  unfold rectangular_grid, grid_axes. rewrite !axis_some by assumption. reflexivity.
Qed.

(* ------------------------------------------------------------------ squared distance *)
Lemma d2_plain (a g : qv) :
  d2 a g == (let '(a1, a2, a3) := a in let '(g1, g2, g3) := g in
             (a1 - g1) * (a1 - g1) + (a2 - g2) * (a2 - g2) + (a3 - g3) * (a3 - g3)).
Proof.
  destruct a as [[a1 a2] a3], g as [[g1 g2] g3].
  cbv [d2 dist2 norm2 dot vsub QOps fadd fsub fmul]. rewrite !Qred_correct. reflexivity.
Qed.

Lemma Qsq_nonneg (x : Q) : 0 <= x * x.
Proof. nra. Qed.

Lemma d2_nonneg (a g : qv) : 0 <= d2 a g.
Proof.
  rewrite d2_plain. destruct a as [[a1 a2] a3], g as [[g1 g2] g3].
  pose proof (Qsq_nonneg (a1 - g1)). pose proof (Qsq_nonneg (a2 - g2)). pose proof (Qsq_nonneg (a3 - g3)). lra.
Qed.

(* ------------------------------------------------------------------ nearest_atom_index *)
Lemma argmin_spec (g : qv) (atoms : list qv) :
  match argmin g atoms with
  | None => atoms = []
  | Some (i, d) => (i < length atoms)%nat /\ d = d2 (nth i atoms qvz) g /\ forall a, In a atoms -> d <= d2 a g
  end.
Proof.
  induction atoms as [|a r IH]; simpl; [reflexivity|].
  destruct (argmin g r) as [[i d]|].
  - destruct IH as [Hi [Hd Hmin]].
    destruct (Qle_bool (d2 a g) d) eqn:E.
    + apply Qle_bool_iff in E. split; [lia|]. split; [reflexivity|].
      intros b [<-|Hb]; [apply Qle_refl | eapply Qle_trans; [exact E | apply Hmin, Hb]].
    + assert (L : d < d2 a g).
      { apply Qnot_le_lt. intros H. apply Qle_bool_iff in H. congruence. }
      split; [lia|]. split; [exact Hd|].
      intros b [<-|Hb]; [apply Qlt_le_weak, L | apply Hmin, Hb].
  - subst r. split; [lia|]. split; [reflexivity|]. intros b [<-|[]]. apply Qle_refl.
Qed.

Definition nearest_spec (atoms : list qv) (cut : Q) (g : qv) (r : Z) : Prop :=
  (r = (-1)%Z /\ forall a, In a atoms -> cut * cut < d2 a g) \/
  (exists i, r = Z.of_nat i /\ (i < length atoms)%nat /\ d2 (nth i atoms qvz) g <= cut * cut /\
             forall a, In a atoms -> d2 (nth i atoms qvz) g <= d2 a g).

Theorem nearest_correct (atoms : list qv) (cut : Q) (g : qv) : nearest_spec atoms cut g (nearest atoms cut g).
Proof.
  unfold nearest, nearest_spec. pose proof (argmin_spec g atoms) as H.
  destruct (argmin g atoms) as [[i d]|].
  - destruct H as [Hi [Hd Hmin]].
    destruct (Qle_bool d (cut * cut)) eqn:E.
    + apply Qle_bool_iff in E. right. exists i. subst d. auto.
    + left. split; [reflexivity|]. intros a Ha.
      apply Qlt_le_trans with d; [|apply Hmin, Ha].
      apply Qnot_le_lt. intros H. apply Qle_bool_iff in H. congruence.
  - subst atoms. left. split; [reflexivity|]. intros a [].
Qed.

(* an index is returned iff some atom is within the cut-off *)
Theorem nearest_iff (atoms : list qv) (cut : Q) (g : qv) :
  (0 <= nearest atoms cut g)%Z <-> exists a, In a atoms /\ d2 a g <= cut * cut.
Proof.
  destruct (nearest_correct atoms cut g) as [[E H]|[i [E [Hi [Hc _]]]]]; rewrite E; split.
  - lia.
  - intros [a [Ha Hd]]. exfalso. apply (Qlt_irrefl (cut * cut)). eapply Qlt_le_trans; [apply H, Ha | exact Hd].
  - intros _. exists (nth i atoms qvz). split; [apply nth_In, Hi | exact Hc].
  - lia.
Qed.

(* the boolean acceptance test used on observed indices: what it means ... *)
Lemma nearest_okb_sound (band : Q) (atoms : list qv) (cut : Q) (g : qv) (r : Z) :
  nearest_okb band atoms cut g r = true ->
  (r = (-1)%Z /\ forall a, In a atoms -> cut * cut * (1 - band) <= d2 a g) \/
  (exists i, r = Z.of_nat i /\ (i < length atoms)%nat /\ d2 (nth i atoms qvz) g <= cut * cut * (1 + band) /\
             forall a, In a atoms -> d2 (nth i atoms qvz) g <= d2 a g * (1 + band)).
Proof.
  unfold nearest_okb. destruct (r =? -1)%Z eqn:E.
  - intros H. left. split; [lia|]. intros a Ha. rewrite forallb_forall in H. apply Qle_bool_iff, H, Ha.
  - intros H. right. apply andb_prop in H as [H H2]. apply andb_prop in H as [H0 H1].
    exists (Z.to_nat r). split; [lia|]. split; [lia|].
    apply andb_prop in H2 as [H2 H3]. split; [apply Qle_bool_iff, H2|].
    intros a Ha. rewrite forallb_forall in H3. apply Qle_bool_iff, H3, Ha.
Qed.

(* ... and it accepts the model's answer for every band in [0, 1] *)
Lemma nearest_okb_model (band : Q) (atoms : list qv) (cut : Q) (g : qv) : 0 <= band -> band <= 1 ->
  nearest_okb band atoms cut g (nearest atoms cut g) = true.
Proof.
  intros Hb0 Hb1. assert (Hc : 0 <= cut * cut) by apply Qsq_nonneg.
  destruct (nearest_correct atoms cut g) as [[E H]|[i [E [Hi [Hcut Hmin]]]]]; unfold nearest_okb; rewrite E.
  - simpl. apply forallb_forall. intros a Ha. apply Qle_bool_iff.
    apply Qle_trans with (cut * cut); [|apply Qlt_le_weak, H, Ha].
    assert (0 <= cut * cut * band) by (apply Qmult_le_0_compat; assumption). lra.
  - assert (E1 : (Z.of_nat i =? -1)%Z = false) by lia. rewrite E1, Nat2Z.id.
    assert (E2 : (0 <=? Z.of_nat i)%Z && (Z.of_nat i <? Z.of_nat (length atoms))%Z = true) by lia. rewrite E2. simpl.
    apply andb_true_intro. split.
    + apply Qle_bool_iff. assert (0 <= cut * cut * band) by (apply Qmult_le_0_compat; assumption). lra.
    + apply forallb_forall. intros a Ha. apply Qle_bool_iff.
      pose proof (d2_nonneg a g). assert (0 <= d2 a g * band) by (apply Qmult_le_0_compat; assumption).
      specialize (Hmin a Ha). lra.
Qed.

(* ------------------------------------------------------------------ prune *)
Lemma filter_idx_from_spec {A} (p : A -> bool) (d : A) (l : list A) : forall (k i : Z),
  In i (filter_idx_from p k l) <-> exists j, i = (k + Z.of_nat j)%Z /\ (j < length l)%nat /\ p (nth j l d) = true.
Proof.
  induction l as [|x l IH]; intros k i; simpl.
  - split; [intros [] | intros [j [_ [H _]]]; lia].
  - assert (Hstep : In i (filter_idx_from p (k + 1) l) <->
                    exists j, i = (k + Z.of_nat (S j))%Z /\ (j < length l)%nat /\ p (nth j l d) = true).
    { rewrite IH. split; intros [j [E H]]; exists j; (split; [lia | exact H]). }
    destruct (p x) eqn:E; simpl; rewrite ?Hstep; split.
    + intros [<-|[j [Ei [Hj Hp]]]]; [exists O; split; [lia | split; [lia | exact E]] | exists (S j); split; [exact Ei | split; [lia | exact Hp]]].
    + intros [[|j] [Ei [Hj Hp]]]; [left; lia | right; exists j; split; [exact Ei | split; [lia | exact Hp]]].
    + intros [j [Ei [Hj Hp]]]. exists (S j). split; [exact Ei | split; [lia | exact Hp]].
    + intros [[|j] [Ei [Hj Hp]]]; [simpl in Hp; congruence | exists j; split; [exact Ei | split; [lia | exact Hp]]].
Qed.

Lemma filter_idx_from_increasing {A} (p : A -> bool) (l : list A) : forall k lo, (lo <= k)%Z ->
  increasing_from lo (filter_idx_from p k l) = true.
Proof.
  induction l as [|x l IH]; intros k lo Hk; simpl; [reflexivity|].
  destruct (p x); simpl; [|apply IH; lia].
  apply andb_true_intro. split; [lia | apply IH; lia].
Qed.

Section Prune.
(* `q g` = "the (approximate, bounded) nearest-neighbour query reported a neighbour for g".  scipy's KDTree is
   external: its contract for `query(x, eps, distance_upper_bound)` enters as two hypotheses. *)
Variables (atoms : list qv) (cut eps : Q) (q : qv -> bool).
Hypothesis q_sound : forall g, q g = true -> exists a, In a atoms /\ d2 a g <= cut * cut.
Hypothesis q_complete : forall g, q g = false -> forall a, In a atoms -> cut * cut < d2 a g * ((1 + eps) * (1 + eps)).

Theorem prune_sound (grid : list qv) (i : Z) : In i (prune_with q grid) ->
  exists j a, i = Z.of_nat j /\ (j < length grid)%nat /\ In a atoms /\ d2 a (nth j grid qvz) <= cut * cut.
Proof.
  unfold prune_with. rewrite (filter_idx_from_spec q qvz). intros [j [E [Hj Hq]]].
  destruct (q_sound _ Hq) as [a [Ha Hd]]. exists j, a. split; [lia | split; [exact Hj | split; [exact Ha | exact Hd]]].
Qed.

Theorem prune_complete (grid : list qv) (j : nat) : (j < length grid)%nat -> ~ In (Z.of_nat j) (prune_with q grid) ->
  forall a, In a atoms -> cut * cut < d2 a (nth j grid qvz) * ((1 + eps) * (1 + eps)).
Proof.
  intros Hj Hn. apply q_complete. destruct (q (nth j grid qvz)) eqn:E; [|reflexivity].
  exfalso. apply Hn. unfold prune_with. rewrite (filter_idx_from_spec q qvz). exists j. split; [lia | split; [exact Hj | exact E]].
Qed.

Theorem prune_increasing (grid : list qv) : increasing_from 0 (prune_with q grid) = true.
Proof. apply filter_idx_from_increasing. lia. Qed.
End Prune.

(* the hypotheses are satisfiable: the exact query (eps = 0) meets the contract *)
Lemma within_iff (atoms : list qv) (t : Q) (g : qv) : within atoms t g = true <-> exists a, In a atoms /\ d2 a g <= t.
Proof.
  unfold within. rewrite existsb_exists. split; intros [a [Ha H]]; exists a; (split; [exact Ha|]); apply Qle_bool_iff, H.
Qed.

Theorem prune_exact_correct (atoms : list qv) (cut : Q) (grid : list qv) (j : nat) : (j < length grid)%nat ->
  (In (Z.of_nat j) (prune_exact atoms cut grid) <-> exists a, In a atoms /\ d2 a (nth j grid qvz) <= cut * cut).
Proof.
  intros Hj. unfold prune_exact, prune_with. rewrite (filter_idx_from_spec _ qvz). rewrite <- within_iff. split.
  - intros [j' [E [_ H]]]. assert (j' = j) by lia. now subst.
  - intros H. exists j. split; [lia | split; [exact Hj | exact H]].
Qed.

(* meaning of the acceptance test on an observed index list *)
Lemma memZ_iff (x : Z) (l : list Z) : memZ x l = true <-> In x l.
Proof.
  induction l as [|y l IH]; simpl; [split; [discriminate | intros []]|].
  rewrite orb_true_iff, IH, Z.eqb_eq. split; intros [H|H]; auto.
Qed.

Lemma combine_seq_nth {A} (d : A) (l : list A) : forall k j, (j < length l)%nat ->
  In (Z.of_nat (k + j), nth j l d) (combine (map Z.of_nat (seq k (length l))) l).
Proof.
  induction l as [|x l IH]; intros k j Hj; simpl in *; [lia|].
  destruct j as [|j]; [left; now rewrite Nat.add_0_r|].
  right. replace (k + S j)%nat with (S k + j)%nat by lia. apply IH. lia.
Qed.

Theorem prune_okb_sound (band : Q) (atoms : list qv) (cut eps : Q) (grid : list qv) (kept : list Z) :
  prune_okb band atoms cut eps grid kept = true ->
  increasing_from 0 kept = true /\ (forall i, In i kept -> (i < Z.of_nat (length grid))%Z) /\
  forall j, (j < length grid)%nat ->
    (In (Z.of_nat j) kept -> exists a, In a atoms /\ d2 a (nth j grid qvz) <= cut * cut * (1 + band)) /\
    (~ In (Z.of_nat j) kept -> forall a, In a atoms -> cut * cut * (1 - band) <= d2 a (nth j grid qvz) * ((1 + eps) * (1 + eps))).
Proof.
  unfold prune_okb. intros H. apply andb_prop in H as [H H3]. apply andb_prop in H as [H1 H2].
  split; [exact H1|]. split.
  - intros i Hi. rewrite forallb_forall in H2. specialize (H2 i Hi). lia.
  - intros j Hj. rewrite forallb_forall in H3.
    specialize (H3 _ (combine_seq_nth qvz grid 0 j Hj)). simpl in H3.
    destruct (memZ (Z.of_nat j) kept) eqn:E.
    + split; [intros _; apply within_iff, H3|]. intros Hn. exfalso. apply Hn, memZ_iff, E.
    + split; [intros Hin; apply memZ_iff in Hin; congruence|].
      intros _ a Ha. rewrite forallb_forall in H3. apply Qle_bool_iff, H3, Ha.
Qed.

(* ------------------------------------------------------------------ aso / aeif *)
Lemma inside_iff (atoms : list qv) (radii : list Q) (g : qv) :
  inside atoms radii g = true <-> exists a r, In (a, r) (combine atoms radii) /\ d2 a g <= r * r.
Proof.
  unfold inside. rewrite existsb_exists. split.
  - intros [[a r] [Hin H]]. exists a, r. split; [exact Hin | apply Qle_bool_iff, H].
  - intros [a [r [Hin H]]]. exists (a, r). split; [exact Hin | apply Qle_bool_iff, H].
Qed.

Lemma qsum_plain (l : list Q) : qsum l == fold_right Qplus 0 l.
Proof. unfold qsum. induction l as [|x l IH]; cbn [fold_right]; [reflexivity|]. rewrite Qred_correct, IH. reflexivity. Qed.

Fixpoint dotw (w x : list Q) : Q := match w, x with a :: w', b :: x' => a * b + dotw w' x' | _, _ => 0 end.
Lemma qsum_zipmul (w x : list Q) : qsum (zipmul w x) == dotw w x.
Proof.
  revert x. induction w as [|a w IH]; intros [|b x]; cbn [zipmul dotw]; try reflexivity.
  unfold qsum in *. cbn [fold_right]. rewrite !Qred_correct, IH. reflexivity.
Qed.

(* np.average: the plain mean, resp. sum_c w_c x_c / sum_c w_c *)
Theorem average_spec (w : option (list Q)) (xs : list Q) :
  average w xs == match w with
                  | None => fold_right Qplus 0 xs / inject_Z (Z.of_nat (length xs))
                  | Some ws => dotw ws xs / fold_right Qplus 0 ws
                  end.
Proof. destruct w as [ws|]; simpl; [rewrite qsum_zipmul, qsum_plain | rewrite qsum_plain]; reflexivity. Qed.

Lemma sum_b2q (bs : list bool) : fold_right Qplus 0 (map b2q bs) == inject_Z (Z.of_nat (length (filter (fun b => b) bs))).
Proof.
  induction bs as [|b bs IH]; simpl; [reflexivity|]. rewrite IH. destruct b; simpl.
  - rewrite Zpos_P_of_succ_nat, <- Nat2Z.inj_succ. rewrite Nat2Z.inj_succ. unfold Z.succ. rewrite inject_Z_plus. ring.
  - ring.
Qed.

Theorem aso_length (ens : list (list qv)) (radii : list Q) (w : option (list Q)) (grid : list qv) :
  length (aso ens radii w grid) = length grid.
Proof. apply map_length. Qed.

(* aso at grid point k = (weighted) conformer average of the occupancy indicator of the sphere union *)
Theorem aso_nth (ens : list (list qv)) (radii : list Q) (w : option (list Q)) (grid : list qv) (k : nat) :
  (k < length grid)%nat ->
  nth k (aso ens radii w grid) 0 = average w (map (fun atoms => b2q (inside atoms radii (nth k grid qvz))) ens).
Proof.
  intros Hk. unfold aso.
  rewrite (nth_indep _ 0 (average w (map (fun atoms => b2q (inside atoms radii qvz)) ens))) by (rewrite map_length; exact Hk).
  apply (map_nth (fun g => average w (map (fun atoms => b2q (inside atoms radii g)) ens))).
Qed.

(* unweighted: the fraction of conformers whose van der Waals union contains the point *)
Theorem aso_fraction (ens : list (list qv)) (radii : list Q) (grid : list qv) (k : nat) : (k < length grid)%nat ->
  nth k (aso ens radii None grid) 0 ==
  inject_Z (Z.of_nat (length (filter (fun atoms => inside atoms radii (nth k grid qvz)) ens))) / inject_Z (Z.of_nat (length ens)).
Proof.
  intros Hk. rewrite aso_nth by exact Hk. rewrite average_spec. rewrite map_length.
  rewrite <- (map_map (fun atoms => inside atoms radii (nth k grid qvz)) b2q), sum_b2q.
  assert (E : forall (l : list (list qv)) f, length (filter (fun b : bool => b) (map f l)) = length (filter f l)).
  { induction l as [|x l IH]; intros f; simpl; [reflexivity|]. destruct (f x); simpl; now rewrite IH. }
  rewrite E. reflexivity.
Qed.

Lemma aif_from_length ens radii values idx w (grid : list qv) : forall k0, length (aif_from ens radii values idx w k0 grid) = length grid.
Proof. induction grid as [|g r IH]; intros k0; simpl; [reflexivity | now rewrite IH]. Qed.

Lemma aif_from_nth ens radii values idx w (grid : list qv) : forall k0 k, (k < length grid)%nat ->
  nth k (aif_from ens radii values idx w k0 grid) 0 = average w (field_rows ens radii values idx (k0 + k) (nth k grid qvz)).
Proof.
  induction grid as [|g r IH]; intros k0 k Hk; simpl in Hk; [lia|].
  destruct k as [|k]; simpl.
  - now rewrite Nat.add_0_r.
  - rewrite IH by lia. replace (S k0 + k)%nat with (k0 + S k)%nat by lia. reflexivity.
Qed.

Theorem aif_length ens radii values idx w (grid : list qv) : length (aif ens radii values idx w grid) = length grid.
Proof. apply aif_from_length. Qed.

(* the indicator field at grid point k = (weighted) conformer average of the per-conformer values *)
Theorem aif_nth ens radii values idx w (grid : list qv) (k : nat) : (k < length grid)%nat ->
  nth k (aif ens radii values idx w grid) 0 = average w (field_rows ens radii values idx k (nth k grid qvz)).
Proof. intros Hk. unfold aif. now rewrite aif_from_nth. Qed.

(* conformer c contributes field_value of ITS atoms, values and index row *)
Lemma field_rows_nth (radii : list Q) (k : nat) (g : qv) (ens : list (list qv)) : forall (values : list (list Q)) (idx : list (list Z)) (c : nat),
  (c < length ens)%nat -> (c < length values)%nat -> (c < length idx)%nat ->
  nth c (field_rows ens radii values idx k g) 0 =
  field_value (nth c ens []) radii (nth c values []) (nth k (nth c idx []) (-1)%Z) g.
Proof.
  induction ens as [|atoms ens IH]; intros [|v values] [|ix idx] c H1 H2 H3; simpl in *; try lia.
  destruct c as [|c]; [reflexivity|]. apply IH; lia.
Qed.
Lemma field_rows_length (radii : list Q) (k : nat) (g : qv) (ens : list (list qv)) : forall (values : list (list Q)) (idx : list (list Z)),
  length values = length ens -> length idx = length ens -> length (field_rows ens radii values idx k g) = length ens.
Proof.
  induction ens as [|atoms ens IH]; intros [|v values] [|ix idx] H1 H2; simpl in *; try lia.
  rewrite IH; lia.
Qed.

(* With the cut-off at least every radius, a point inside the union always has a named nearest atom: the value is
   the value (partial charge) of a closest atom inside the van der Waals union and 0 outside. *)
Theorem field_value_spec (atoms : list qv) (radii values : list Q) (cut : Q) (g : qv) (r : Z) :
  (forall a rad, In (a, rad) (combine atoms radii) -> 0 <= rad /\ rad <= cut) ->
  nearest_spec atoms cut g r ->
  field_value atoms radii values r g = (if inside atoms radii g then nth (Z.to_nat r) values 0 else 0) /\
  (inside atoms radii g = true -> (0 <= r)%Z).
Proof.
  intros Hrad Hn. unfold field_value.
  destruct (inside atoms radii g) eqn:E; [|split; [reflexivity | discriminate]].
  apply inside_iff in E as [a [rad [Hin Hd]]]. destruct (Hrad a rad Hin) as [H0 H1].
  assert (Hc : rad * rad <= cut * cut) by nra.
  destruct Hn as [[_ Hfar]|[i [-> _]]].
  - exfalso. specialize (Hfar a (in_combine_l _ _ _ _ Hin)). lra.
  - assert (E2 : (0 <=? Z.of_nat i)%Z = true) by lia. rewrite E2. split; [reflexivity | lia].
Qed.

(* ------------------------------------------------------------------ rectangular_grid, assembled *)
Theorem rectangular_grid_correct (r1 r2 : qv) (pad s : Q) : 0 < s -> box_ok r1 r2 pad ->
  exists g, rectangular_grid r1 r2 pad s = Some g /\
  let '(xs, ys, zs) := grid_axes r1 r2 pad s in
  length g = (length xs * length ys * length zs)%nat /\
  (forall x y z, In (x, y, z) g <-> In x xs /\ In y ys /\ In z zs) /\
  NoDup g /\
  (forall i j k, (i < length xs)%nat -> (j < length ys)%nat -> (k < length zs)%nat ->
     nth ((j * length xs + i) * length zs + k) g qvz = (nth i xs 0, nth j ys 0, nth k zs 0)).
Proof.
  intros Hs Hbox. eexists. split; [apply rectangular_grid_some; assumption|].
  destruct r1 as [[a1 a2] a3], r2 as [[b1 b2] b3]. destruct Hbox as [H1 [H2 H3]]. cbn [grid_axes].
  split; [rewrite mesh_length; lia|]. split; [intros; apply in_mesh|].
  split; [apply mesh_NoDup; apply axis_NoDup; assumption|].
  intros; apply mesh_nth; assumption.
Qed.

(* every grid point lies in the padded box *)
Theorem rectangular_grid_contained (r1 r2 : qv) (pad s : Q) (g : list qv) (p : qv) : 0 < s -> box_ok r1 r2 pad ->
  rectangular_grid r1 r2 pad s = Some g -> In p g ->
  let '(a1, a2, a3) := r1 in let '(b1, b2, b3) := r2 in let '(x, y, z) := p in
  (a1 - pad <= x /\ x <= b1 + pad) /\ (a2 - pad <= y /\ y <= b2 + pad) /\ (a3 - pad <= z /\ z <= b3 + pad).
Proof.
  intros Hs Hbox Hg Hp. rewrite rectangular_grid_some in Hg by assumption. injection Hg as <-.
  destruct r1 as [[a1 a2] a3], r2 as [[b1 b2] b3], p as [[x y] z]. destruct Hbox as [H1 [H2 H3]]. cbn [grid_axes] in Hp.
  apply in_mesh in Hp as [Hx [Hy Hz]].
  split; [exact (axis_contained _ _ s x Hs H1 Hx) | split; [exact (axis_contained _ _ s y Hs H2 Hy) | exact (axis_contained _ _ s z Hs H3 Hz)]].
Qed.

(* non-positive sample counts: numpy raises for a negative count (modelled as None) *)
Lemma axis_none (l r s : Q) : axis l r s = None <-> (axis_n l r s < 0)%Z.
Proof. unfold axis. destruct (axis_n l r s <? 0)%Z eqn:E; split; intros H; try discriminate; try reflexivity; lia. Qed.

(* ================================================================== large grids: blocks, samples, single points *)

(* ------------------------------------------------------------------ blocks *)
Lemma chunks_fuel_nil {A} (fuel step : nat) : @chunks_fuel A fuel step [] = [].
Proof. destruct fuel; reflexivity. Qed.

Lemma chunks_fuel_cons {A} (f step : nat) (x : A) (l : list A) :
  chunks_fuel (S f) step (x :: l) = firstn step (x :: l) :: chunks_fuel f step (skipn step (x :: l)).
Proof. reflexivity. Qed.

Lemma chunks_fuel_concat {A} (step : nat) : (0 < step)%nat ->
  forall fuel (l : list A), (length l <= fuel)%nat -> concat (chunks_fuel fuel step l) = l.
Proof.
  intros Hs. induction fuel as [|f IH]; intros l Hl.
  - destruct l; [reflexivity | simpl in Hl; lia].
  - destruct l as [|x l']; [reflexivity|].
    rewrite chunks_fuel_cons. cbn [concat]. rewrite IH; [apply firstn_skipn|].
    rewrite skipn_length. cbn [length] in Hl |- *. lia.
Qed.

Theorem chunks_concat {A} (step : nat) (l : list A) : (0 < step)%nat -> concat (chunks step l) = l.
Proof. intros Hs. apply chunks_fuel_concat; [exact Hs | apply Nat.le_refl]. Qed.

Lemma chunks_fuel_blocks {A} (step : nat) : (0 < step)%nat ->
  forall fuel (l : list A), Forall (fun b => b <> [] /\ (length b <= step)%nat) (chunks_fuel fuel step l).
Proof.
  intros Hs. induction fuel as [|f IH]; intros l; [constructor|].
  destruct l as [|x l']; [constructor|].
  rewrite chunks_fuel_cons. constructor; [|apply IH].
  split; [destruct step; [lia | discriminate] | apply firstn_le_length].
Qed.

(* number of blocks = ceil(length / step): the partial last block counts *)
Lemma chunks_fuel_count {A} (step : nat) : (0 < step)%nat ->
  forall fuel (l : list A), (length l <= fuel)%nat -> length (chunks_fuel fuel step l) = ((length l + (step - 1)) / step)%nat.
Proof.
  intros Hs. induction fuel as [|f IH]; intros l Hl.
  - destruct l; [|simpl in Hl; lia]. simpl. symmetry. apply Nat.div_small. lia.
  - destruct l as [|x l']; [simpl; symmetry; apply Nat.div_small; lia|].
    rewrite chunks_fuel_cons. cbn [length]. rewrite IH by (rewrite skipn_length; cbn [length] in Hl |- *; lia).
    rewrite skipn_length. cbn [length]. set (n := S (length l')). assert (Hn : (1 <= n)%nat) by (subst n; lia).
    destruct (Nat.le_gt_cases n step) as [Hle|Hgt].
    + replace (n - step)%nat with O by lia. rewrite Nat.div_small by lia.
      rewrite <- (Nat.div_unique (n + (step - 1)) step 1 (n - 1)); lia.
    + replace (n + (step - 1))%nat with ((n - step + (step - 1)) + 1 * step)%nat by lia.
      rewrite Nat.div_add by lia. lia.
Qed.

Theorem chunks_count {A} (step : nat) (l : list A) : (0 < step)%nat ->
  length (chunks step l) = ((length l + (step - 1)) / step)%nat.
Proof. intros Hs. apply chunks_fuel_count; [exact Hs | apply Nat.le_refl]. Qed.

(* ---- every descriptor distributes over concatenation of grids *)
Lemma aso_app ens radii w (g1 g2 : list qv) : aso ens radii w (g1 ++ g2) = aso ens radii w g1 ++ aso ens radii w g2.
Proof. apply map_app. Qed.

Lemma aso_blocks_concat ens radii w (blocks : list (list qv)) : aso_blocks ens radii w blocks = aso ens radii w (concat blocks).
Proof.
  unfold aso_blocks. induction blocks as [|b r IH]; [reflexivity|].
  cbn [flat_map concat]. now rewrite aso_app, IH.
Qed.

Lemma nearest_blocks_concat atoms cut (blocks : list (list qv)) :
  nearest_blocks atoms cut blocks = map (nearest atoms cut) (concat blocks).
Proof.
  unfold nearest_blocks. induction blocks as [|b r IH]; [reflexivity|].
  cbn [flat_map concat]. now rewrite map_app, IH.
Qed.

Lemma filter_idx_from_app {A} (p : A -> bool) (l1 l2 : list A) : forall i,
  filter_idx_from p i (l1 ++ l2) = filter_idx_from p i l1 ++ filter_idx_from p (i + Z.of_nat (length l1)) l2.
Proof.
  induction l1 as [|x l1 IH]; intros i.
  - simpl. now rewrite Z.add_0_r.
  - cbn [app filter_idx_from length]. rewrite IH.
    replace (i + 1 + Z.of_nat (length l1))%Z with (i + Z.of_nat (S (length l1)))%Z by lia.
    destruct (p x); reflexivity.
Qed.

Lemma prune_blocks_concat (q : qv -> bool) (blocks : list (list qv)) : forall off,
  prune_blocks q off blocks = filter_idx_from q off (concat blocks).
Proof.
  induction blocks as [|b r IH]; intros off; [reflexivity|].
  cbn [prune_blocks concat]. now rewrite filter_idx_from_app, IH.
Qed.

Lemma aif_from_app ens radii values idx w (g1 g2 : list qv) : forall k,
  aif_from ens radii values idx w k (g1 ++ g2) =
  aif_from ens radii values idx w k g1 ++ aif_from ens radii values idx w (k + length g1) g2.
Proof.
  induction g1 as [|g g1 IH]; intros k.
  - simpl. now rewrite Nat.add_0_r.
  - cbn [app aif_from length]. rewrite IH. replace (S k + length g1)%nat with (k + S (length g1))%nat by lia. reflexivity.
Qed.

Lemma aif_blocks_concat ens radii values idx w (blocks : list (list qv)) : forall k,
  aif_blocks ens radii values idx w k blocks = aif_from ens radii values idx w k (concat blocks).
Proof.
  induction blocks as [|b r IH]; intros k; [reflexivity|].
  cbn [aif_blocks concat]. now rewrite aif_from_app, IH.
Qed.

(* walking the grid in blocks of ANY length step > 0 (partial last block included) = evaluating it in one piece *)
Theorem blockwise (step : nat) (grid : list qv) : (0 < step)%nat ->
  (forall ens radii w, aso_blocks ens radii w (chunks step grid) = aso ens radii w grid) /\
  (forall atoms cut, nearest_blocks atoms cut (chunks step grid) = map (nearest atoms cut) grid) /\
  (forall q, prune_blocks q 0 (chunks step grid) = prune_with q grid) /\
  (forall ens radii values idx w, aif_blocks ens radii values idx w 0 (chunks step grid) = aif ens radii values idx w grid).
Proof.
  intros Hs. repeat split; intros.
  - now rewrite aso_blocks_concat, chunks_concat.
  - now rewrite nearest_blocks_concat, chunks_concat.
  - now rewrite prune_blocks_concat, chunks_concat.
  - now rewrite aif_blocks_concat, chunks_concat.
Qed.

(* the values at a selection of grid points = the descriptor of the selected points (what a sampled comparison of a
   large grid checks) *)
Theorem aso_sample ens radii w (grid : list qv) (ks : list nat) : Forall (fun k => (k < length grid)%nat) ks ->
  map (fun k => nth k (aso ens radii w grid) 0) ks = aso ens radii w (map (fun k => nth k grid qvz) ks).
Proof.
  intros H. unfold aso at 2. rewrite map_map. apply map_ext_in. intros k Hk.
  rewrite Forall_forall in H. now rewrite aso_nth by (apply H; exact Hk).
Qed.

Theorem nearest_sample atoms cut (grid : list qv) (ks : list nat) : Forall (fun k => (k < length grid)%nat) ks ->
  map (fun k => nth k (map (nearest atoms cut) grid) (-1)%Z) ks = map (nearest atoms cut) (map (fun k => nth k grid qvz) ks).
Proof.
  intros H. rewrite map_map. apply map_ext_in. intros k Hk. rewrite Forall_forall in H.
  rewrite (nth_indep _ (-1)%Z (nearest atoms cut qvz)) by (rewrite map_length; apply H; exact Hk).
  apply (map_nth (nearest atoms cut)).
Qed.

(* ------------------------------------------------------------------ grid_at *)
Lemma mesh_at_correct (xs ys zs : list Q) (n : nat) : (n < length (mesh xs ys zs))%nat ->
  mesh_at xs ys zs (Z.of_nat n) = Some (nth n (mesh xs ys zs) qvz).
Proof.
  rewrite mesh_length. intros Hn. unfold mesh_at.
  remember (length xs) as nx eqn:Enx. remember (length ys) as ny eqn:Eny. remember (length zs) as nz eqn:Enz.
  assert (Hz : (0 < nz)%nat) by (destruct nz; [rewrite !Nat.mul_0_r in Hn; lia | lia]).
  assert (Hx : (0 < nx)%nat) by (destruct nx; [rewrite Nat.mul_0_l, Nat.mul_0_r in Hn; lia | lia]).
  assert (E : ((0 <=? Z.of_nat n) && (Z.of_nat n <? Z.of_nat ny * (Z.of_nat nx * Z.of_nat nz)))%Z = true).
  { rewrite <- !Nat2Z.inj_mul. apply andb_true_intro. split; lia. }
  rewrite E.
  rewrite <- !Nat2Z.inj_div, <- !Nat2Z.inj_mod, !Nat2Z.id.
  set (k := (n mod nz)%nat). set (m := (n / nz)%nat). set (i := (m mod nx)%nat). set (j := (m / nx)%nat).
  assert (E1 : n = (nz * m + k)%nat) by (apply Nat.div_mod; lia).
  assert (E2 : m = (nx * j + i)%nat) by (apply Nat.div_mod; lia).
  assert (Hk : (k < nz)%nat) by (apply Nat.mod_upper_bound; lia).
  assert (Hi : (i < nx)%nat) by (apply Nat.mod_upper_bound; lia).
  clearbody k m i j. subst m.
  assert (Hj : (j < ny)%nat).
  { destruct (Nat.lt_ge_cases j ny) as [H|H]; [exact H | exfalso].
    assert (nx * ny <= nx * j)%nat by (apply Nat.mul_le_mono_l; exact H).
    assert (nz * (nx * ny) <= nz * (nx * j + i))%nat by (apply Nat.mul_le_mono_l; lia).
    replace (ny * (nx * nz))%nat with (nz * (nx * ny))%nat in Hn by ring. lia. }
  replace n with ((j * nx + i) * nz + k)%nat at 1 by (rewrite E1; ring).
  subst nx ny nz. apply f_equal. symmetry. apply mesh_nth; assumption.
Qed.

Theorem grid_at_correct (r1 r2 : qv) (pad s : Q) (g : list qv) (n : nat) :
  rectangular_grid r1 r2 pad s = Some g -> (n < length g)%nat ->
  grid_at r1 r2 pad s (Z.of_nat n) = Some (nth n g qvz) /\ grid_count r1 r2 pad s = Some (Z.of_nat (length g)).
Proof.
  destruct r1 as [[a1 a2] a3], r2 as [[b1 b2] b3]. unfold rectangular_grid, grid_at, grid_count, grid_dims.
  destruct (axis (a1 - pad) (b1 + pad) s) as [xs|]; [|discriminate].
  destruct (axis (a2 - pad) (b2 + pad) s) as [ys|]; [|discriminate].
  destruct (axis (a3 - pad) (b3 + pad) s) as [zs|]; [|discriminate].
  intros E Hn. injection E as <-. split; [apply mesh_at_correct; exact Hn|].
  rewrite mesh_length. f_equal. lia.
Qed.

(* a box grown around ONE point c (both corners equal): floor(2*padding/spacing) + 1 samples on the axis *)
Lemma axis_n_point (c p s : Q) : axis_n (c - p) (c + p) s = (Qfloor (2 * p / s) + 1)%Z.
Proof.
  unfold axis_n. f_equal. apply Qfloor_comp. unfold Qdiv. ring.
Qed.
