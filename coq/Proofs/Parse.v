(* C10: theorems about the reader state machines of Model/Parse.v.

   Well-formedness of a text is stated SEMANTICALLY, through the readers' own classifiers: an xyz text is
   well formed when it is a concatenation of blocks [count line; comment line; n atom lines] where int()
   accepts the count line with value n and every atom line is accepted by the atom-line parser.  So the
   theorems cover every such text (bundled files included), not only the ones molli writes; Proofs/XyzText.v
   shows that what the writer model emits is well formed in this sense. *)
From Coq Require Import List Bool Arith NArith ZArith Ascii String Lia.
From Molli Require Import Common.ParseStr Common.ParseStrFacts Model.Parse.
Import ListNotations.
Local Open Scope list_scope.

(* ================================================================= generic list facts *)
Lemma del_nth_app_l {A} (a b : list A) i : (i < List.length a)%nat -> del_nth i (a ++ b) = del_nth i a ++ b.
Proof.
  revert i. induction a as [|x a IH]; intros i H; simpl in *; [lia|]. destruct i; [reflexivity|].
  simpl. f_equal. apply IH. lia.
Qed.
Lemma del_nth_app_r {A} (a b : list A) i : del_nth (List.length a + i) (a ++ b) = a ++ del_nth i b.
Proof. induction a as [|x a IH]; simpl; [reflexivity|]. now rewrite IH. Qed.
Lemma dup_nth_app_l {A} (a b : list A) i : (i < List.length a)%nat -> dup_nth i (a ++ b) = dup_nth i a ++ b.
Proof.
  revert i. induction a as [|x a IH]; intros i H; simpl in *; [lia|]. destruct i; [reflexivity|].
  simpl. f_equal. apply IH. lia.
Qed.
Lemma dup_nth_app_r {A} (a b : list A) i : dup_nth (List.length a + i) (a ++ b) = a ++ dup_nth i b.
Proof. induction a as [|x a IH]; simpl; [reflexivity|]. now rewrite IH. Qed.
Lemma del_nth_length {A} (l : list A) i : (i < List.length l)%nat -> S (List.length (del_nth i l)) = List.length l.
Proof.
  revert i. induction l as [|x l IH]; intros i H; simpl in *; [lia|]. destruct i; [reflexivity|]. simpl. rewrite IH; lia.
Qed.
Lemma dup_nth_length {A} (l : list A) i : (i < List.length l)%nat -> List.length (dup_nth i l) = S (List.length l).
Proof.
  revert i. induction l as [|x l IH]; intros i H; simpl in *; [lia|]. destruct i; [reflexivity|]. simpl. rewrite IH; lia.
Qed.
Lemma del_nth_Forall {A} (P : A -> Prop) l i : Forall P l -> Forall P (del_nth i l).
Proof.
  revert i. induction l as [|x l IH]; intros i H; [destruct i; constructor|].
  inversion H; subst. destruct i; simpl; [assumption|]. constructor; auto.
Qed.
Lemma dup_nth_Forall {A} (P : A -> Prop) l i : Forall P l -> Forall P (dup_nth i l).
Proof.
  revert i. induction l as [|x l IH]; intros i H; [destruct i; constructor|].
  inversion H; subst. destruct i; simpl; [repeat constructor; assumption|]. constructor; auto.
Qed.
Lemma skipn_Forall {A} (P : A -> Prop) l n : Forall P l -> Forall P (skipn n l).
Proof.
  revert n. induction l as [|x l IH]; intros n H; [destruct n; constructor|].
  destruct n; simpl; [assumption|]. inversion H; subst. auto.
Qed.

Lemma Forall_firstn' {A} (P : A -> Prop) l n : Forall P l -> Forall P (firstn n l).
Proof.
  revert n. induction l as [|x l IH]; intros n H; [destruct n; constructor|].
  destruct n; simpl; [constructor|]. inversion H; subst. constructor; auto.
Qed.
Lemma Forall2_length {A B} {R : A -> B -> Prop} {l1 l2} : Forall2 R l1 l2 -> List.length l1 = List.length l2.
Proof. induction 1; simpl; congruence. Qed.

(* ================================================================= xyz *)
Definition xvalid (l : str) : Prop := exists a, xyz_atom l = Some a.

(* int() accepts only one-token lines, the atom parser only four-token lines *)
Lemma count_not_atom l z : parse_int l = Some z -> xyz_atom l = None.
Proof.
  intros H. destruct (parse_int_one_token l z H) as [t Ht]. unfold xyz_atom. now rewrite Ht.
Qed.
Lemma atom_not_count l : xvalid l -> parse_int l = None.
Proof.
  intros [a Ha]. destruct (parse_int l) as [z|] eqn:E; [|reflexivity].
  rewrite (count_not_atom l z E) in Ha. discriminate.
Qed.

(* P: extra condition on the comment line (True for the round trip / truncation; "not an integer" for
   deletion / duplication, see xyz_comment_needed below for why it cannot be dropped) *)
Inductive xwf (P : str -> Prop) : xblock -> list str -> Prop :=
| xwf_intro cl cm als n atoms :
    parse_int cl = Some n -> n = Z.of_nat (List.length atoms) ->
    Forall2 (fun l a => xyz_atom l = Some a) als atoms -> P cm ->
    xwf P (mk_xblock n (strip cm) atoms) (cl :: cm :: als).
Inductive xwf_text (P : str -> Prop) : list xblock -> list str -> Prop :=
| xwt_nil : xwf_text P [] []
| xwt_cons b bs l ls : xwf P b l -> xwf_text P bs ls -> xwf_text P (b :: bs) (l ++ ls).

Definition any_comment (_ : str) : Prop := True.
Definition comment_ok (cm : str) : Prop := parse_int cm = None.

Lemma xwf_weaken P b l : xwf P b l -> xwf any_comment b l.
Proof. intros H. destruct H. constructor; auto. exact I. Qed.
Lemma xwf_text_weaken P bs ls : xwf_text P bs ls -> xwf_text any_comment bs ls.
Proof. induction 1; constructor; eauto using xwf_weaken. Qed.

Lemma xrun_app st a b : xrun st (a ++ b) = xrun (xrun st a) b.
Proof. unfold xrun. apply fold_left_app. Qed.
Lemma xrun_fail e ls : xrun (XFail e) ls = XFail e.
Proof. induction ls as [|l ls IH]; [reflexivity|]. exact IH. Qed.
Lemma xrun_cons st l ls : xrun st (l :: ls) = xrun (xstep st l) ls.
Proof. reflexivity. Qed.

Lemma Forall2_valid als atoms : Forall2 (fun l a => xyz_atom l = Some a) als atoms -> Forall xvalid als.
Proof. induction 1; constructor; [eexists; eassumption|assumption]. Qed.

(* todo valid atom lines complete the block (content irrelevant here) *)
Lemma xatoms_complete n c out V : Forall xvalid V -> forall todo acc,
  (1 <= todo)%N -> (todo <= N.of_nat (List.length V))%N ->
  exists B, forall rest, xrun (XRun (XAtoms n c todo acc) out) (V ++ rest)
                         = xrun (XRun XCount (B :: out)) (skipn (N.to_nat todo) V ++ rest).
Proof.
  induction 1 as [|l V [a Ha] HV IH]; intros todo acc H1 H2; [simpl in H2; lia|].
  destruct (N.leb_spec todo 1) as [Hle|Hgt].
  - assert (todo = 1%N) by lia. subst todo. exists (mk_xblock n c (rev (a :: acc))). intros rest.
    simpl app. rewrite xrun_cons. cbn [xstep]. rewrite Ha. reflexivity.
  - destruct (IH (todo - 1)%N (a :: acc)) as [B HB]; [lia|simpl in H2; lia|]. exists B. intros rest.
    simpl app. rewrite xrun_cons. cbn [xstep]. rewrite Ha.
    destruct (N.leb_spec todo 1); [lia|]. rewrite HB.
    replace (N.to_nat todo) with (S (N.to_nat (todo - 1))) by lia. reflexivity.
Qed.
(* exact content when the lines are the block's own *)
Lemma xatoms_exact n c out als atoms : Forall2 (fun l a => xyz_atom l = Some a) als atoms -> als <> [] ->
  forall acc rest, xrun (XRun (XAtoms n c (N.of_nat (List.length als)) acc) out) (als ++ rest)
                   = xrun (XRun XCount (mk_xblock n c (rev acc ++ atoms) :: out)) rest.
Proof.
  induction 1 as [|l a als atoms Ha HF IH]; intros Hne acc rest; [contradiction|].
  simpl app. rewrite xrun_cons. cbn [xstep]. rewrite Ha.
  destruct als as [|l2 als].
  - inversion HF; subst. reflexivity.
  - change (List.length (l :: l2 :: als)) with (S (S (List.length als))).
    destruct (N.leb_spec (N.of_nat (S (S (List.length als)))) 1) as [Hle|Hgt]; [lia|].
    replace (N.of_nat (S (S (List.length als))) - 1)%N with (N.of_nat (List.length (l2 :: als))) by (cbn [List.length]; lia).
    rewrite IH by discriminate. simpl. now rewrite <- app_assoc.
Qed.
(* fewer valid lines than owed: still inside the loop *)
Lemma xatoms_short n c out V : Forall xvalid V -> forall todo acc,
  (N.of_nat (List.length V) < todo)%N ->
  exists acc', xrun (XRun (XAtoms n c todo acc) out) V = XRun (XAtoms n c (todo - N.of_nat (List.length V)) acc') out.
Proof.
  induction 1 as [|l V [a Ha] HV IH]; intros todo acc H.
  - exists acc. simpl. now rewrite N.sub_0_r.
  - rewrite xrun_cons. cbn [xstep]. rewrite Ha. destruct (N.leb_spec todo 1); [simpl in H; lia|].
    destruct (IH (todo - 1)%N (a :: acc)) as [acc' E]; [simpl in H; lia|]. exists acc'. rewrite E.
    f_equal. f_equal. simpl List.length. lia.
Qed.

Lemma xwf_length P b l : xwf P b l -> List.length l = (2 + List.length (xb_atoms b))%nat.
Proof. intros H. destruct H as [cl cm als n atoms _ _ HF _]. simpl. f_equal. f_equal. eapply Forall2_length; eauto. Qed.

(* one whole block *)
Lemma xrun_block P b l out rest : xwf P b l ->
  xrun (XRun XCount out) (l ++ rest) = xrun (XRun XCount (b :: out)) rest.
Proof.
  intros H. destruct H as [cl cm als n atoms Hc Hn HF _].
  simpl app. rewrite !xrun_cons. cbn [xstep]. rewrite Hc. cbn [xstep].
  pose proof (Forall2_length HF) as Hlen.
  destruct atoms as [|a atoms].
  - destruct als; [|discriminate]. subst n. reflexivity.
  - destruct (Z.leb_spec n 0) as [Hle|Hgt]; [simpl in Hn; lia|].
    replace (Z.to_N n) with (N.of_nat (List.length als)) by (rewrite Hlen; lia).
    rewrite (xatoms_exact n (strip cm) out als (a :: atoms) HF); [reflexivity|]. destruct als; [discriminate|discriminate].
Qed.
Lemma xrun_text P bs ls : xwf_text P bs ls -> forall out rest,
  xrun (XRun XCount out) (ls ++ rest) = xrun (XRun XCount (rev bs ++ out)) rest.
Proof.
  induction 1 as [|b bs l ls Hb Ht IH]; intros out rest; [reflexivity|].
  rewrite <- app_assoc. rewrite (xrun_block P b l out _ Hb). rewrite IH. simpl. now rewrite <- app_assoc.
Qed.

(* ---- round trip *)
Theorem read_xyz_wf P bs ls : xwf_text P bs ls -> read_xyz ls = Ok bs.
Proof.
  intros H. unfold read_xyz, xinit. rewrite <- (app_nil_r ls). rewrite (xrun_text P bs ls H). simpl.
  now rewrite app_nil_r, rev_involutive.
Qed.

(* ---- truncation at a line boundary *)
Lemma xblock_prefix_eof P b l out k : xwf P b l -> (0 < k)%nat -> (k < List.length l)%nat ->
  xfinish (xrun (XRun XCount out) (firstn k l)) = Err EEof.
Proof.
  intros H Hk0 Hk. destruct H as [cl cm als n atoms Hc Hn HF _].
  destruct k as [|k]; [lia|]. simpl firstn. rewrite xrun_cons. cbn [xstep]. rewrite Hc.
  destruct k as [|k]; [reflexivity|]. simpl firstn. rewrite xrun_cons. cbn [xstep].
  pose proof (Forall2_length HF) as Hlen. simpl in Hk.
  destruct (Z.leb_spec n 0) as [Hle|Hgt]; [lia|].
  destruct (xatoms_short n (strip cm) out (firstn k als)) with (todo := Z.to_N n) (acc := @nil xatom) as [acc' E].
  - apply Forall_firstn'. eapply Forall2_valid; eauto.
  - rewrite firstn_length. lia.
  - rewrite E. reflexivity.
Qed.

Theorem read_xyz_truncated P bs ls : xwf_text P bs ls -> forall k,
  (exists e, read_xyz (firstn k ls) = Err e) \/ (exists j, read_xyz (firstn k ls) = Ok (firstn j bs)).
Proof.
  intros H k. unfold read_xyz, xinit.
  assert (G : forall out, (exists e, xfinish (xrun (XRun XCount out) (firstn k ls)) = Err e) \/
                          (exists j, xfinish (xrun (XRun XCount out) (firstn k ls)) = Ok (rev out ++ firstn j bs))).
  { revert k. induction H as [|b bs l ls Hb Ht IH]; intros k out.
    - right. exists 0%nat. rewrite firstn_nil. simpl. now rewrite app_nil_r.
    - rewrite firstn_app. destruct (le_lt_dec (List.length l) k) as [Hge|Hlt].
      + rewrite firstn_all2 by exact Hge. rewrite (xrun_block P b l out _ Hb).
        destruct (IH (k - List.length l)%nat (b :: out)) as [[e E]|[j E]].
        * left. exists e. exact E.
        * right. exists (S j). rewrite E. simpl. now rewrite <- app_assoc.
      + replace (k - List.length l)%nat with 0%nat by lia. rewrite firstn_O, app_nil_r.
        destruct k as [|k].
        * right. exists 0%nat. simpl. now rewrite app_nil_r.
        * left. exists EEof. eapply xblock_prefix_eof; eauto. lia. }
  destruct (G []) as [E|[j E]]; [left; exact E|right; exists j; exact E].
Qed.

(* ---- deletion / duplication of one line *)
Definition xfails (st : xstate) (ls : list str) : Prop := exists e, xfinish (xrun st ls) = Err e.

Lemma xfails_fail e ls : xfails (XFail e) ls.
Proof. exists e. now rewrite xrun_fail. Qed.
Lemma xfails_count_bad out l ls : parse_int l = None -> xfails (XRun XCount out) (l :: ls).
Proof. intros H. unfold xfails. rewrite xrun_cons. cbn [xstep]. rewrite H. apply xfails_fail. Qed.
Lemma xfails_count_atom out l ls : xvalid l -> xfails (XRun XCount out) (l :: ls).
Proof. intros H. apply xfails_count_bad. now apply atom_not_count. Qed.

(* what follows a block inside a well-formed text: nothing, or a count line and a non-integer comment line *)
Inductive xtail : list str -> Prop :=
| xtail_nil : xtail []
| xtail_cons cl cm r z : parse_int cl = Some z -> parse_int cm = None -> xtail (cl :: cm :: r).
Lemma xwf_text_tail bs ls : xwf_text comment_ok bs ls -> xtail ls.
Proof.
  intros H. destruct H as [|b bs l ls Hb Ht]; [constructor|].
  destruct Hb as [cl cm als n atoms Hc _ _ Hcm]. simpl. econstructor; eauto.
Qed.

(* inside the atom loop with at least one line still owed, followed by the tail of a well-formed text *)
Lemma xfails_atoms_tail n c todo acc out post : (1 <= todo)%N -> xtail post ->
  xfails (XRun (XAtoms n c todo acc) out) post.
Proof.
  intros H1 Ht. destruct Ht as [|cl cm r z Hc Hcm].
  - exists EEof. reflexivity.
  - unfold xfails. rewrite xrun_cons. cbn [xstep]. rewrite (count_not_atom cl z Hc). apply xfails_fail.
Qed.

Lemma xfails_short_block n c out V post todo acc : Forall xvalid V -> (N.of_nat (List.length V) < todo)%N -> xtail post ->
  xfails (XRun (XAtoms n c todo acc) out) (V ++ post).
Proof.
  intros HV Hlt Ht. unfold xfails. rewrite xrun_app.
  destruct (xatoms_short n c out V HV todo acc Hlt) as [acc' E]. rewrite E.
  apply xfails_atoms_tail; [lia|exact Ht].
Qed.

Lemma xfails_long_block n c out V post todo acc : Forall xvalid V -> (1 <= todo)%N ->
  (todo < N.of_nat (List.length V))%N -> xfails (XRun (XAtoms n c todo acc) out) (V ++ post).
Proof.
  intros HV H1 Hlt. destruct (xatoms_complete n c out V HV todo acc H1) as [B HB]; [lia|].
  unfold xfails. rewrite HB.
  pose proof (skipn_Forall xvalid V (N.to_nat todo) HV) as HS.
  destruct (skipn (N.to_nat todo) V) as [|h t] eqn:E.
  - apply (f_equal (@List.length str)) in E. rewrite skipn_length in E. simpl in E. lia.
  - inversion HS; subst. simpl app. now apply xfails_count_atom.
Qed.

Lemma xblock_deleted b l out post i : xwf comment_ok b l -> (i < List.length l)%nat -> xtail post ->
  xfails (XRun XCount out) (del_nth i l ++ post).
Proof.
  intros H Hi Ht. destruct H as [cl cm als n atoms Hc Hn HF Hcm].
  pose proof (Forall2_length HF) as Hlen. pose proof (Forall2_valid _ _ HF) as HV.
  destruct i as [|[|j]]; simpl del_nth; simpl app.
  - (* count line gone: the comment is read as a count *) now apply xfails_count_bad.
  - (* comment gone *)
    unfold xfails. rewrite xrun_cons. cbn [xstep]. rewrite Hc.
    destruct als as [|a1 als'].
    + destruct atoms; [|discriminate]. simpl in Hn. subst n. simpl app.
      destruct Ht as [|cl2 cm2 r z Hc2 Hcm2]; [exists EEof; reflexivity|].
      rewrite xrun_cons. cbn [xstep]. change (0 <=? 0)%Z with true. cbn iota. now apply xfails_count_bad.
    + simpl app. rewrite xrun_cons. cbn [xstep]. destruct (Z.leb_spec n 0) as [Hle|Hgt]; [simpl in Hlen; lia|].
      inversion HV; subst. apply xfails_short_block; [assumption|simpl in Hlen; lia|exact Ht].
  - (* an atom line gone *)
    unfold xfails. rewrite !xrun_cons. cbn [xstep]. rewrite Hc. cbn [xstep].
    simpl in Hi. destruct (Z.leb_spec n 0) as [Hle|Hgt]; [lia|].
    apply xfails_short_block; [now apply del_nth_Forall| |exact Ht].
    pose proof (del_nth_length als j ltac:(lia)). lia.
Qed.

Lemma xblock_duplicated b l out post i : xwf comment_ok b l -> (i < List.length l)%nat -> xtail post ->
  xfails (XRun XCount out) (dup_nth i l ++ post).
Proof.
  intros H Hi Ht. destruct H as [cl cm als n atoms Hc Hn HF Hcm].
  pose proof (Forall2_length HF) as Hlen. pose proof (Forall2_valid _ _ HF) as HV.
  (* count + comment consumed, then: comment line again in front of the atom lines *)
  assert (Hcm_first : forall c0, xfails (XRun (if (n <=? 0)%Z then XCount else XAtoms n c0 (Z.to_N n) []) 
                                       (if (n <=? 0)%Z then mk_xblock n c0 [] :: out else out)) (cm :: als ++ post)).
  { intros c0. destruct (Z.leb_spec n 0) as [Hle|Hgt].
    - now apply xfails_count_bad.
    - destruct (xyz_atom cm) as [a|] eqn:Ea.
      + change (cm :: als ++ post) with ((cm :: als) ++ post). apply xfails_long_block.
        * constructor; [now exists a|exact HV].
        * lia.
        * simpl. lia.
      + unfold xfails. rewrite xrun_cons. cbn [xstep]. rewrite Ea. apply xfails_fail. }
  destruct i as [|[|j]]; simpl dup_nth; simpl app.
  - unfold xfails. rewrite !xrun_cons. cbn [xstep]. rewrite Hc. cbn [xstep].
    specialize (Hcm_first (strip cl)). destruct (n <=? 0)%Z; exact Hcm_first.
  - unfold xfails. rewrite !xrun_cons. cbn [xstep]. rewrite Hc. cbn [xstep].
    specialize (Hcm_first (strip cm)). destruct (n <=? 0)%Z; exact Hcm_first.
  - unfold xfails. rewrite !xrun_cons. cbn [xstep]. rewrite Hc. cbn [xstep].
    simpl in Hi. destruct (Z.leb_spec n 0) as [Hle|Hgt]; [lia|].
    apply xfails_long_block; [now apply dup_nth_Forall|lia|].
    rewrite dup_nth_length by lia. lia.
Qed.

(* position of a line inside a well-formed text *)
Lemma xwf_text_locate P bs ls i : xwf_text P bs ls -> (i < List.length ls)%nat ->
  exists bs1 b bs2 pre l post i', ls = pre ++ l ++ post /\ bs = bs1 ++ b :: bs2 /\
    xwf_text P bs1 pre /\ xwf P b l /\ xwf_text P bs2 post /\ i = (List.length pre + i')%nat /\ (i' < List.length l)%nat.
Proof.
  intros H. revert i. induction H as [|b bs l ls Hb Ht IH]; intros i Hi; [simpl in Hi; lia|].
  rewrite app_length in Hi. destruct (lt_dec i (List.length l)) as [Hlt|Hge].
  - exists [], b, bs, [], l, ls, i. repeat split; auto. constructor.
  - destruct (IH (i - List.length l)%nat) as (bs1 & b' & bs2 & pre & l' & post & i' & E1 & E2 & H1 & H2 & H3 & E3 & H4); [lia|].
    exists (b :: bs1), b', bs2, (l ++ pre), l', post, i'. repeat split; auto.
    + rewrite E1. now rewrite app_assoc.
    + rewrite E2. reflexivity.
    + now constructor.
    + rewrite app_length. lia.
Qed.

Theorem read_xyz_deleted bs ls i : xwf_text comment_ok bs ls -> (i < List.length ls)%nat ->
  exists e, read_xyz (del_nth i ls) = Err e.
Proof.
  intros H Hi. destruct (xwf_text_locate _ bs ls i H Hi) as (bs1 & b & bs2 & pre & l & post & i' & E1 & E2 & H1 & H2 & H3 & E3 & H4).
  subst ls i. rewrite del_nth_app_r, del_nth_app_l by exact H4.
  unfold read_xyz, xinit. rewrite (xrun_text _ bs1 pre H1).
  apply (xblock_deleted b); auto. now apply (xwf_text_tail bs2).
Qed.
Theorem read_xyz_duplicated bs ls i : xwf_text comment_ok bs ls -> (i < List.length ls)%nat ->
  exists e, read_xyz (dup_nth i ls) = Err e.
Proof.
  intros H Hi. destruct (xwf_text_locate _ bs ls i H Hi) as (bs1 & b & bs2 & pre & l & post & i' & E1 & E2 & H1 & H2 & H3 & E3 & H4).
  subst ls i. rewrite dup_nth_app_r, dup_nth_app_l by exact H4.
  unfold read_xyz, xinit. rewrite (xrun_text _ bs1 pre H1).
  apply (xblock_duplicated b); auto. now apply (xwf_text_tail bs2).
Qed.

(* ---- counts: every returned block holds exactly the atoms its own count line declares (ALL inputs) *)
Definition xblock_ok (b : xblock) : Prop :=
  ((xb_n b <= 0)%Z /\ xb_atoms b = []) \/ xb_n b = Z.of_nat (List.length (xb_atoms b)).
Definition xstate_ok (st : xstate) : Prop :=
  match st with
  | XFail _ => True
  | XRun m out => Forall xblock_ok out /\
      match m with
      | XAtoms n c todo acc => (1 <= todo)%N /\ (Z.of_N todo + Z.of_nat (List.length acc))%Z = n
      | _ => True
      end
  end.
Lemma xstep_ok st l : xstate_ok st -> xstate_ok (xstep st l).
Proof.
  destruct st as [m out|e]; [|auto]. intros [Hout Hm]. destruct m as [|n|n c todo acc]; cbn [xstep].
  - destruct (parse_int l); simpl; auto.
  - destruct (Z.leb_spec n 0) as [Hle|Hgt]; simpl.
    + split; [|exact I]. constructor; [left; simpl; auto|exact Hout].
    + split; [exact Hout|]. split; simpl; lia.
  - destruct (xyz_atom l) as [a|]; [|exact I]. destruct Hm as [H1 H2].
    destruct (N.leb_spec todo 1) as [Hle|Hgt]; simpl.
    + split; [|exact I]. constructor; [|exact Hout]. right. simpl. rewrite app_length, rev_length. simpl. lia.
    + split; [exact Hout|]. split; [lia|]. simpl List.length. lia.
Qed.
Lemma xrun_ok ls : forall st, xstate_ok st -> xstate_ok (xrun st ls).
Proof. induction ls as [|l ls IH]; intros st H; [exact H|]. apply IH. now apply xstep_ok. Qed.
Theorem read_xyz_counts ls bs : read_xyz ls = Ok bs -> Forall xblock_ok bs.
Proof.
  unfold read_xyz. intros H. pose proof (xrun_ok ls xinit (conj (Forall_nil _) I)) as Hok.
  destruct (xrun xinit ls) as [m out|e]; [|discriminate]. destruct m; try discriminate.
  simpl in H. injection H as <-. destruct Hok as [Hout _]. apply Forall_rev. exact Hout.
Qed.

(* ---- molecules *)
Lemma map_opt_length {A B} (f : A -> option B) l : forall r, map_opt f l = Some r -> List.length r = List.length l.
Proof.
  induction l as [|x l IH]; intros r H; simpl in H; [injection H as <-; reflexivity|].
  destruct (f x); [|discriminate]. destruct (map_opt f l) eqn:E; [|discriminate]. injection H as <-. simpl. f_equal. now apply IH.
Qed.
Lemma all_ok_Forall2 {A B} (f : A -> res B) l : forall ms, all_ok (map f l) = Ok ms -> Forall2 (fun b m => f b = Ok m) l ms.
Proof.
  induction l as [|x l IH]; intros ms H; simpl in H; [injection H as <-; constructor|].
  destruct (f x) eqn:E; [|discriminate]. destruct (all_ok (map f l)) eqn:E2; [|discriminate]. injection H as <-.
  constructor; auto.
Qed.
Lemma all_ok_firstn {A B} (f : A -> res B) l : forall ms j, all_ok (map f l) = Ok ms ->
  all_ok (map f (firstn j l)) = Ok (firstn j ms).
Proof.
  induction l as [|x l IH]; intros ms j H; simpl in H.
  - injection H as <-. now rewrite !firstn_nil.
  - destruct (f x) eqn:E; [|discriminate]. destruct (all_ok (map f l)) eqn:E2; [|discriminate]. injection H as <-.
    destruct j; [reflexivity|]. simpl. rewrite E. now rewrite (IH _ j eq_refl).
Qed.

Definition mol_ok (m : mol) : Prop :=
  m_natoms m = Z.of_nat (List.length (m_elems m)) /\ List.length (m_coords m) = List.length (m_elems m).

Lemma xyz_build_ok zero_ok f b m : xblock_ok b -> xyz_build zero_ok f b = Ok m -> mol_ok m.
Proof.
  unfold xyz_build. intros Hb H. destruct (Z.ltb_spec (xb_n b) 0) as [Hneg|Hge]; [discriminate|].
  destruct ((xb_n b =? 0)%Z && negb zero_ok); [discriminate|].
  destruct (map_opt _ (xb_atoms b)) as [es|] eqn:E; [|discriminate]. injection H as <-.
  apply map_opt_length in E. unfold mol_ok. simpl. rewrite map_length, E. split; [|reflexivity].
  destruct Hb as [[Hle Hnil]|Heq]; [rewrite Hnil; simpl; lia|exact Heq].
Qed.

Theorem load_xyz_counts zero_ok f ls ms : load_xyz_lines zero_ok f ls = Ok ms -> Forall mol_ok ms.
Proof.
  unfold load_xyz_lines, res_bind. destruct (read_xyz ls) as [bs|e] eqn:E; [|discriminate]. intros H.
  pose proof (read_xyz_counts ls bs E) as Hbs. apply all_ok_Forall2 in H. clear E.
  revert Hbs. induction H as [|b m bs' ms' Hbm HF IH]; intros Hbs; [constructor|]. inversion Hbs; subst.
  constructor; [eapply xyz_build_ok; eauto|auto].
Qed.

Theorem load_xyz_truncated P zero_ok f bs ls ms : xwf_text P bs ls -> load_xyz_lines zero_ok f ls = Ok ms -> forall k,
  (exists e, load_xyz_lines zero_ok f (firstn k ls) = Err e) \/
  (exists j, load_xyz_lines zero_ok f (firstn k ls) = Ok (firstn j ms)).
Proof.
  intros Hwf Hfull k. unfold load_xyz_lines, res_bind in *. rewrite (read_xyz_wf P bs ls Hwf) in Hfull.
  destruct (read_xyz_truncated P bs ls Hwf k) as [[e E]|[j E]]; rewrite E.
  - left. now exists e.
  - right. exists j. now apply all_ok_firstn.
Qed.

Theorem load_xyz_deleted zero_ok f bs ls i : xwf_text comment_ok bs ls -> (i < List.length ls)%nat ->
  exists e, load_xyz_lines zero_ok f (del_nth i ls) = Err e.
Proof.
  intros H Hi. destruct (read_xyz_deleted bs ls i H Hi) as [e E]. exists e. unfold load_xyz_lines, res_bind. now rewrite E.
Qed.
Theorem load_xyz_duplicated zero_ok f bs ls i : xwf_text comment_ok bs ls -> (i < List.length ls)%nat ->
  exists e, load_xyz_lines zero_ok f (dup_nth i ls) = Err e.
Proof.
  intros H Hi. destruct (read_xyz_duplicated bs ls i H Hi) as [e E]. exists e. unfold load_xyz_lines, res_bind. now rewrite E.
Qed.

(* ---- a cut inside the last line *)
Lemma xatoms_short_exact n c out als atoms : Forall2 (fun l a => xyz_atom l = Some a) als atoms -> forall todo acc,
  (N.of_nat (List.length als) < todo)%N ->
  xrun (XRun (XAtoms n c todo acc) out) als = XRun (XAtoms n c (todo - N.of_nat (List.length als)) (rev atoms ++ acc)) out.
Proof.
  induction 1 as [|l a als atoms Ha HF IH]; intros todo acc H.
  - simpl. now rewrite N.sub_0_r.
  - rewrite xrun_cons. cbn [xstep]. rewrite Ha. destruct (N.leb_spec todo 1); [simpl in H; lia|].
    rewrite IH by (simpl in H; lia). simpl rev. rewrite <- app_assoc. simpl.
    f_equal. f_equal. simpl List.length. lia.
Qed.

(* the last record replaced by an arbitrary line l' *)
Theorem read_xyz_last_line P bs0 pre0 cl cm als ats n a last l' :
  xwf_text P bs0 pre0 -> parse_int cl = Some n -> n = Z.of_nat (S (List.length ats)) ->
  Forall2 (fun l a => xyz_atom l = Some a) als ats -> xyz_atom last = Some a ->
  read_xyz (pre0 ++ cl :: cm :: als ++ [last]) = Ok (bs0 ++ [mk_xblock n (strip cm) (ats ++ [a])]) /\
  match xyz_atom l' with
  | None => exists e, read_xyz (pre0 ++ cl :: cm :: als ++ [l']) = Err e
  | Some a' => read_xyz (pre0 ++ cl :: cm :: als ++ [l']) = Ok (bs0 ++ [mk_xblock n (strip cm) (ats ++ [a'])])
  end.
Proof.
  intros Hpre Hc Hn HF Ha.
  assert (G : forall x, xrun xinit (pre0 ++ cl :: cm :: als ++ [x]) =
                        xstep (XRun (XAtoms n (strip cm) 1 (rev ats)) (rev bs0)) x).
  { intros x. unfold xinit. rewrite (xrun_text P bs0 pre0 Hpre). rewrite app_nil_r.
    rewrite !xrun_cons. cbn [xstep]. rewrite Hc. cbn [xstep].
    destruct (Z.leb_spec n 0) as [Hle|Hgt]; [lia|]. rewrite xrun_app.
    pose proof (Forall2_length HF) as Hlen.
    rewrite (xatoms_short_exact n (strip cm) (rev bs0) als ats HF) by lia. rewrite app_nil_r.
    replace (Z.to_N n - N.of_nat (List.length als))%N with 1%N by lia. reflexivity. }
  unfold read_xyz. split.
  - rewrite G. cbn [xstep]. rewrite Ha. simpl. rewrite !rev_involutive. reflexivity.
  - destruct (xyz_atom l') as [a'|] eqn:E; rewrite G; cbn [xstep]; rewrite E.
    + simpl. rewrite !rev_involutive. reflexivity.
    + exists ESyntax. reflexivity.
Qed.

(* what a cut can do to the last record: the atom parser sees the same first three tokens *)
Lemma xyz_atom_cut last a b a' : xyz_atom last = Some a -> xyz_atom (firstn b last) = Some a' ->
  xa_sym a' = xa_sym a /\ xa_x a' = xa_x a /\ xa_y a' = xa_y a /\
  (a' = a \/ exists t zt, nth 3 (split last) [] = zt /\ nprefix t zt /\ parse_float t = Some (xa_z a')).
Proof.
  unfold xyz_atom. intros Ha Ha'. destruct (split_firstn last b) as [j [p [E Hp]]].
  destruct (split last) as [|s [|x [|y [|z [|w r]]]]] eqn:Es; try discriminate.
  destruct (parse_float x) as [fx|] eqn:Ex; [|discriminate]. destruct (parse_float y) as [fy|] eqn:Ey; [|discriminate].
  destruct (parse_float z) as [fz|] eqn:Ez; [|discriminate]. injection Ha as <-.
  rewrite E in Ha'. destruct Hp as [->|[t [-> Ht]]].
  - rewrite app_nil_r in Ha'. destruct j as [|[|[|[|[|j]]]]]; simpl in Ha'; try discriminate.
    + rewrite Ex, Ey, Ez in Ha'. injection Ha' as <-. simpl. auto.
    + rewrite Ex, Ey, Ez in Ha'. injection Ha' as <-. simpl. auto.
  - destruct j as [|[|[|[|[|j]]]]]; simpl in Ha'; try discriminate.
    rewrite Ex, Ey in Ha'. destruct (parse_float t) as [ft|] eqn:Et; [|discriminate]. injection Ha' as <-. simpl.
    repeat split; auto. right. exists t, z. simpl in Ht. auto.
Qed.
