(* C10: theorems about the reader state machines of Model/Parse.v.

   Well-formedness of a text is stated SEMANTICALLY, through the readers' own classifiers: an xyz text is
   well formed when it is a concatenation of blocks [count line; comment line; n atom lines] where int()
   accepts the count line with value n and every atom line is accepted by the atom-line parser.  So the
   theorems cover every such text (bundled files included), not only the ones molli writes; Proofs/XyzText.v
   shows that what the writer model emits is well formed in this sense. *)
From Coq Require Import List Bool Arith NArith ZArith Ascii String Lia.
From Molli Require Import Common.ParseStr Common.ParseStrFacts Model.Parse.
Import ListNotations.
Local Open Scope char_scope.
Local Open Scope list_scope.

(* ================================================================= generic list facts *)
Lemma del_nth_app_l {A} (a b : list A) i : (i < List.length a)%nat -> del_nth i (a ++ b) = del_nth i a ++ b.
Proof.
  revert i. induction a as [|x a IH]; intros i H; simpl in *; [lia|]. destruct i; [reflexivity|].
  simpl. f_equal. apply IH. lia.
Qed.
Lemma del_nth_app_r {A} (a b : list A) i : del_nth (List.length a + i) (a ++ b) = a ++ del_nth i b.
Proof. induction a as [|x a IH]; simpl; [reflexivity|]. now rewrite IH. Qed.
Lemma dup_nth_app_l {A} (a b : list A) i : (i < List.length a)%nat -> dup_nth i (a ++ b) = dup_nth i a ++ b.
Proof.
  revert i. induction a as [|x a IH]; intros i H; simpl in *; [lia|]. destruct i; [reflexivity|].
  simpl. f_equal. apply IH. lia.
Qed.
Lemma dup_nth_app_r {A} (a b : list A) i : dup_nth (List.length a + i) (a ++ b) = a ++ dup_nth i b.
Proof. induction a as [|x a IH]; simpl; [reflexivity|]. now rewrite IH. Qed.
Lemma del_nth_length {A} (l : list A) i : (i < List.length l)%nat -> S (List.length (del_nth i l)) = List.length l.
Proof.
  revert i. induction l as [|x l IH]; intros i H; simpl in *; [lia|]. destruct i; [reflexivity|]. simpl. rewrite IH; lia.
Qed.
Lemma dup_nth_length {A} (l : list A) i : (i < List.length l)%nat -> List.length (dup_nth i l) = S (List.length l).
Proof.
  revert i. induction l as [|x l IH]; intros i H; simpl in *; [lia|]. destruct i; [reflexivity|]. simpl. rewrite IH; lia.
Qed.
Lemma del_nth_Forall {A} (P : A -> Prop) l i : Forall P l -> Forall P (del_nth i l).
Proof.
  revert i. induction l as [|x l IH]; intros i H; [destruct i; constructor|].
  inversion H; subst. destruct i; simpl; [assumption|]. constructor; auto.
Qed.
Lemma dup_nth_Forall {A} (P : A -> Prop) l i : Forall P l -> Forall P (dup_nth i l).
Proof.
  revert i. induction l as [|x l IH]; intros i H; [destruct i; constructor|].
  inversion H; subst. destruct i; simpl; [repeat constructor; assumption|]. constructor; auto.
Qed.
Lemma skipn_Forall {A} (P : A -> Prop) l n : Forall P l -> Forall P (skipn n l).
Proof.
  revert n. induction l as [|x l IH]; intros n H; [destruct n; constructor|].
  destruct n; simpl; [assumption|]. inversion H; subst. auto.
Qed.

Lemma Forall_firstn' {A} (P : A -> Prop) l n : Forall P l -> Forall P (firstn n l).
Proof.
  revert n. induction l as [|x l IH]; intros n H; [destruct n; constructor|].
  destruct n; simpl; [constructor|]. inversion H; subst. constructor; auto.
Qed.
Lemma Forall2_length {A B} {R : A -> B -> Prop} {l1 l2} : Forall2 R l1 l2 -> List.length l1 = List.length l2.
Proof. induction 1; simpl; congruence. Qed.

(* ================================================================= xyz *)
Definition xvalid (l : str) : Prop := exists a, xyz_atom l = Some a.

(* int() accepts only one-token lines, the atom parser only four-token lines *)
Lemma count_not_atom l z : parse_int l = Some z -> xyz_atom l = None.
Proof.
  intros H. destruct (parse_int_one_token l z H) as [t Ht]. unfold xyz_atom. now rewrite Ht.
Qed.
Lemma atom_not_count l : xvalid l -> parse_int l = None.
Proof.
  intros [a Ha]. destruct (parse_int l) as [z|] eqn:E; [|reflexivity].
  rewrite (count_not_atom l z E) in Ha. discriminate.
Qed.

(* P: extra condition on the comment line (True for the round trip / truncation; "not an integer" for
   deletion / duplication, see xyz_comment_needed below for why it cannot be dropped) *)
Inductive xwf (P : str -> Prop) : xblock -> list str -> Prop :=
| xwf_intro cl cm als n atoms :
    parse_int cl = Some n -> n = Z.of_nat (List.length atoms) ->
    Forall2 (fun l a => xyz_atom l = Some a) als atoms -> P cm ->
    xwf P (mk_xblock n (strip cm) atoms) (cl :: cm :: als).
Inductive xwf_text (P : str -> Prop) : list xblock -> list str -> Prop :=
| xwt_nil : xwf_text P [] []
| xwt_cons b bs l ls : xwf P b l -> xwf_text P bs ls -> xwf_text P (b :: bs) (l ++ ls).

Definition any_comment (_ : str) : Prop := True.
Definition comment_ok (cm : str) : Prop := parse_int cm = None.

Lemma xwf_weaken P b l : xwf P b l -> xwf any_comment b l.
Proof. intros H. destruct H. constructor; auto. exact I. Qed.
Lemma xwf_text_weaken P bs ls : xwf_text P bs ls -> xwf_text any_comment bs ls.
Proof. induction 1; constructor; eauto using xwf_weaken. Qed.

Lemma xrun_app st a b : xrun st (a ++ b) = xrun (xrun st a) b.
Proof. unfold xrun. apply fold_left_app. Qed.
Lemma xrun_fail e ls : xrun (XFail e) ls = XFail e.
Proof. induction ls as [|l ls IH]; [reflexivity|]. exact IH. Qed.
Lemma xrun_cons st l ls : xrun st (l :: ls) = xrun (xstep st l) ls.
Proof. reflexivity. Qed.

Lemma Forall2_valid als atoms : Forall2 (fun l a => xyz_atom l = Some a) als atoms -> Forall xvalid als.
Proof. induction 1; constructor; [eexists; eassumption|assumption]. Qed.

(* todo valid atom lines complete the block (content irrelevant here) *)
Lemma xatoms_complete n c out V : Forall xvalid V -> forall todo acc,
  (1 <= todo)%N -> (todo <= N.of_nat (List.length V))%N ->
  exists B, forall rest, xrun (XRun (XAtoms n c todo acc) out) (V ++ rest)
                         = xrun (XRun XCount (B :: out)) (skipn (N.to_nat todo) V ++ rest).
Proof.
  induction 1 as [|l V [a Ha] HV IH]; intros todo acc H1 H2; [simpl in H2; lia|].
  destruct (N.leb_spec todo 1) as [Hle|Hgt].
  - assert (todo = 1%N) by lia. subst todo. exists (mk_xblock n c (rev (a :: acc))). intros rest.
    simpl app. rewrite xrun_cons. cbn [xstep]. rewrite Ha. reflexivity.
  - destruct (IH (todo - 1)%N (a :: acc)) as [B HB]; [lia|simpl in H2; lia|]. exists B. intros rest.
    simpl app. rewrite xrun_cons. cbn [xstep]. rewrite Ha.
    destruct (N.leb_spec todo 1); [lia|]. rewrite HB.
    replace (N.to_nat todo) with (S (N.to_nat (todo - 1))) by lia. reflexivity.
Qed.
(* exact content when the lines are the block's own *)
Lemma xatoms_exact n c out als atoms : Forall2 (fun l a => xyz_atom l = Some a) als atoms -> als <> [] ->
  forall acc rest, xrun (XRun (XAtoms n c (N.of_nat (List.length als)) acc) out) (als ++ rest)
                   = xrun (XRun XCount (mk_xblock n c (rev acc ++ atoms) :: out)) rest.
Proof.
  induction 1 as [|l a als atoms Ha HF IH]; intros Hne acc rest; [contradiction|].
  simpl app. rewrite xrun_cons. cbn [xstep]. rewrite Ha.
  destruct als as [|l2 als].
  - inversion HF; subst. reflexivity.
  - change (List.length (l :: l2 :: als)) with (S (S (List.length als))).
    destruct (N.leb_spec (N.of_nat (S (S (List.length als)))) 1) as [Hle|Hgt]; [lia|].
    replace (N.of_nat (S (S (List.length als))) - 1)%N with (N.of_nat (List.length (l2 :: als))) by (cbn [List.length]; lia).
    rewrite IH by discriminate. simpl. now rewrite <- app_assoc.
Qed.
(* fewer valid lines than owed: still inside the loop *)
Lemma xatoms_short n c out V : Forall xvalid V -> forall todo acc,
  (N.of_nat (List.length V) < todo)%N ->
  exists acc', xrun (XRun (XAtoms n c todo acc) out) V = XRun (XAtoms n c (todo - N.of_nat (List.length V)) acc') out.
Proof.
  induction 1 as [|l V [a Ha] HV IH]; intros todo acc H.
  - exists acc. simpl. now rewrite N.sub_0_r.
  - rewrite xrun_cons. cbn [xstep]. rewrite Ha. destruct (N.leb_spec todo 1); [simpl in H; lia|].
    destruct (IH (todo - 1)%N (a :: acc)) as [acc' E]; [simpl in H; lia|]. exists acc'. rewrite E.
    f_equal. f_equal. simpl List.length. lia.
Qed.

Lemma xwf_length P b l : xwf P b l -> List.length l = (2 + List.length (xb_atoms b))%nat.
Proof. intros H. destruct H as [cl cm als n atoms _ _ HF _]. simpl. f_equal. f_equal. eapply Forall2_length; eauto. Qed.

(* one whole block *)
Lemma xrun_block P b l out rest : xwf P b l ->
  xrun (XRun XCount out) (l ++ rest) = xrun (XRun XCount (b :: out)) rest.
Proof.
  intros H. destruct H as [cl cm als n atoms Hc Hn HF _].
  simpl app. rewrite !xrun_cons. cbn [xstep]. rewrite Hc. cbn [xstep].
  pose proof (Forall2_length HF) as Hlen.
  destruct atoms as [|a atoms].
  - destruct als; [|discriminate]. subst n. reflexivity.
  - destruct (Z.leb_spec n 0) as [Hle|Hgt]; [simpl in Hn; lia|].
    replace (Z.to_N n) with (N.of_nat (List.length als)) by (rewrite Hlen; lia).
    rewrite (xatoms_exact n (strip cm) out als (a :: atoms) HF); [reflexivity|]. destruct als; [discriminate|discriminate].
Qed.
Lemma xrun_text P bs ls : xwf_text P bs ls -> forall out rest,
  xrun (XRun XCount out) (ls ++ rest) = xrun (XRun XCount (rev bs ++ out)) rest.
Proof.
  induction 1 as [|b bs l ls Hb Ht IH]; intros out rest; [reflexivity|].
  rewrite <- app_assoc. rewrite (xrun_block P b l out _ Hb). rewrite IH. simpl. now rewrite <- app_assoc.
Qed.

(* ---- round trip *)
Theorem read_xyz_wf P bs ls : xwf_text P bs ls -> read_xyz ls = Ok bs.
Proof.
  intros H. unfold read_xyz, xinit. rewrite <- (app_nil_r ls). rewrite (xrun_text P bs ls H). simpl.
  now rewrite app_nil_r, rev_involutive.
Qed.

(* ---- truncation at a line boundary *)
Lemma xblock_prefix_eof P b l out k : xwf P b l -> (0 < k)%nat -> (k < List.length l)%nat ->
  xfinish (xrun (XRun XCount out) (firstn k l)) = Err EEof.
Proof.
  intros H Hk0 Hk. destruct H as [cl cm als n atoms Hc Hn HF _].
  destruct k as [|k]; [lia|]. simpl firstn. rewrite xrun_cons. cbn [xstep]. rewrite Hc.
  destruct k as [|k]; [reflexivity|]. simpl firstn. rewrite xrun_cons. cbn [xstep].
  pose proof (Forall2_length HF) as Hlen. simpl in Hk.
  destruct (Z.leb_spec n 0) as [Hle|Hgt]; [lia|].
  destruct (xatoms_short n (strip cm) out (firstn k als)) with (todo := Z.to_N n) (acc := @nil xatom) as [acc' E].
  - apply Forall_firstn'. eapply Forall2_valid; eauto.
  - rewrite firstn_length. lia.
  - rewrite E. reflexivity.
Qed.

Theorem read_xyz_truncated P bs ls : xwf_text P bs ls -> forall k,
  (exists e, read_xyz (firstn k ls) = Err e) \/ (exists j, read_xyz (firstn k ls) = Ok (firstn j bs)).
Proof.
  intros H k. unfold read_xyz, xinit.
  assert (G : forall out, (exists e, xfinish (xrun (XRun XCount out) (firstn k ls)) = Err e) \/
                          (exists j, xfinish (xrun (XRun XCount out) (firstn k ls)) = Ok (rev out ++ firstn j bs))).
  { revert k. induction H as [|b bs l ls Hb Ht IH]; intros k out.
    - right. exists 0%nat. rewrite firstn_nil. simpl. now rewrite app_nil_r.
    - rewrite firstn_app. destruct (le_lt_dec (List.length l) k) as [Hge|Hlt].
      + rewrite firstn_all2 by exact Hge. rewrite (xrun_block P b l out _ Hb).
        destruct (IH (k - List.length l)%nat (b :: out)) as [[e E]|[j E]].
        * left. exists e. exact E.
        * right. exists (S j). rewrite E. simpl. now rewrite <- app_assoc.
      + replace (k - List.length l)%nat with 0%nat by lia. rewrite firstn_O, app_nil_r.
        destruct k as [|k].
        * right. exists 0%nat. simpl. now rewrite app_nil_r.
        * left. exists EEof. eapply xblock_prefix_eof; eauto. lia. }
  destruct (G []) as [E|[j E]]; [left; exact E|right; exists j; exact E].
Qed.

(* ---- deletion / duplication of one line *)
Definition xfails (st : xstate) (ls : list str) : Prop := exists e, xfinish (xrun st ls) = Err e.

Lemma xfails_fail e ls : xfails (XFail e) ls.
Proof. exists e. now rewrite xrun_fail. Qed.
Lemma xfails_count_bad out l ls : parse_int l = None -> xfails (XRun XCount out) (l :: ls).
Proof. intros H. unfold xfails. rewrite xrun_cons. cbn [xstep]. rewrite H. apply xfails_fail. Qed.
Lemma xfails_count_atom out l ls : xvalid l -> xfails (XRun XCount out) (l :: ls).
Proof. intros H. apply xfails_count_bad. now apply atom_not_count. Qed.

(* what follows a block inside a well-formed text: nothing, or a count line and a non-integer comment line *)
Inductive xtail : list str -> Prop :=
| xtail_nil : xtail []
| xtail_cons cl cm r z : parse_int cl = Some z -> parse_int cm = None -> xtail (cl :: cm :: r).
Lemma xwf_text_tail bs ls : xwf_text comment_ok bs ls -> xtail ls.
Proof.
  intros H. destruct H as [|b bs l ls Hb Ht]; [constructor|].
  destruct Hb as [cl cm als n atoms Hc _ _ Hcm]. simpl. econstructor; eauto.
Qed.

(* inside the atom loop with at least one line still owed, followed by the tail of a well-formed text *)
Lemma xfails_atoms_tail n c todo acc out post : (1 <= todo)%N -> xtail post ->
  xfails (XRun (XAtoms n c todo acc) out) post.
Proof.
  intros H1 Ht. destruct Ht as [|cl cm r z Hc Hcm].
  - exists EEof. reflexivity.
  - unfold xfails. rewrite xrun_cons. cbn [xstep]. rewrite (count_not_atom cl z Hc). apply xfails_fail.
Qed.

Lemma xfails_short_block n c out V post todo acc : Forall xvalid V -> (N.of_nat (List.length V) < todo)%N -> xtail post ->
  xfails (XRun (XAtoms n c todo acc) out) (V ++ post).
Proof.
  intros HV Hlt Ht. unfold xfails. rewrite xrun_app.
  destruct (xatoms_short n c out V HV todo acc Hlt) as [acc' E]. rewrite E.
  apply xfails_atoms_tail; [lia|exact Ht].
Qed.

Lemma xfails_long_block n c out V post todo acc : Forall xvalid V -> (1 <= todo)%N ->
  (todo < N.of_nat (List.length V))%N -> xfails (XRun (XAtoms n c todo acc) out) (V ++ post).
Proof.
  intros HV H1 Hlt. destruct (xatoms_complete n c out V HV todo acc H1) as [B HB]; [lia|].
  unfold xfails. rewrite HB.
  pose proof (skipn_Forall xvalid V (N.to_nat todo) HV) as HS.
  destruct (skipn (N.to_nat todo) V) as [|h t] eqn:E.
  - apply (f_equal (@List.length str)) in E. rewrite skipn_length in E. simpl in E. lia.
  - inversion HS; subst. simpl app. now apply xfails_count_atom.
Qed.

Lemma xblock_deleted b l out post i : xwf comment_ok b l -> (i < List.length l)%nat -> xtail post ->
  xfails (XRun XCount out) (del_nth i l ++ post).
Proof.
  intros H Hi Ht. destruct H as [cl cm als n atoms Hc Hn HF Hcm].
  pose proof (Forall2_length HF) as Hlen. pose proof (Forall2_valid _ _ HF) as HV.
  destruct i as [|[|j]]; simpl del_nth; simpl app.
  - (* count line gone: the comment is read as a count *) now apply xfails_count_bad.
  - (* comment gone *)
    unfold xfails. rewrite xrun_cons. cbn [xstep]. rewrite Hc.
    destruct als as [|a1 als'].
    + destruct atoms; [|discriminate]. simpl in Hn. subst n. simpl app.
      destruct Ht as [|cl2 cm2 r z Hc2 Hcm2]; [exists EEof; reflexivity|].
      rewrite xrun_cons. cbn [xstep]. change (0 <=? 0)%Z with true. cbn iota. now apply xfails_count_bad.
    + simpl app. rewrite xrun_cons. cbn [xstep]. destruct (Z.leb_spec n 0) as [Hle|Hgt]; [simpl in Hlen; lia|].
      inversion HV; subst. apply xfails_short_block; [assumption|simpl in Hlen; lia|exact Ht].
  - (* an atom line gone *)
    unfold xfails. rewrite !xrun_cons. cbn [xstep]. rewrite Hc. cbn [xstep].
    simpl in Hi. destruct (Z.leb_spec n 0) as [Hle|Hgt]; [lia|].
    apply xfails_short_block; [now apply del_nth_Forall| |exact Ht].
    pose proof (del_nth_length als j ltac:(lia)). lia.
Qed.

Lemma xblock_duplicated b l out post i : xwf comment_ok b l -> (i < List.length l)%nat -> xtail post ->
  xfails (XRun XCount out) (dup_nth i l ++ post).
Proof.
  intros H Hi Ht. destruct H as [cl cm als n atoms Hc Hn HF Hcm].
  pose proof (Forall2_length HF) as Hlen. pose proof (Forall2_valid _ _ HF) as HV.
  (* count + comment consumed, then: comment line again in front of the atom lines *)
  assert (Hcm_first : forall c0, xfails (XRun (if (n <=? 0)%Z then XCount else XAtoms n c0 (Z.to_N n) []) 
                                       (if (n <=? 0)%Z then mk_xblock n c0 [] :: out else out)) (cm :: als ++ post)).
  { intros c0. destruct (Z.leb_spec n 0) as [Hle|Hgt].
    - now apply xfails_count_bad.
    - destruct (xyz_atom cm) as [a|] eqn:Ea.
      + change (cm :: als ++ post) with ((cm :: als) ++ post). apply xfails_long_block.
        * constructor; [now exists a|exact HV].
        * lia.
        * simpl. lia.
      + unfold xfails. rewrite xrun_cons. cbn [xstep]. rewrite Ea. apply xfails_fail. }
  destruct i as [|[|j]]; simpl dup_nth; simpl app.
  - unfold xfails. rewrite !xrun_cons. cbn [xstep]. rewrite Hc. cbn [xstep].
    specialize (Hcm_first (strip cl)). destruct (n <=? 0)%Z; exact Hcm_first.
  - unfold xfails. rewrite !xrun_cons. cbn [xstep]. rewrite Hc. cbn [xstep].
    specialize (Hcm_first (strip cm)). destruct (n <=? 0)%Z; exact Hcm_first.
  - unfold xfails. rewrite !xrun_cons. cbn [xstep]. rewrite Hc. cbn [xstep].
    simpl in Hi. destruct (Z.leb_spec n 0) as [Hle|Hgt]; [lia|].
    apply xfails_long_block; [now apply dup_nth_Forall|lia|].
    rewrite dup_nth_length by lia. lia.
Qed.

(* position of a line inside a well-formed text *)
Lemma xwf_text_locate P bs ls i : xwf_text P bs ls -> (i < List.length ls)%nat ->
  exists bs1 b bs2 pre l post i', ls = pre ++ l ++ post /\ bs = bs1 ++ b :: bs2 /\
    xwf_text P bs1 pre /\ xwf P b l /\ xwf_text P bs2 post /\ i = (List.length pre + i')%nat /\ (i' < List.length l)%nat.
Proof.
  intros H. revert i. induction H as [|b bs l ls Hb Ht IH]; intros i Hi; [simpl in Hi; lia|].
  rewrite app_length in Hi. destruct (lt_dec i (List.length l)) as [Hlt|Hge].
  - exists [], b, bs, [], l, ls, i. repeat split; auto. constructor.
  - destruct (IH (i - List.length l)%nat) as (bs1 & b' & bs2 & pre & l' & post & i' & E1 & E2 & H1 & H2 & H3 & E3 & H4); [lia|].
    exists (b :: bs1), b', bs2, (l ++ pre), l', post, i'. repeat split; auto.
    + rewrite E1. now rewrite app_assoc.
    + rewrite E2. reflexivity.
    + now constructor.
    + rewrite app_length. lia.
Qed.

Theorem read_xyz_deleted bs ls i : xwf_text comment_ok bs ls -> (i < List.length ls)%nat ->
  exists e, read_xyz (del_nth i ls) = Err e.
Proof.
  intros H Hi. destruct (xwf_text_locate _ bs ls i H Hi) as (bs1 & b & bs2 & pre & l & post & i' & E1 & E2 & H1 & H2 & H3 & E3 & H4).
  subst ls i. rewrite del_nth_app_r, del_nth_app_l by exact H4.
  unfold read_xyz, xinit. rewrite (xrun_text _ bs1 pre H1).
  apply (xblock_deleted b); auto. now apply (xwf_text_tail bs2).
Qed.
Theorem read_xyz_duplicated bs ls i : xwf_text comment_ok bs ls -> (i < List.length ls)%nat ->
  exists e, read_xyz (dup_nth i ls) = Err e.
Proof.
  intros H Hi. destruct (xwf_text_locate _ bs ls i H Hi) as (bs1 & b & bs2 & pre & l & post & i' & E1 & E2 & H1 & H2 & H3 & E3 & H4).
  subst ls i. rewrite dup_nth_app_r, dup_nth_app_l by exact H4.
  unfold read_xyz, xinit. rewrite (xrun_text _ bs1 pre H1).
  apply (xblock_duplicated b); auto. now apply (xwf_text_tail bs2).
Qed.

(* ---- counts: every returned block holds exactly the atoms its own count line declares (ALL inputs) *)
Definition xblock_ok (b : xblock) : Prop :=
  ((xb_n b <= 0)%Z /\ xb_atoms b = []) \/ xb_n b = Z.of_nat (List.length (xb_atoms b)).
Definition xstate_ok (st : xstate) : Prop :=
  match st with
  | XFail _ => True
  | XRun m out => Forall xblock_ok out /\
      match m with
      | XAtoms n c todo acc => (1 <= todo)%N /\ (Z.of_N todo + Z.of_nat (List.length acc))%Z = n
      | _ => True
      end
  end.
Lemma xstep_ok st l : xstate_ok st -> xstate_ok (xstep st l).
Proof.
  destruct st as [m out|e]; [|auto]. intros [Hout Hm]. destruct m as [|n|n c todo acc]; cbn [xstep].
  - destruct (parse_int l); simpl; auto.
  - destruct (Z.leb_spec n 0) as [Hle|Hgt]; simpl.
    + split; [|exact I]. constructor; [left; simpl; auto|exact Hout].
    + split; [exact Hout|]. split; simpl; lia.
  - destruct (xyz_atom l) as [a|]; [|exact I]. destruct Hm as [H1 H2].
    destruct (N.leb_spec todo 1) as [Hle|Hgt]; simpl.
    + split; [|exact I]. constructor; [|exact Hout]. right. simpl. rewrite app_length, rev_length. simpl. lia.
    + split; [exact Hout|]. split; [lia|]. simpl List.length. lia.
Qed.
Lemma xrun_ok ls : forall st, xstate_ok st -> xstate_ok (xrun st ls).
Proof. induction ls as [|l ls IH]; intros st H; [exact H|]. apply IH. now apply xstep_ok. Qed.
Theorem read_xyz_counts ls bs : read_xyz ls = Ok bs -> Forall xblock_ok bs.
Proof.
  unfold read_xyz. intros H. pose proof (xrun_ok ls xinit (conj (Forall_nil _) I)) as Hok.
  destruct (xrun xinit ls) as [m out|e]; [|discriminate]. destruct m; try discriminate.
  simpl in H. injection H as <-. destruct Hok as [Hout _]. apply Forall_rev. exact Hout.
Qed.

(* ---- molecules *)
Lemma map_opt_length {A B} (f : A -> option B) l : forall r, map_opt f l = Some r -> List.length r = List.length l.
Proof.
  induction l as [|x l IH]; intros r H; simpl in H; [injection H as <-; reflexivity|].
  destruct (f x); [|discriminate]. destruct (map_opt f l) eqn:E; [|discriminate]. injection H as <-. simpl. f_equal. now apply IH.
Qed.
Lemma all_ok_Forall2 {A B} (f : A -> res B) l : forall ms, all_ok (map f l) = Ok ms -> Forall2 (fun b m => f b = Ok m) l ms.
Proof.
  induction l as [|x l IH]; intros ms H; simpl in H; [injection H as <-; constructor|].
  destruct (f x) eqn:E; [|discriminate]. destruct (all_ok (map f l)) eqn:E2; [|discriminate]. injection H as <-.
  constructor; auto.
Qed.
Lemma all_ok_firstn {A B} (f : A -> res B) l : forall ms j, all_ok (map f l) = Ok ms ->
  all_ok (map f (firstn j l)) = Ok (firstn j ms).
Proof.
  induction l as [|x l IH]; intros ms j H; simpl in H.
  - injection H as <-. now rewrite !firstn_nil.
  - destruct (f x) eqn:E; [|discriminate]. destruct (all_ok (map f l)) eqn:E2; [|discriminate]. injection H as <-.
    destruct j; [reflexivity|]. simpl. rewrite E. now rewrite (IH _ j eq_refl).
Qed.

Definition mol_ok (m : mol) : Prop :=
  m_natoms m = Z.of_nat (List.length (m_elems m)) /\ List.length (m_coords m) = List.length (m_elems m).

Lemma xyz_build_ok zero_ok f b m : xblock_ok b -> xyz_build zero_ok f b = Ok m -> mol_ok m.
Proof.
  unfold xyz_build. intros Hb H. destruct (Z.ltb_spec (xb_n b) 0) as [Hneg|Hge]; [discriminate|].
  destruct ((xb_n b =? 0)%Z && negb zero_ok); [discriminate|].
  destruct (map_opt _ (xb_atoms b)) as [es|] eqn:E; [|discriminate]. injection H as <-.
  apply map_opt_length in E. unfold mol_ok. simpl. rewrite map_length, E. split; [|reflexivity].
  destruct Hb as [[Hle Hnil]|Heq]; [rewrite Hnil; simpl; lia|exact Heq].
Qed.

Theorem load_xyz_counts zero_ok f ls ms : load_xyz_lines zero_ok f ls = Ok ms -> Forall mol_ok ms.
Proof.
  unfold load_xyz_lines, res_bind. destruct (read_xyz ls) as [bs|e] eqn:E; [|discriminate]. intros H.
  pose proof (read_xyz_counts ls bs E) as Hbs. apply all_ok_Forall2 in H. clear E.
  revert Hbs. induction H as [|b m bs' ms' Hbm HF IH]; intros Hbs; [constructor|]. inversion Hbs; subst.
  constructor; [eapply xyz_build_ok; eauto|auto].
Qed.

Theorem load_xyz_truncated P zero_ok f bs ls ms : xwf_text P bs ls -> load_xyz_lines zero_ok f ls = Ok ms -> forall k,
  (exists e, load_xyz_lines zero_ok f (firstn k ls) = Err e) \/
  (exists j, load_xyz_lines zero_ok f (firstn k ls) = Ok (firstn j ms)).
Proof.
  intros Hwf Hfull k. unfold load_xyz_lines, res_bind in *. rewrite (read_xyz_wf P bs ls Hwf) in Hfull.
  destruct (read_xyz_truncated P bs ls Hwf k) as [[e E]|[j E]]; rewrite E.
  - left. now exists e.
  - right. exists j. now apply all_ok_firstn.
Qed.

Theorem load_xyz_deleted zero_ok f bs ls i : xwf_text comment_ok bs ls -> (i < List.length ls)%nat ->
  exists e, load_xyz_lines zero_ok f (del_nth i ls) = Err e.
Proof.
  intros H Hi. destruct (read_xyz_deleted bs ls i H Hi) as [e E]. exists e. unfold load_xyz_lines, res_bind. now rewrite E.
Qed.
Theorem load_xyz_duplicated zero_ok f bs ls i : xwf_text comment_ok bs ls -> (i < List.length ls)%nat ->
  exists e, load_xyz_lines zero_ok f (dup_nth i ls) = Err e.
Proof.
  intros H Hi. destruct (read_xyz_duplicated bs ls i H Hi) as [e E]. exists e. unfold load_xyz_lines, res_bind. now rewrite E.
Qed.

(* ---- a cut inside the last line *)
Lemma xatoms_short_exact n c out als atoms : Forall2 (fun l a => xyz_atom l = Some a) als atoms -> forall todo acc,
  (N.of_nat (List.length als) < todo)%N ->
  xrun (XRun (XAtoms n c todo acc) out) als = XRun (XAtoms n c (todo - N.of_nat (List.length als)) (rev atoms ++ acc)) out.
Proof.
  induction 1 as [|l a als atoms Ha HF IH]; intros todo acc H.
  - simpl. now rewrite N.sub_0_r.
  - rewrite xrun_cons. cbn [xstep]. rewrite Ha. destruct (N.leb_spec todo 1); [simpl in H; lia|].
    rewrite IH by (simpl in H; lia). simpl rev. rewrite <- app_assoc. simpl.
    f_equal. f_equal. simpl List.length. lia.
Qed.

(* the last record replaced by an arbitrary line l' *)
Theorem read_xyz_last_line P bs0 pre0 cl cm als ats n a last l' :
  xwf_text P bs0 pre0 -> parse_int cl = Some n -> n = Z.of_nat (S (List.length ats)) ->
  Forall2 (fun l a => xyz_atom l = Some a) als ats -> xyz_atom last = Some a ->
  read_xyz (pre0 ++ cl :: cm :: als ++ [last]) = Ok (bs0 ++ [mk_xblock n (strip cm) (ats ++ [a])]) /\
  match xyz_atom l' with
  | None => exists e, read_xyz (pre0 ++ cl :: cm :: als ++ [l']) = Err e
  | Some a' => read_xyz (pre0 ++ cl :: cm :: als ++ [l']) = Ok (bs0 ++ [mk_xblock n (strip cm) (ats ++ [a'])])
  end.
Proof.
  intros Hpre Hc Hn HF Ha.
  assert (G : forall x, xrun xinit (pre0 ++ cl :: cm :: als ++ [x]) =
                        xstep (XRun (XAtoms n (strip cm) 1 (rev ats)) (rev bs0)) x).
  { intros x. unfold xinit. rewrite (xrun_text P bs0 pre0 Hpre). rewrite app_nil_r.
    rewrite !xrun_cons. cbn [xstep]. rewrite Hc. cbn [xstep].
    destruct (Z.leb_spec n 0) as [Hle|Hgt]; [lia|]. rewrite xrun_app.
    pose proof (Forall2_length HF) as Hlen.
    rewrite (xatoms_short_exact n (strip cm) (rev bs0) als ats HF) by lia. rewrite app_nil_r.
    replace (Z.to_N n - N.of_nat (List.length als))%N with 1%N by lia. reflexivity. }
  unfold read_xyz. split.
  - rewrite G. cbn [xstep]. rewrite Ha. simpl. rewrite !rev_involutive. reflexivity.
  - destruct (xyz_atom l') as [a'|] eqn:E; rewrite G; cbn [xstep]; rewrite E.
    + simpl. rewrite !rev_involutive. reflexivity.
    + exists ESyntax. reflexivity.
Qed.

(* what a cut can do to the last record: the atom parser sees the same first three tokens *)
Lemma xyz_atom_cut last a b a' : xyz_atom last = Some a -> xyz_atom (firstn b last) = Some a' ->
  xa_sym a' = xa_sym a /\ xa_x a' = xa_x a /\ xa_y a' = xa_y a /\
  (a' = a \/ exists t zt, nth 3 (split last) [] = zt /\ nprefix t zt /\ parse_float t = Some (xa_z a')).
Proof.
  unfold xyz_atom. intros Ha Ha'. destruct (split_firstn last b) as [j [p [E Hp]]].
  destruct (split last) as [|s [|x [|y [|z [|w r]]]]] eqn:Es; try discriminate.
  destruct (parse_float x) as [fx|] eqn:Ex; [|discriminate]. destruct (parse_float y) as [fy|] eqn:Ey; [|discriminate].
  destruct (parse_float z) as [fz|] eqn:Ez; [|discriminate]. injection Ha as <-.
  rewrite E in Ha'. destruct Hp as [->|[t [-> Ht]]].
  - rewrite app_nil_r in Ha'. destruct j as [|[|[|[|[|j]]]]]; simpl in Ha'; try discriminate.
    + rewrite Ex, Ey, Ez in Ha'. injection Ha' as <-. simpl. auto.
    + rewrite Ex, Ey, Ez in Ha'. injection Ha' as <-. simpl. auto.
  - destruct j as [|[|[|[|[|j]]]]]; simpl in Ha'; try discriminate.
    rewrite Ex, Ey in Ha'. destruct (parse_float t) as [ft|] eqn:Et; [|discriminate]. injection Ha' as <-. simpl.
    repeat split; auto. right. exists t, z. simpl in Ht. auto.
Qed.



(* ================================================================= mol2: counts (ALL inputs) *)
Definition m2block_ok (b : m2block) : Prop :=
  Z.of_nat (List.length (mk_atoms b)) = mh_natoms (mk_hdr b) /\ Z.of_nat (List.length (mk_bonds b)) = nb_of (mk_hdr b).
Definition m2out (st : m2state) : list m2block := match st with MRun _ v => v_out v | MFail _ => [] end.

Lemma m2yield_ok v v' : Forall m2block_ok (v_out v) -> m2yield true v = Ok v' -> Forall m2block_ok (v_out v').
Proof.
  unfold m2yield. intros Hout H. destruct (v_hdr v) as [h|]; [|injection H as <-; exact Hout].
  destruct (v_atoms v) as [ra|]; [|discriminate]. destruct (v_bonds v) as [rb|]; [|discriminate].
  destruct (len_is ra (mh_natoms h) && len_is rb (nb_of h)) eqn:E; [|discriminate]. injection H as <-. simpl.
  constructor; [|exact Hout]. apply andb_prop in E. destruct E as [E1 E2]. unfold len_is in *.
  apply Z.eqb_eq in E1. apply Z.eqb_eq in E2. split; simpl; rewrite rev_length; assumption.
Qed.

Lemma m2main_ok v l : Forall m2block_ok (v_out v) -> Forall m2block_ok (m2out (m2main true v l)).
Proof.
  intros H. unfold m2main. destruct l as [|c r]; [exact H|]. destruct (ascii_eqb c "#"); [exact H|].
  destruct (tripos_name (c :: r)) as [nm|].
  - destruct (section_of nm); cbn [v_hdr v_atoms v_bonds v_out v_skip].
    + destruct (m2yield true _) as [v'|e] eqn:E; [|constructor]. apply m2yield_ok in E; [|exact H]. exact E.
    + destruct (v_hdr v); [|constructor]. destruct (true && nonempty_opt (v_atoms v)); [constructor|].
      destruct (mh_natoms m <=? 0)%Z; exact H.
    + destruct (v_hdr v); [|constructor]. destruct (mh_nbonds m); [|constructor].
      destruct (true && nonempty_opt (v_bonds v)); [constructor|]. destruct (z <=? 0)%Z; exact H.
    + exact H.
    + exact H.
    + exact H.
  - destruct (v_skip v); [exact H|constructor].
Qed.

Lemma m2step_ok st l : Forall m2block_ok (m2out st) -> Forall m2block_ok (m2out (m2step true st l)).
Proof.
  destruct st as [m v|e]; [|intros; constructor]. simpl m2out. intros H. unfold m2step.
  destruct m.
  - now apply m2main_ok.
  - destruct got as [|a [|b [|c [|d [|e got]]]]]; try exact H.
    destruct (m2header d c a) as [h|]; [|constructor].
    destruct (tripos_name (strip l)); [apply m2main_ok; exact H|]. destruct (str_eqb _ _); exact H.
  - exact H.
  - destruct (List.length (split (strip l)) <? 5)%nat; [constructor|]. destruct (todo <=? 1)%N; exact H.
  - destruct (List.length (split (strip l)) <? 4)%nat; [constructor|]. destruct (todo <=? 1)%N; exact H.
  - destruct (tripos_name (strip l)); [now apply m2main_ok|]. destruct (two_ints (strip l)) as [[i n]|]; [|constructor].
    destruct (n <=? 0)%Z; exact H.
  - destruct (split (strip l)) as [|a [|b [|c r]]]; try constructor.
    unfold set_atom_attr. destruct (v_atoms v); [|constructor]. destruct (py_index _ _); [|constructor].
    destruct (todo <=? 1)%N; exact H.
  - destruct (tripos_name (strip l)); [now apply m2main_ok|]. destruct (two_ints (strip l)) as [[i n]|]; [|constructor].
    destruct (n <=? 0)%Z; exact H.
  - destruct (split (strip l)) as [|a [|b [|c r]]]; try constructor.
    unfold chk_bond_attr. destruct (v_bonds v); [|constructor]. destruct (py_index _ _); [|constructor].
    destruct (todo <=? 1)%N; exact H.
Qed.

Lemma m2run_ok ls : forall st, Forall m2block_ok (m2out st) -> Forall m2block_ok (m2out (m2run true st ls)).
Proof. induction ls as [|l ls IH]; intros st H; [exact H|]. apply IH. now apply m2step_ok. Qed.

Theorem read_mol2_counts ls bs : read_mol2 true ls = Ok bs -> Forall m2block_ok bs.
Proof.
  unfold read_mol2. intros H. pose proof (m2run_ok ls (m2init) (Forall_nil _)) as Hok.
  destruct (m2run true m2init ls) as [m v|e]; [|discriminate]. simpl in Hok. destruct m; try discriminate.
  simpl in H. destruct (v_hdr v); [|discriminate]. destruct (m2yield true v) as [v'|] eqn:E; [|discriminate].
  injection H as <-. apply Forall_rev. eapply m2yield_ok; eauto.
Qed.



(* ================================================================= mol2: well-formed texts, truncation *)
Definition ignorable (l : str) : Prop := strip l = [] \/ exists r, strip l = "#" :: r.
Definition is_sec (l : str) (s : section) : Prop :=
  exists nm r, strip l = "@" :: r /\ tripos_name (strip l) = Some nm /\ section_of nm = s.
Definition plain_status (l : str) : Prop := tripos_name (strip l) = None /\ str_eqb (strip l) (s2l "****") = false.
Definition atom_line_of (l : str) (a : m2atom) : Prop :=
  a = mk_m2atom (split (strip l)) None /\ (5 <= List.length (split (strip l)))%nat.
Definition bond_line_of (l : str) (b : m2bond) : Prop :=
  b = mk_m2bond (split (strip l)) /\ (4 <= List.length (split (strip l)))%nat.

Inductive m2wf : m2block -> list str -> Prop :=
| m2wf_intro ign lm name counts mtype ctype status la als lb bls h atoms bonds :
    Forall ignorable ign -> is_sec lm SMolecule ->
    m2header (strip name) (strip counts) (strip ctype) = Ok h -> plain_status status ->
    is_sec la SAtom -> mh_natoms h = Z.of_nat (List.length atoms) -> Forall2 atom_line_of als atoms ->
    is_sec lb SBond -> mh_nbonds h = Some (Z.of_nat (List.length bonds)) -> Forall2 bond_line_of bls bonds ->
    m2wf (mk_m2block h atoms bonds)
         (ign ++ lm :: name :: counts :: mtype :: ctype :: status :: la :: als ++ lb :: bls).
Inductive m2wf_text : list m2block -> list str -> Prop :=
| m2wt_nil : m2wf_text [] []
| m2wt_cons b bs l ls : m2wf b l -> m2wf_text bs ls -> m2wf_text (b :: bs) (l ++ ls).

Notation V oh oa ob out := (mk_m2vars oh oa ob false out).

Lemma m2run_app st a b : m2run true (m2run true st a) b = m2run true st (a ++ b).
Proof. unfold m2run. symmetry. apply fold_left_app. Qed.
Lemma m2run_cons st l ls : m2run true st (l :: ls) = m2run true (m2step true st l) ls.
Proof. reflexivity. Qed.

(* pending molecule: parsed but not yet yielded *)
Definition pend := option (m2hdr * list m2atom * list m2bond).
Definition pvars (out : list m2block) (p : pend) : m2vars :=
  match p with
  | None => V None None None out
  | Some (h, a, b) => V (Some h) (Some (rev a)) (Some (rev b)) out
  end.
Definition pout (out : list m2block) (p : pend) : list m2block :=
  match p with None => out | Some (h, a, b) => mk_m2block h a b :: out end.
Definition pok (p : pend) : Prop :=
  match p with None => True
  | Some (h, a, b) => Z.of_nat (List.length a) = mh_natoms h /\ Z.of_nat (List.length b) = nb_of h end.
Definition phdr (p : pend) : option m2hdr := match p with None => None | Some (h, _, _) => Some h end.

Lemma len_is_rev {A} (l : list A) z : len_is (rev l) z = len_is l z.
Proof. unfold len_is. now rewrite rev_length. Qed.

Lemma yield_pending out p : pok p -> exists oa ob, m2yield true (pvars out p) = Ok (mk_m2vars (phdr p) oa ob false (pout out p)).
Proof.
  destruct p as [[[h a] b]|]; simpl; intros H.
  - destruct H as [H1 H2]. unfold m2yield. simpl. rewrite !len_is_rev. unfold len_is.
    rewrite H1, H2, !Z.eqb_refl. simpl. rewrite !rev_involutive. eauto.
  - unfold m2yield. simpl. eauto.
Qed.

Lemma step_ign v l : ignorable l -> m2step true (MRun MMain v) l = MRun MMain v.
Proof. intros [H|[r H]]; unfold m2step, m2main; rewrite H; reflexivity. Qed.
Lemma run_ign v ign : Forall ignorable ign -> m2run true (MRun MMain v) ign = MRun MMain v.
Proof. induction 1 as [|l ign Hl _ IH]; [reflexivity|]. rewrite m2run_cons, step_ign by exact Hl. exact IH. Qed.

Lemma step_molecule out p l : pok p -> is_sec l SMolecule ->
  m2step true (MRun MMain (pvars out p)) l = MRun (MHdr []) (mk_m2vars (phdr p) (Some []) (Some []) false (pout out p)).
Proof.
  intros Hp (nm & r & E1 & E2 & E3). unfold m2step, m2main. rewrite E1 in *. rewrite E2, E3.
  change (ascii_eqb "@" "#") with false. cbv iota.
  replace (mk_m2vars (v_hdr (pvars out p)) (v_atoms (pvars out p)) (v_bonds (pvars out p)) false (v_out (pvars out p)))
    with (pvars out p) by (destruct p as [[[h a] b]|]; reflexivity).
  destruct (yield_pending out p Hp) as [oa [ob E]]. rewrite E. reflexivity.
Qed.

Lemma step_hdr_push v got l : (List.length got < 4)%nat -> m2step true (MRun (MHdr got) v) l = MRun (MHdr (strip l :: got)) v.
Proof. intros H. unfold m2step. destruct got as [|a [|b [|c [|d r]]]]; try reflexivity. simpl in H. lia. Qed.

Lemma step_hdr_status oh oa ob out name counts mtype ctype status h :
  m2header (strip name) (strip counts) (strip ctype) = Ok h -> plain_status status ->
  m2step true (MRun (MHdr [strip ctype; strip mtype; strip counts; strip name]) (V oh oa ob out)) status
  = MRun MMain (V (Some h) oa ob out).
Proof. intros Hh [H1 H2]. unfold m2step. rewrite Hh, H1, H2. reflexivity. Qed.

Lemma step_atom_sec h ob out l : is_sec l SAtom ->
  m2step true (MRun MMain (V (Some h) (Some []) ob out)) l =
  if (mh_natoms h <=? 0)%Z then MRun MMain (V (Some h) (Some []) ob out)
  else MRun (MAtoms (Z.to_N (mh_natoms h))) (V (Some h) (Some []) ob out).
Proof.
  intros (nm & r & E1 & E2 & E3). unfold m2step, m2main. rewrite E1 in *. rewrite E2, E3.
  change (ascii_eqb "@" "#") with false. cbv iota. simpl. destruct (mh_natoms h <=? 0)%Z; reflexivity.
Qed.
Lemma step_bond_sec h oa out l nb : is_sec l SBond -> mh_nbonds h = Some nb ->
  m2step true (MRun MMain (V (Some h) oa (Some []) out)) l =
  if (nb <=? 0)%Z then MRun MMain (V (Some h) oa (Some []) out)
  else MRun (MBonds (Z.to_N nb)) (V (Some h) oa (Some []) out).
Proof.
  intros (nm & r & E1 & E2 & E3) Hnb. unfold m2step, m2main. rewrite E1 in *. rewrite E2, E3.
  change (ascii_eqb "@" "#") with false. cbv iota. simpl. rewrite Hnb. simpl. destruct (nb <=? 0)%Z; reflexivity.
Qed.

Lemma step_atom oh ra ob out todo l a : atom_line_of l a ->
  m2step true (MRun (MAtoms todo) (V oh (Some ra) ob out)) l =
  if (todo <=? 1)%N then MRun MMain (V oh (Some (a :: ra)) ob out) else MRun (MAtoms (todo - 1)) (V oh (Some (a :: ra)) ob out).
Proof.
  intros [-> H]. unfold m2step. destruct (Nat.ltb_spec (List.length (split (strip l))) 5); [lia|]. reflexivity.
Qed.
Lemma step_bond oh oa rb out todo l b : bond_line_of l b ->
  m2step true (MRun (MBonds todo) (V oh oa (Some rb) out)) l =
  if (todo <=? 1)%N then MRun MMain (V oh oa (Some (b :: rb)) out) else MRun (MBonds (todo - 1)) (V oh oa (Some (b :: rb)) out).
Proof.
  intros [-> H]. unfold m2step. destruct (Nat.ltb_spec (List.length (split (strip l))) 4); [lia|]. reflexivity.
Qed.

Lemma atoms_short oh ob out als atoms : Forall2 atom_line_of als atoms -> forall todo ra,
  (N.of_nat (List.length als) < todo)%N ->
  m2run true (MRun (MAtoms todo) (V oh (Some ra) ob out)) als
  = MRun (MAtoms (todo - N.of_nat (List.length als))) (V oh (Some (rev atoms ++ ra)) ob out).
Proof.
  induction 1 as [|l a als atoms Ha HF IH]; intros todo ra H.
  - simpl. now rewrite N.sub_0_r.
  - rewrite m2run_cons, (step_atom _ _ _ _ _ _ a Ha). destruct (N.leb_spec todo 1); [simpl in H; lia|].
    rewrite IH by (simpl in H; lia). simpl rev. rewrite <- app_assoc. simpl. f_equal. f_equal. simpl List.length. lia.
Qed.
Lemma atoms_exact oh ob out als atoms : Forall2 atom_line_of als atoms -> als <> [] -> forall ra,
  m2run true (MRun (MAtoms (N.of_nat (List.length als))) (V oh (Some ra) ob out)) als
  = MRun MMain (V oh (Some (rev atoms ++ ra)) ob out).
Proof.
  intros HF Hne ra. destruct (exists_last Hne) as [als' [l ->]].
  apply Forall2_app_inv_l in HF. destruct HF as (atoms' & atoms1 & HF' & HF1 & ->).
  inversion HF1 as [|? a ? ? Ha HFn]; subst. inversion HFn; subst.
  rewrite <- m2run_app. rewrite (atoms_short oh ob out als' atoms' HF') by (rewrite app_length; simpl; lia).
  rewrite app_length. simpl List.length. rewrite m2run_cons, (step_atom _ _ _ _ _ _ a Ha).
  destruct (N.leb_spec (N.of_nat (List.length als' + 1) - N.of_nat (List.length als')) 1); [|lia].
  simpl. rewrite rev_app_distr. reflexivity.
Qed.
Lemma bonds_short oh oa out bls bonds : Forall2 bond_line_of bls bonds -> forall todo rb,
  (N.of_nat (List.length bls) < todo)%N ->
  m2run true (MRun (MBonds todo) (V oh oa (Some rb) out)) bls
  = MRun (MBonds (todo - N.of_nat (List.length bls))) (V oh oa (Some (rev bonds ++ rb)) out).
Proof.
  induction 1 as [|l a bls bonds Ha HF IH]; intros todo rb H.
  - simpl. now rewrite N.sub_0_r.
  - rewrite m2run_cons, (step_bond _ _ _ _ _ _ a Ha). destruct (N.leb_spec todo 1); [simpl in H; lia|].
    rewrite IH by (simpl in H; lia). simpl rev. rewrite <- app_assoc. simpl. f_equal. f_equal. simpl List.length. lia.
Qed.
Lemma bonds_exact oh oa out bls bonds : Forall2 bond_line_of bls bonds -> bls <> [] -> forall rb,
  m2run true (MRun (MBonds (N.of_nat (List.length bls))) (V oh oa (Some rb) out)) bls
  = MRun MMain (V oh oa (Some (rev bonds ++ rb)) out).
Proof.
  intros HF Hne rb. destruct (exists_last Hne) as [bls' [l ->]].
  apply Forall2_app_inv_l in HF. destruct HF as (bonds' & bonds1 & HF' & HF1 & ->).
  inversion HF1 as [|? a ? ? Ha HFn]; subst. inversion HFn; subst.
  rewrite <- m2run_app. rewrite (bonds_short oh oa out bls' bonds' HF') by (rewrite app_length; simpl; lia).
  rewrite app_length. simpl List.length. rewrite m2run_cons, (step_bond _ _ _ _ _ _ a Ha).
  destruct (N.leb_spec (N.of_nat (List.length bls' + 1) - N.of_nat (List.length bls')) 1); [|lia].
  simpl. rewrite rev_app_distr. reflexivity.
Qed.


(* ---- where a truncated well-formed block can leave the reader *)
Lemma Forall2_firstn {A B} (R : A -> B -> Prop) k : forall l1 l2, Forall2 R l1 l2 -> Forall2 R (firstn k l1) (firstn k l2).
Proof. induction k as [|k IH]; intros l1 l2 H; [constructor|]. destruct H; simpl; constructor; auto. Qed.
Lemma Forall_firstn'' {A} (P : A -> Prop) l n : Forall P l -> Forall P (firstn n l).
Proof.
  revert n. induction l as [|x l IH]; intros n H; [destruct n; constructor|].
  destruct n; simpl; [constructor|]. inversion H; subst. constructor; auto.
Qed.

Lemma finish_main h ra rb out :
  m2finish true (MRun MMain (V (Some h) (Some ra) (Some rb) out)) =
  if len_is ra (mh_natoms h) && len_is rb (nb_of h) then Ok (rev (mk_m2block h (rev ra) (rev rb) :: out)) else Err ECounts.
Proof. unfold m2finish, m2yield. simpl. destruct (len_is ra (mh_natoms h) && len_is rb (nb_of h)); reflexivity. Qed.

Definition good (h : m2hdr) (atoms : list m2atom) (bonds : list m2bond) (out' : list m2block) (st : m2state) : Prop :=
  (exists e, m2finish true st = Err e) \/ m2finish true st = Ok (rev (mk_m2block h atoms bonds :: out')).

Lemma nb_of_h h (bonds : list m2bond) : mh_nbonds h = Some (Z.of_nat (List.length bonds)) -> nb_of h = Z.of_nat (List.length bonds).
Proof. intros Hnb. unfold nb_of. now rewrite Hnb. Qed.

Lemma good_main h atoms bonds out' ra rb :
  (len_is ra (mh_natoms h) = true -> rev ra = atoms) -> (len_is rb (nb_of h) = true -> rev rb = bonds) ->
  good h atoms bonds out' (MRun MMain (V (Some h) (Some ra) (Some rb) out')).
Proof.
  intros H1 H2. unfold good. rewrite finish_main.
  destruct (len_is ra (mh_natoms h)) eqn:E1; [|left; eexists; reflexivity].
  destruct (len_is rb (nb_of h)) eqn:E2; [|left; eexists; reflexivity].
  right. simpl. now rewrite H1, H2.
Qed.
Lemma len0_nil {A B} (m : list B) : len_is (@nil A) (Z.of_nat (List.length m)) = true -> m = [].
Proof. unfold len_is. intros H. apply Z.eqb_eq in H. destruct m; [reflexivity|simpl in H; lia]. Qed.

Lemma good_bonds h atoms bonds out' lb bls k :
  mh_nbonds h = Some (Z.of_nat (List.length bonds)) ->
  is_sec lb SBond -> Forall2 bond_line_of bls bonds -> (k < S (List.length bls))%nat ->
  good h atoms bonds out' (m2run true (MRun MMain (V (Some h) (Some (rev atoms)) (Some []) out')) (firstn k (lb :: bls))).
Proof.
  intros Hnb Hlb HF Hk. pose proof (Forall2_length HF) as Hlen. destruct k as [|k]; simpl firstn.
  - simpl. apply good_main.
    + intros _. apply rev_involutive.
    + rewrite (nb_of_h h bonds Hnb). intros H. simpl. symmetry. eapply len0_nil; eauto.
  - rewrite m2run_cons, (step_bond_sec h _ _ lb _ Hlb Hnb).
    destruct (Z.leb_spec (Z.of_nat (List.length bonds)) 0) as [Hle|Hgt]; [lia|].
    rewrite (bonds_short _ _ _ (firstn k bls) (firstn k bonds)).
    + left. eexists. reflexivity.
    + now apply Forall2_firstn.
    + rewrite firstn_length. lia.
Qed.

Lemma good_atoms h atoms bonds out' la als lb bls k :
  mh_natoms h = Z.of_nat (List.length atoms) -> mh_nbonds h = Some (Z.of_nat (List.length bonds)) ->
  is_sec la SAtom -> Forall2 atom_line_of als atoms -> is_sec lb SBond ->
  Forall2 bond_line_of bls bonds -> (k < S (List.length als + S (List.length bls)))%nat ->
  good h atoms bonds out' (m2run true (MRun MMain (V (Some h) (Some []) (Some []) out')) (firstn k (la :: als ++ lb :: bls))).
Proof.
  intros Hna Hnb Hla HFa Hlb HFb Hk. pose proof (Forall2_length HFa) as Hlen. destruct k as [|k]; simpl firstn.
  - simpl. apply good_main.
    + rewrite Hna. intros H. simpl. symmetry. eapply len0_nil; eauto.
    + rewrite (nb_of_h h bonds Hnb). intros H. simpl. symmetry. eapply len0_nil; eauto.
  - rewrite m2run_cons, (step_atom_sec h _ _ la Hla). rewrite firstn_app.
    destruct (Z.leb_spec (mh_natoms h) 0) as [Hle|Hgt].
    + assert (atoms = []) by (destruct atoms; [reflexivity|simpl in Hna; lia]). subst atoms. inversion HFa; subst.
      rewrite firstn_nil. simpl List.length. rewrite Nat.sub_0_r. simpl app.
      apply (good_bonds h [] bonds out' lb bls k Hnb Hlb HFb). simpl in Hk. lia.
    + destruct (le_lt_dec (List.length als) k) as [Hge|Hlt].
      * rewrite firstn_all2 by exact Hge. rewrite <- m2run_app.
        replace (Z.to_N (mh_natoms h)) with (N.of_nat (List.length als)) by lia.
        rewrite (atoms_exact _ _ _ als atoms HFa) by (destruct als; [simpl in *; lia|discriminate]).
        rewrite app_nil_r. apply (good_bonds h atoms bonds out' lb bls _ Hnb Hlb HFb). lia.
      * replace (k - List.length als)%nat with 0%nat by lia. simpl firstn. rewrite app_nil_r.
        rewrite (atoms_short _ _ _ (firstn k als) (firstn k atoms)).
        -- left. eexists. reflexivity.
        -- now apply Forall2_firstn.
        -- rewrite firstn_length. lia.
Qed.

Lemma finish_pending out p : pok p ->
  (exists e, m2finish true (MRun MMain (pvars out p)) = Err e) \/ m2finish true (MRun MMain (pvars out p)) = Ok (rev (pout out p)).
Proof.
  intros Hp. destruct p as [[[h a] b]|]; cbn [pvars pout].
  - right. rewrite finish_main. destruct Hp as [H1 H2]. rewrite !len_is_rev. unfold len_is. rewrite H1, H2, !Z.eqb_refl.
    simpl. now rewrite !rev_involutive.
  - left. eexists. reflexivity.
Qed.

(* a whole block *)
Lemma run_block b l out p : m2wf b l -> pok p ->
  m2run true (MRun MMain (pvars out p)) l = MRun MMain (pvars (pout out p) (Some (mk_hdr b, mk_atoms b, mk_bonds b))) /\
  pok (Some (mk_hdr b, mk_atoms b, mk_bonds b)).
Proof.
  intros H Hp. destruct H as [ign lm name counts mtype ctype status la als lb bls h atoms bonds Hign Hlm Hh Hst Hla Hna HFa Hlb Hnb HFb].
  cbn [mk_hdr mk_atoms mk_bonds]. split; [|split; [now rewrite Hna|unfold nb_of; now rewrite Hnb]].
  rewrite <- m2run_app, run_ign by exact Hign. rewrite m2run_cons, step_molecule by assumption.
  rewrite !m2run_cons. rewrite !step_hdr_push by (simpl; lia). rewrite (step_hdr_status _ _ _ _ _ _ _ _ _ h Hh Hst).
  rewrite (step_atom_sec h _ _ la Hla). pose proof (Forall2_length HFa) as Hlena. pose proof (Forall2_length HFb) as Hlenb.
  assert (E1 : m2run true (if (mh_natoms h <=? 0)%Z then MRun MMain (V (Some h) (Some []) (Some []) (pout out p))
                          else MRun (MAtoms (Z.to_N (mh_natoms h))) (V (Some h) (Some []) (Some []) (pout out p))) als
               = MRun MMain (V (Some h) (Some (rev atoms)) (Some []) (pout out p))).
  { destruct (Z.leb_spec (mh_natoms h) 0) as [Hle|Hgt].
    - assert (atoms = []) by (destruct atoms; [reflexivity|simpl in Hna; lia]). subst atoms. inversion HFa; subst. reflexivity.
    - replace (Z.to_N (mh_natoms h)) with (N.of_nat (List.length als)) by lia.
      rewrite (atoms_exact _ _ _ als atoms HFa) by (destruct als; [simpl in *; lia|discriminate]). now rewrite app_nil_r. }
  rewrite <- m2run_app, E1. rewrite m2run_cons, (step_bond_sec h _ _ lb _ Hlb Hnb).
  destruct (Z.leb_spec (Z.of_nat (List.length bonds)) 0) as [Hle|Hgt].
  - assert (bonds = []) by (destruct bonds; [reflexivity|simpl in Hle; lia]). subst bonds. inversion HFb; subst. reflexivity.
  - replace (Z.to_N (Z.of_nat (List.length bonds))) with (N.of_nat (List.length bls)) by lia.
    rewrite (bonds_exact _ _ _ bls bonds HFb) by (destruct bls; [simpl in *; lia|discriminate]). now rewrite app_nil_r.
Qed.

(* a proper prefix of a block *)
Lemma block_prefix b l out p k : m2wf b l -> pok p -> (k < List.length l)%nat ->
  let st := m2run true (MRun MMain (pvars out p)) (firstn k l) in
  (exists e, m2finish true st = Err e) \/ m2finish true st = Ok (rev (pout out p)) \/ m2finish true st = Ok (rev (b :: pout out p)).
Proof.
  intros H Hp Hk. destruct H as [ign lm name counts mtype ctype status la als lb bls h atoms bonds Hign Hlm Hh Hst Hla Hna HFa Hlb Hnb HFb].
  cbv zeta. rewrite firstn_app. destruct (le_lt_dec k (List.length ign)) as [Hle|Hgt].
  - replace (k - List.length ign)%nat with 0%nat by lia. simpl firstn. rewrite app_nil_r.
    rewrite run_ign by (now apply Forall_firstn''). destruct (finish_pending out p Hp) as [E|E]; auto.
  - rewrite firstn_all2 by lia. rewrite <- m2run_app, run_ign by exact Hign.
    remember (k - List.length ign)%nat as k1 eqn:Ek1. destruct k1 as [|k1]; [lia|]. simpl firstn.
    rewrite m2run_cons, step_molecule by assumption.
    rewrite app_length in Hk. simpl in Hk. rewrite app_length in Hk. simpl in Hk.
    do 5 (destruct k1 as [|k1]; [left; eexists; reflexivity|]; simpl firstn; rewrite m2run_cons;
          try (rewrite step_hdr_push by (simpl; lia))).
    rewrite (step_hdr_status _ _ _ _ _ _ _ _ _ h Hh Hst).
    destruct (good_atoms h atoms bonds (pout out p) la als lb bls k1 Hna Hnb Hla HFa Hlb HFb) as [E|E]; [lia|auto|auto].
Qed.

Definition pend_of (b : m2block) : pend := Some (mk_hdr b, mk_atoms b, mk_bonds b).
Lemma pout_pend_of out b : pout out (pend_of b) = b :: out.
Proof. destruct b; reflexivity. Qed.

Lemma finish_some out b : pok (pend_of b) -> m2finish true (MRun MMain (pvars out (pend_of b))) = Ok (rev (b :: out)).
Proof.
  intros Hp. destruct (finish_pending out (pend_of b) Hp) as [[e E]|E].
  - exfalso. unfold pend_of in *. cbn [pvars] in E. rewrite finish_main in E. destruct Hp as [H1 H2].
    rewrite !len_is_rev in E. unfold len_is in E. rewrite H1, H2, !Z.eqb_refl in E. discriminate.
  - now rewrite E, pout_pend_of.
Qed.

Lemma run_text bs ls : m2wf_text bs ls -> forall out p, pok p ->
  match rev bs with
  | [] => m2run true (MRun MMain (pvars out p)) ls = MRun MMain (pvars out p)
  | b :: rbs => m2run true (MRun MMain (pvars out p)) ls = MRun MMain (pvars (rbs ++ pout out p) (pend_of b)) /\ pok (pend_of b)
  end.
Proof.
  induction 1 as [|b bs l ls Hb Ht IH]; intros out p Hp; [reflexivity|].
  destruct (run_block b l out p Hb Hp) as [E Hpb]. fold (pend_of b) in E, Hpb.
  specialize (IH (pout out p) (pend_of b) Hpb). rewrite <- m2run_app, E. simpl rev.
  destruct (rev bs) as [|b' rbs] eqn:Er.
  - cbn [app]. split; [exact IH|exact Hpb].
  - cbn [app]. destruct IH as [IH1 IH2]. split; [|exact IH2]. rewrite IH1, pout_pend_of. now rewrite <- app_assoc.
Qed.

Theorem read_mol2_wf bs ls : m2wf_text bs ls -> bs <> [] -> read_mol2 true ls = Ok bs.
Proof.
  intros H Hne. unfold read_mol2, m2init. pose proof (run_text bs ls H [] None I) as R.
  destruct (rev bs) as [|b rbs] eqn:Er.
  - apply (f_equal (@rev m2block)) in Er. rewrite rev_involutive in Er. contradiction.
  - destruct R as [R Hp]. change (mk_m2vars None None None false []) with (pvars [] None). rewrite R.
    rewrite finish_some by exact Hp. simpl pout. rewrite app_nil_r. rewrite <- Er. now rewrite rev_involutive.
Qed.

Theorem read_mol2_truncated bs ls : m2wf_text bs ls -> forall k,
  (exists e, read_mol2 true (firstn k ls) = Err e) \/ (exists j, read_mol2 true (firstn k ls) = Ok (firstn j bs)).
Proof.
  intros H k. unfold read_mol2, m2init. change (mk_m2vars None None None false []) with (pvars [] None).
  assert (G : forall out p, pok p ->
            (exists e, m2finish true (m2run true (MRun MMain (pvars out p)) (firstn k ls)) = Err e) \/
            (exists j, m2finish true (m2run true (MRun MMain (pvars out p)) (firstn k ls)) = Ok (rev (pout out p) ++ firstn j bs))).
  { revert k. induction H as [|b bs l ls Hb Ht IH]; intros k out p Hp.
    - rewrite firstn_nil. destruct (finish_pending out p Hp) as [E|E]; [left; exact E|].
      right. exists 0%nat. simpl. now rewrite app_nil_r.
    - rewrite firstn_app. destruct (le_lt_dec (List.length l) k) as [Hge|Hlt].
      + rewrite firstn_all2 by exact Hge. destruct (run_block b l out p Hb Hp) as [E Hpb]. fold (pend_of b) in E, Hpb.
        rewrite <- m2run_app, E. destruct (IH (k - List.length l)%nat (pout out p) (pend_of b) Hpb) as [[e E2]|[j E2]].
        * left. now exists e.
        * right. exists (S j). rewrite E2, pout_pend_of. simpl. now rewrite <- app_assoc.
      + replace (k - List.length l)%nat with 0%nat by lia. rewrite firstn_O, app_nil_r.
        destruct (block_prefix b l out p k Hb Hp Hlt) as [E|[E|E]].
        * left. exact E.
        * right. exists 0%nat. simpl. now rewrite app_nil_r.
        * right. exists 1%nat. rewrite E. simpl. reflexivity. }
  destruct (G [] None I) as [E|[j E]]; [left; exact E|right; exists j; exact E].
Qed.


(* ---- molecules built from the blocks *)
Definition mol2_ok (m : mol) : Prop :=
  m_natoms m = Z.of_nat (List.length (m_elems m)) /\ List.length (m_coords m) = List.length (m_elems m) /\
  m_nbonds m = Z.of_nat (List.length (m_bonds m)).
Lemma all_ok_length {A B} (f : A -> res B) l ms : all_ok (map f l) = Ok ms -> List.length ms = List.length l.
Proof. intros H. apply all_ok_Forall2 in H. symmetry. exact (Forall2_length H). Qed.
Lemma mol2_build_ok atype btype b m : m2block_ok b -> mol2_build atype btype b = Ok m -> mol2_ok m.
Proof.
  intros [H1 H2]. unfold mol2_build, res_bind. destruct (mh_natoms (mk_hdr b) <? 0)%Z; [discriminate|].
  destruct (mh_natoms (mk_hdr b) <? Z.of_nat (List.length (mk_atoms b)))%Z; [discriminate|].
  destruct (all_ok (map _ (mk_atoms b))) as [ats|] eqn:Ea; [|discriminate].
  destruct (all_ok (map _ (mk_bonds b))) as [bds|] eqn:Eb; [|discriminate].
  destruct (_ && _); [discriminate|]. intros H. injection H as <-.
  apply all_ok_length in Ea. apply all_ok_length in Eb. unfold mol2_ok. simpl. rewrite !map_length, Ea, Eb. auto.
Qed.
Theorem load_mol2_counts atype btype ls ms : load_mol2_lines true atype btype ls = Ok ms -> Forall mol2_ok ms.
Proof.
  unfold load_mol2_lines, res_bind. destruct (read_mol2 true ls) as [bs|e] eqn:E; [|discriminate]. intros H.
  pose proof (read_mol2_counts ls bs E) as Hbs. apply all_ok_Forall2 in H. clear E.
  revert Hbs. induction H as [|b m bs' ms' Hbm HF IH]; intros Hbs; [constructor|]. inversion Hbs; subst.
  constructor; [eapply mol2_build_ok; eauto|auto].
Qed.
Theorem load_mol2_truncated atype btype bs ls ms : m2wf_text bs ls -> load_mol2_lines true atype btype ls = Ok ms -> forall k,
  (exists e, load_mol2_lines true atype btype (firstn k ls) = Err e) \/
  (exists j, load_mol2_lines true atype btype (firstn k ls) = Ok (firstn j ms)).
Proof.
  intros Hwf Hfull k. unfold load_mol2_lines, res_bind in *.
  destruct bs as [|b0 bs0].
  - inversion Hwf; subst. discriminate Hfull.
  - rewrite (read_mol2_wf _ ls Hwf) in Hfull by discriminate.
    destruct (read_mol2_truncated _ ls Hwf k) as [[e E]|[j E]]; rewrite E.
    + left. now exists e.
    + right. exists j. now apply all_ok_firstn.
Qed.

(* ---- a cut at a token boundary of the last xyz record *)
Lemma xyz_atom_split_eq l1 l2 : split l1 = split l2 -> xyz_atom l1 = xyz_atom l2.
Proof. unfold xyz_atom. now intros ->. Qed.
Lemma xyz_atom_tokens l a : xyz_atom l = Some a -> List.length (split l) = 4%nat.
Proof.
  unfold xyz_atom. destruct (split l) as [|s [|x [|y [|z [|w r]]]]]; try discriminate. reflexivity.
Qed.
Lemma xyz_atom_few l : (List.length (split l) < 4)%nat -> xyz_atom l = None.
Proof.
  unfold xyz_atom. destruct (split l) as [|s [|x [|y [|z [|w r]]]]]; simpl; intros H; try reflexivity; lia.
Qed.

Theorem read_xyz_cut_token_boundary P bs0 pre0 cl cm als ats n a last l' j :
  xwf_text P bs0 pre0 -> parse_int cl = Some n -> n = Z.of_nat (S (List.length ats)) ->
  Forall2 (fun l a => xyz_atom l = Some a) als ats -> xyz_atom last = Some a ->
  split l' = firstn j (split last) ->
  (exists e, read_xyz (pre0 ++ cl :: cm :: als ++ [l']) = Err e) \/
  read_xyz (pre0 ++ cl :: cm :: als ++ [l']) = read_xyz (pre0 ++ cl :: cm :: als ++ [last]).
Proof.
  intros Hpre Hc Hn HF Ha Hs.
  destruct (read_xyz_last_line P bs0 pre0 cl cm als ats n a last l' Hpre Hc Hn HF Ha) as [Hfull Hcut].
  pose proof (xyz_atom_tokens last a Ha) as H4.
  destruct (le_lt_dec 4 j) as [Hge|Hlt].
  - right. rewrite firstn_all2 in Hs by lia. rewrite (xyz_atom_split_eq l' last Hs), Ha in Hcut. now rewrite Hcut, Hfull.
  - left. rewrite xyz_atom_few in Hcut; [exact Hcut|]. rewrite Hs, firstn_length. lia.
Qed.

(* ================================================================= mol2: one line deleted / duplicated *)

Definition m2fails (st : m2state) (ls : list str) : Prop := exists e, m2finish true (m2run true st ls) = Err e.
Lemma m2run_fail e ls : m2run true (MFail e) ls = MFail e.
Proof. induction ls as [|l ls IH]; [reflexivity|exact IH]. Qed.
Lemma m2fails_fail e ls : m2fails (MFail e) ls.
Proof. exists e. now rewrite m2run_fail. Qed.
Lemma m2fails_step st l ls : m2fails (m2step true st l) ls -> m2fails st (l :: ls).
Proof. intros H. exact H. Qed.
Lemma m2fails_app st a b : m2fails (m2run true st a) b -> m2fails st (a ++ b).
Proof. unfold m2fails. now rewrite m2run_app. Qed.

(* side conditions on the lines of a block: what makes a shifted line unmistakable *)
Definition counts_bad (s : str) : Prop := forall n c, exists e, m2header n s c = Err e.
Definition other_line (l : str) : Prop :=
  exists c r, strip l = c :: r /\ ascii_eqb c "#" = false /\ tripos_name (strip l) = None.
Definition few_tokens (k : nat) (l : str) : Prop := (List.length (split (strip l)) < k)%nat.
Definition never_bond (l : str) : Prop :=
  few_tokens 4 l \/ forall btype n, exists e, m2_bond_conv btype n (mk_m2bond (split (strip l))) = Err e.

Lemma step_other oh oa ob out l : other_line l -> m2step true (MRun MMain (V oh oa ob out)) l = MFail ESyntax.
Proof. intros (c & r & E & Hc & Ht). unfold m2step, m2main. rewrite E in *. rewrite Hc, Ht. reflexivity. Qed.
Lemma step_atom_few oh oa ob out todo l : few_tokens 5 l -> m2step true (MRun (MAtoms todo) (V oh oa ob out)) l = MFail EType.
Proof. unfold few_tokens. intros H. unfold m2step. destruct (Nat.ltb_spec (List.length (split (strip l))) 5); [reflexivity|lia]. Qed.
Lemma step_bond_few oh oa ob out todo l : few_tokens 4 l -> m2step true (MRun (MBonds todo) (V oh oa ob out)) l = MFail EType.
Proof. unfold few_tokens. intros H. unfold m2step. destruct (Nat.ltb_spec (List.length (split (strip l))) 4); [reflexivity|lia]. Qed.

Lemma step_hdr_bad_counts v name counts mtype ctype x : counts_bad (strip counts) ->
  exists e, m2step true (MRun (MHdr [strip ctype; strip mtype; strip counts; strip name]) v) x = MFail e.
Proof. intros H. destruct (H (strip name) (strip ctype)) as [e E]. exists e. unfold m2step. now rewrite E. Qed.

(* five header lines whose last one is a TRIPOS record: it is put back and dispatched in main mode *)
Lemma step_hdr_putback oh oa ob out name counts mtype ctype x h nm :
  m2header (strip name) (strip counts) (strip ctype) = Ok h -> tripos_name (strip x) = Some nm ->
  m2step true (MRun (MHdr [strip ctype; strip mtype; strip counts; strip name]) (V oh oa ob out)) x
  = m2main true (V (Some h) oa ob out) (strip x).
Proof. intros Hh Hx. unfold m2step. rewrite Hh, Hx. reflexivity. Qed.

(* m2header only looks at the counts line for success; the header differs in name / charge type only *)
Definition hsim (h' h : m2hdr) : Prop := mh_natoms h' = mh_natoms h /\ mh_nbonds h' = mh_nbonds h.
Lemma m2header_sim n c t h n' t' : m2header n c t = Ok h -> exists h', m2header n' c t' = Ok h' /\ hsim h' h.
Proof.
  unfold m2header. destruct (map_opt parse_int (split c)) as [[|na [|nb [|ns r]]]|]; try discriminate;
    intros H; injection H as <-; (eexists; split; [reflexivity|split; reflexivity]).
Qed.

Lemma line_class l : tripos_name (strip l) = None -> ignorable l \/ other_line l.
Proof.
  intros H. unfold ignorable, other_line. destruct (strip l) as [|c r] eqn:E; [left; left; reflexivity|].
  destruct (ascii_eqb c "#") eqn:Ec.
  - left. right. apply ascii_eqb_eq in Ec. subst c. now exists r.
  - right. exists c, r. auto.
Qed.

Lemma pvars_V out p : exists oh oa ob, pvars out p = V oh oa ob out.
Proof. destruct p as [[[h a] b]|]; simpl; eauto. Qed.

(* the ATOM and BOND sections of a block, from "header just read" *)
Section Body.
Variables (h : m2hdr) (atoms : list m2atom) (bonds : list m2bond) (out' : list m2block).
Variables (la lb : str) (als bls : list str).
Hypothesis Hna : mh_natoms h = Z.of_nat (List.length atoms).
Hypothesis Hnb : mh_nbonds h = Some (Z.of_nat (List.length bonds)).
Hypothesis Hla : is_sec la SAtom.
Hypothesis HFa : Forall2 atom_line_of als atoms.
Hypothesis Hlb : is_sec lb SBond.
Hypothesis HFb : Forall2 bond_line_of bls bonds.

Lemma run_atoms_sec ob rest :
  m2run true (MRun MMain (V (Some h) (Some []) ob out')) (la :: als ++ rest)
  = m2run true (MRun MMain (V (Some h) (Some (rev atoms)) ob out')) rest.
Proof using Hna Hla HFa.
  clear - Hna Hla HFa. rewrite m2run_cons, (step_atom_sec h _ _ la Hla). pose proof (Forall2_length HFa) as Hlen.
  rewrite <- m2run_app. f_equal.
  destruct (Z.leb_spec (mh_natoms h) 0) as [Hle|Hgt].
  - assert (E : atoms = []) by (destruct atoms; [reflexivity|simpl in Hna; lia]). rewrite E in *. inversion HFa; subst. reflexivity.
  - replace (Z.to_N (mh_natoms h)) with (N.of_nat (List.length als)) by lia.
    rewrite (atoms_exact _ _ _ als atoms HFa) by (destruct als; [simpl in *; lia|discriminate]). now rewrite app_nil_r.
Qed.
Lemma run_bonds_sec oa rest :
  m2run true (MRun MMain (V (Some h) oa (Some []) out')) (lb :: bls ++ rest)
  = m2run true (MRun MMain (V (Some h) oa (Some (rev bonds)) out')) rest.
Proof using Hnb Hlb HFb.
  clear - Hnb Hlb HFb. rewrite m2run_cons, (step_bond_sec h _ _ lb _ Hlb Hnb). pose proof (Forall2_length HFb) as Hlen.
  rewrite <- m2run_app. f_equal.
  destruct (Z.leb_spec (Z.of_nat (List.length bonds)) 0) as [Hle|Hgt].
  - assert (E : bonds = []) by (destruct bonds; [reflexivity|simpl in Hle; lia]). rewrite E in *. inversion HFb; subst. reflexivity.
  - replace (Z.to_N (Z.of_nat (List.length bonds))) with (N.of_nat (List.length bls)) by lia.
    rewrite (bonds_exact _ _ _ bls bonds HFb) by (destruct bls; [simpl in *; lia|discriminate]). now rewrite app_nil_r.
Qed.
Lemma run_body rest :
  m2run true (MRun MMain (V (Some h) (Some []) (Some []) out')) ((la :: als ++ lb :: bls) ++ rest)
  = m2run true (MRun MMain (pvars out' (Some (h, atoms, bonds)))) rest.
Proof.
  change ((la :: als ++ lb :: bls) ++ rest) with (la :: (als ++ lb :: bls) ++ rest). rewrite <- app_assoc.
  rewrite run_atoms_sec. change ((lb :: bls) ++ rest) with (lb :: bls ++ rest). rewrite run_bonds_sec. reflexivity.
Qed.
End Body.

Inductive m2wfs : m2block -> list str -> Prop :=
| m2wfs_intro ign lm name counts mtype ctype status la als lb bls h atoms bonds :
    Forall ignorable ign -> is_sec lm SMolecule ->
    m2header (strip name) (strip counts) (strip ctype) = Ok h -> plain_status status ->
    is_sec la SAtom -> mh_natoms h = Z.of_nat (List.length atoms) -> Forall2 atom_line_of als atoms ->
    is_sec lb SBond -> mh_nbonds h = Some (Z.of_nat (List.length bonds)) -> Forall2 bond_line_of bls bonds ->
    (* what makes a shifted line unmistakable *)
    Forall never_bond ign -> few_tokens 4 lm ->
    tripos_name (strip name) = None -> counts_bad (strip name) -> other_line counts -> counts_bad (strip mtype) ->
    plain_status ctype -> few_tokens 5 la -> few_tokens 4 lb ->
    Forall other_line als -> Forall other_line bls ->
    m2wfs (mk_m2block h atoms bonds)
          (ign ++ lm :: name :: counts :: mtype :: ctype :: status :: la :: als ++ lb :: bls).

Lemma m2wfs_wf b l : m2wfs b l -> m2wf b l.
Proof. intros H. destruct H. now constructor. Qed.

Inductive wtail : list str -> Prop :=
| wt_nil : wtail []
| wt_ign x post : ignorable x -> never_bond x -> wtail (x :: post)
| wt_lm x post : few_tokens 4 x -> wtail (x :: post).

Definition bad_bond (bd : m2bond) : Prop := forall btype n, exists e, m2_bond_conv btype n bd = Err e.

Inductive outcome (out' : list m2block) (h : m2hdr) (atoms : list m2atom) (bonds : list m2bond)
                  (S0 : m2state) (dl post : list str) : Prop :=
| oc_fail : m2fails S0 (dl ++ post) -> outcome out' h atoms bonds S0 dl post
| oc_same h' : hsim h' h -> m2run true S0 dl = MRun MMain (pvars out' (Some (h', atoms, bonds))) ->
               outcome out' h atoms bonds S0 dl post
| oc_bogus x post' bonds' bd : post = x :: post' -> ignorable x ->
    List.length bonds' = List.length bonds -> In bd bonds' -> bad_bond bd ->
    m2run true S0 (dl ++ [x]) = MRun MMain (pvars out' (Some (h, atoms, bonds'))) ->
    outcome out' h atoms bonds S0 dl post.

Lemma hsim_refl h : hsim h h.
Proof. split; reflexivity. Qed.

Lemma Forall2_del_nth {A B} (R : A -> B -> Prop) i : forall l1 l2, Forall2 R l1 l2 -> Forall2 R (del_nth i l1) (del_nth i l2).
Proof. induction i as [|i IH]; intros l1 l2 H; destruct H; simpl; try constructor; auto. Qed.
Lemma Forall2_dup_nth {A B} (R : A -> B -> Prop) i : forall l1 l2, Forall2 R l1 l2 -> Forall2 R (dup_nth i l1) (dup_nth i l2).
Proof. induction i as [|i IH]; intros l1 l2 H; destruct H; simpl; repeat (constructor; auto). Qed.

(* header read from the lines n c x t followed directly by the ATOM record (one of mol_type / charge type / status missing) *)
Lemma run_hdr4_la oh out' n c x t h' atoms bonds la als lb bls :
  m2header (strip n) (strip c) (strip t) = Ok h' ->
  mh_natoms h' = Z.of_nat (List.length atoms) -> mh_nbonds h' = Some (Z.of_nat (List.length bonds)) ->
  is_sec la SAtom -> Forall2 atom_line_of als atoms -> is_sec lb SBond -> Forall2 bond_line_of bls bonds ->
  m2run true (MRun (MHdr []) (mk_m2vars oh (Some []) (Some []) false out')) (n :: c :: x :: t :: la :: als ++ lb :: bls)
  = MRun MMain (pvars out' (Some (h', atoms, bonds))).
Proof.
  intros Hh Hna Hnb Hla HFa Hlb HFb. rewrite !m2run_cons. rewrite !step_hdr_push by (simpl; lia).
  destruct Hla as (nm & r & E1 & E2 & E3).
  rewrite (step_hdr_putback oh (Some []) (Some []) out' n c x t la h' nm Hh E2).
  change (m2main true (V (Some h') (Some []) (Some []) out') (strip la)) with (m2step true (MRun MMain (V (Some h') (Some []) (Some []) out')) la).
  rewrite <- m2run_cons. rewrite <- (app_nil_r (la :: als ++ lb :: bls)).
  rewrite (run_body h' atoms bonds out' la lb als bls Hna Hnb (ex_intro _ nm (ex_intro _ r (conj E1 (conj E2 E3)))) HFa Hlb HFb). reflexivity.
Qed.

(* header of five lines with a plain fifth line, then one more plain line read in main mode, then the body *)
Lemma hdr5_extra oh out' n c x t s extra h' atoms bonds la als lb bls post :
  m2header (strip n) (strip c) (strip t) = Ok h' -> plain_status s -> plain_status extra ->
  mh_natoms h' = Z.of_nat (List.length atoms) -> mh_nbonds h' = Some (Z.of_nat (List.length bonds)) ->
  is_sec la SAtom -> Forall2 atom_line_of als atoms -> is_sec lb SBond -> Forall2 bond_line_of bls bonds ->
  let S := MRun (MHdr []) (mk_m2vars oh (Some []) (Some []) false out') in
  let dl := n :: c :: x :: t :: s :: extra :: la :: als ++ lb :: bls in
  m2fails S (dl ++ post) \/ m2run true S dl = MRun MMain (pvars out' (Some (h', atoms, bonds))).
Proof.
  intros Hh Hs He Hna Hnb Hla HFa Hlb HFb S dl. subst S dl.
  destruct (line_class extra (proj1 He)) as [Hi|Ho].
  - right. do 6 rewrite m2run_cons. rewrite !step_hdr_push by (simpl; lia).
    rewrite (step_hdr_status _ _ _ _ _ _ _ _ _ h' Hh Hs). rewrite step_ign by exact Hi.
    rewrite <- (app_nil_r (la :: als ++ lb :: bls)).
    rewrite (run_body h' atoms bonds out' la lb als bls Hna Hnb Hla HFa Hlb HFb). reflexivity.
  - left. simpl app. do 5 apply m2fails_step. rewrite !step_hdr_push by (simpl; lia).
    rewrite (step_hdr_status _ _ _ _ _ _ _ _ _ h' Hh Hs). apply m2fails_step. rewrite step_other by exact Ho.
    apply m2fails_fail.
Qed.

Lemma m2fails_via st st' a rest : m2run true st a = st' -> m2fails st' rest -> m2fails st (a ++ rest).
Proof. intros E H. apply m2fails_app. now rewrite E. Qed.
Lemma few45 l : few_tokens 4 l -> few_tokens 5 l.
Proof. unfold few_tokens. lia. Qed.
Lemma finish_hdr got v : m2finish true (MRun (MHdr got) v) = Err EEof.
Proof. reflexivity. Qed.

Lemma list_case {A} (l : list A) : l = [] \/ exists x r, l = x :: r.
Proof. destruct l; [now left|right; eauto]. Qed.

Section BlockDamage.
Variables (ign : list str) (lm name counts mtype ctype status la lb : str) (als bls : list str).
Variables (h : m2hdr) (atoms : list m2atom) (bonds : list m2bond).
Hypothesis Hign : Forall ignorable ign.
Hypothesis Hlm : is_sec lm SMolecule.
Hypothesis Hh : m2header (strip name) (strip counts) (strip ctype) = Ok h.
Hypothesis Hst : plain_status status.
Hypothesis Hla : is_sec la SAtom.
Hypothesis Hna : mh_natoms h = Z.of_nat (List.length atoms).
Hypothesis HFa : Forall2 atom_line_of als atoms.
Hypothesis Hlb : is_sec lb SBond.
Hypothesis Hnb : mh_nbonds h = Some (Z.of_nat (List.length bonds)).
Hypothesis HFb : Forall2 bond_line_of bls bonds.
Hypothesis Hign_nb : Forall never_bond ign.
Hypothesis Hlm_few : few_tokens 4 lm.
Hypothesis Hname_t : tripos_name (strip name) = None.
Hypothesis Hname_bad : counts_bad (strip name).
Hypothesis Hcounts_o : other_line counts.
Hypothesis Hmtype_bad : counts_bad (strip mtype).
Hypothesis Hctype_p : plain_status ctype.
Hypothesis Hla_few : few_tokens 5 la.
Hypothesis Hlb_few : few_tokens 4 lb.
Hypothesis Hals_o : Forall other_line als.
Hypothesis Hbls_o : Forall other_line bls.
Variables (out : list m2block) (p : pend).
Hypothesis Hp : pok p.

Let out' := pout out p.
Let S0 := MRun MMain (pvars out p).
Let SH := MRun (MHdr []) (mk_m2vars (phdr p) (Some []) (Some []) false out').
Let SB := MRun MMain (V (Some h) (Some []) (Some []) out').
Let body := la :: als ++ lb :: bls.

Lemma run_lm rest : m2run true S0 (lm :: rest) = m2run true SH rest.
Proof using Hlm Hp. unfold S0, SH, out'. rewrite m2run_cons, step_molecule by assumption. reflexivity. Qed.
Lemma run_hdr5 rest : m2run true SH (name :: counts :: mtype :: ctype :: status :: rest) = m2run true SB rest.
Proof using Hh Hst.
  clear - Hh Hst. unfold SH, SB. do 5 rewrite m2run_cons. rewrite !step_hdr_push by (simpl; lia).
  rewrite (step_hdr_status _ _ _ _ _ _ _ _ _ h Hh Hst). reflexivity.
Qed.
Lemma hdr_bad n c x t y rest : counts_bad (strip c) -> m2fails SH (n :: c :: x :: t :: y :: rest).
Proof using.
  clear. intros Hbad. unfold SH. do 4 apply m2fails_step. rewrite !step_hdr_push by (simpl; lia). apply m2fails_step.
  destruct (step_hdr_bad_counts (mk_m2vars (phdr p) (Some []) (Some []) false out') n c x t y Hbad) as [e E].
  rewrite E. apply m2fails_fail.
Qed.

Lemma Hna' h' : hsim h' h -> mh_natoms h' = Z.of_nat (List.length atoms).
Proof using Hna. intros [H1 _]. now rewrite H1. Qed.
Lemma Hnb' h' : hsim h' h -> mh_nbonds h' = Some (Z.of_nat (List.length bonds)).
Proof using Hnb. intros [_ H2]. now rewrite H2. Qed.

(* damage after the run of leading blank/comment lines *)
Lemma outcome_ign X post : outcome out' h atoms bonds S0 X post -> outcome out' h atoms bonds S0 (ign ++ X) post.
Proof using Hign.
  assert (R : m2run true S0 ign = S0) by (apply run_ign; exact Hign).
  intros [F|h' Hs E|x post' bonds' bd E1 E2 E3 E4 E5 E6].
  - apply oc_fail. rewrite <- app_assoc. now apply (m2fails_via S0 S0).
  - apply (oc_same _ _ _ _ _ _ _ h' Hs). now rewrite <- m2run_app, R.
  - apply (oc_bogus _ _ _ _ _ _ _ x post' bonds' bd); auto. now rewrite <- app_assoc, <- m2run_app, R.
Qed.

Lemma deleted_inner post k : wtail post -> (k < 7 + List.length als + 1 + List.length bls)%nat ->
  outcome out' h atoms bonds S0 (del_nth k (lm :: name :: counts :: mtype :: ctype :: status :: body)) post.
Proof.
  intros Ht Hk. pose proof (Forall2_length HFa) as Hlena. pose proof (Forall2_length HFb) as Hlenb.
  unfold body. destruct k as [|[|[|[|[|[|[|j]]]]]]]; cbn [del_nth].
  - (* MOLECULE record gone: the name line is read in main mode *)
    apply oc_fail. unfold S0. destruct (pvars_V out p) as (oh & oa & ob & EV). rewrite EV. simpl app.
    destruct (line_class name Hname_t) as [Hi|Ho].
    + apply m2fails_step. rewrite step_ign by exact Hi. apply m2fails_step. rewrite step_other by exact Hcounts_o. apply m2fails_fail.
    + apply m2fails_step. rewrite step_other by exact Ho. apply m2fails_fail.
  - (* name gone: mol_type is read as the counts *)
    apply oc_fail. simpl app. unfold m2fails. rewrite run_lm. now apply hdr_bad.
  - apply oc_fail. simpl app. unfold m2fails. rewrite run_lm. now apply hdr_bad.
  - (* mol_type gone: the status line becomes the charge type, the ATOM record is put back *)
    destruct (m2header_sim _ _ _ _ (strip name) (strip status) Hh) as [h' [Hh' Hs]].
    apply (oc_same _ _ _ _ _ _ _ h' Hs). rewrite run_lm. unfold SH.
    apply run_hdr4_la; auto using Hna', Hnb'.
  - destruct (m2header_sim _ _ _ _ (strip name) (strip status) Hh) as [h' [Hh' Hs]].
    apply (oc_same _ _ _ _ _ _ _ h' Hs). rewrite run_lm. unfold SH.
    apply run_hdr4_la; auto using Hna', Hnb'.
  - apply (oc_same _ _ _ _ _ _ _ h (hsim_refl h)). rewrite run_lm. unfold SH. apply run_hdr4_la; auto.
  - (* ATOM record gone *)
    destruct (list_case als) as [Eals|(a1 & als' & Eals)].
    + assert (Ea : atoms = []) by (rewrite Eals in HFa; inversion HFa; reflexivity).
      apply (oc_same _ _ _ _ _ _ _ h (hsim_refl h)). rewrite run_lm, run_hdr5. unfold SB. rewrite Eals, Ea. simpl app.
      rewrite <- (app_nil_r bls). rewrite (run_bonds_sec h bonds out' lb bls Hnb Hlb HFb). reflexivity.
    + apply oc_fail. assert (Ho : other_line a1) by (rewrite Eals in Hals_o; now inversion Hals_o).
      rewrite Eals. simpl app. unfold m2fails. rewrite run_lm, run_hdr5. unfold SB.
      apply m2fails_step. rewrite step_other by assumption. apply m2fails_fail.
  - (* a line of the ATOM / BOND part gone *)
    assert (Hpre : forall rest, m2run true S0 (lm :: name :: counts :: mtype :: ctype :: status :: la :: rest)
                   = m2run true (if (mh_natoms h <=? 0)%Z then SB else MRun (MAtoms (Z.to_N (mh_natoms h))) (V (Some h) (Some []) (Some []) out')) rest).
    { intros rest. rewrite run_lm, run_hdr5. unfold SB. rewrite m2run_cons, (step_atom_sec h _ _ la Hla).
      destruct (mh_natoms h <=? 0)%Z; reflexivity. }
    destruct (lt_dec j (List.length als)) as [Hja|Hja].
    + (* an atom line gone: the BOND record is read as an atom *)
      apply oc_fail. rewrite del_nth_app_l by exact Hja. unfold m2fails.
      change ((lm :: name :: counts :: mtype :: ctype :: status :: la :: del_nth j als ++ lb :: bls) ++ post)
        with (lm :: name :: counts :: mtype :: ctype :: status :: la :: (del_nth j als ++ lb :: bls) ++ post).
      rewrite Hpre. destruct (Z.leb_spec (mh_natoms h) 0) as [Hle|Hgt]; [lia|].
      rewrite <- app_assoc. apply m2fails_app.
      pose proof (del_nth_length als j Hja) as Hdl.
      rewrite (atoms_short _ _ _ (del_nth j als) (del_nth j atoms)) by (try (now apply Forall2_del_nth); lia).
      simpl app. apply m2fails_step. rewrite step_atom_few by (now apply few45). apply m2fails_fail.
    + remember (j - List.length als)%nat as j1 eqn:Ej1. replace j with (List.length als + j1)%nat by lia.
      rewrite del_nth_app_r.
      assert (Hatoms : forall rest, m2run true S0 (lm :: name :: counts :: mtype :: ctype :: status :: la :: als ++ rest)
                       = m2run true (MRun MMain (V (Some h) (Some (rev atoms)) (Some []) out')) rest).
      { intros rest. rewrite run_lm, run_hdr5. unfold SB. apply (run_atoms_sec h atoms out' la als Hna Hla HFa). }
      destruct j1 as [|j2]; cbn [del_nth].
      * (* BOND record gone *)
        destruct (list_case bls) as [Ebls|(b1 & bls' & Ebls)].
        -- assert (Eb : bonds = []) by (rewrite Ebls in HFb; inversion HFb; reflexivity).
           apply (oc_same _ _ _ _ _ _ _ h (hsim_refl h)). rewrite Ebls, Hatoms, Eb. reflexivity.
        -- apply oc_fail. assert (Ho : other_line b1) by (rewrite Ebls in Hbls_o; now inversion Hbls_o).
           rewrite Ebls. unfold m2fails.
           change ((lm :: name :: counts :: mtype :: ctype :: status :: la :: als ++ b1 :: bls') ++ post)
             with (lm :: name :: counts :: mtype :: ctype :: status :: la :: (als ++ b1 :: bls') ++ post).
           rewrite <- app_assoc, Hatoms. simpl app. apply m2fails_step. rewrite step_other by assumption. apply m2fails_fail.
      * (* a bond line gone: the next line of the text is read as a bond record *)
        assert (Hj2 : (j2 < List.length bls)%nat) by lia.
        assert (Hm : (0 < Z.of_nat (List.length bonds))%Z) by lia.
        pose proof (del_nth_length bls j2 Hj2) as Hdl.
        assert (Hrun : forall rest, m2run true S0 ((lm :: name :: counts :: mtype :: ctype :: status :: la :: als ++ lb :: del_nth j2 bls) ++ rest)
                       = m2run true (MRun (MBonds 1) (V (Some h) (Some (rev atoms)) (Some (rev (del_nth j2 bonds))) out')) rest).
        { intros rest.
          change ((lm :: name :: counts :: mtype :: ctype :: status :: la :: als ++ lb :: del_nth j2 bls) ++ rest)
            with (lm :: name :: counts :: mtype :: ctype :: status :: la :: (als ++ lb :: del_nth j2 bls) ++ rest).
          rewrite <- app_assoc, Hatoms. simpl app. rewrite m2run_cons, (step_bond_sec h _ _ lb _ Hlb Hnb).
          destruct (Z.leb_spec (Z.of_nat (List.length bonds)) 0) as [Hle|Hgt]; [lia|].
          rewrite <- m2run_app. rewrite (bonds_short _ _ _ (del_nth j2 bls) (del_nth j2 bonds)) by (try (now apply Forall2_del_nth); lia).
          replace (Z.to_N (Z.of_nat (List.length bonds)) - N.of_nat (List.length (del_nth j2 bls)))%N with 1%N by lia.
          rewrite app_nil_r. reflexivity. }
        destruct Ht as [|x post' Hxi Hxn|x post' Hxf].
        -- apply oc_fail. unfold m2fails. rewrite Hrun. eexists. reflexivity.
        -- destruct (lt_dec (List.length (split (strip x))) 4) as [Hfew|Hnf].
           ++ apply oc_fail. unfold m2fails. rewrite Hrun. apply m2fails_step. rewrite step_bond_few by exact Hfew. apply m2fails_fail.
           ++ destruct Hxn as [Hfew|Hbad]; [unfold few_tokens in Hfew; lia|].
              apply (oc_bogus _ _ _ _ _ _ _ x post' (del_nth j2 bonds ++ [mk_m2bond (split (strip x))]) (mk_m2bond (split (strip x)))); auto.
              ** rewrite app_length. simpl. pose proof (del_nth_length bonds j2 ltac:(lia)). lia.
              ** apply in_or_app. right. now left.
              ** rewrite Hrun. rewrite m2run_cons, (step_bond _ _ _ _ _ x (mk_m2bond (split (strip x)))) by (split; [reflexivity|lia]).
                 simpl. rewrite rev_app_distr. reflexivity.
        -- apply oc_fail. unfold m2fails. rewrite Hrun. apply m2fails_step. rewrite step_bond_few by exact Hxf. apply m2fails_fail.
Qed.
Lemma dup_hdr_case post n c x t s extra h' : m2header (strip n) (strip c) (strip t) = Ok h' -> hsim h' h ->
  plain_status s -> plain_status extra ->
  outcome out' h atoms bonds S0 (lm :: n :: c :: x :: t :: s :: extra :: body) post.
Proof using Hlm Hp Hna Hnb Hla HFa Hlb HFb.
  intros Hh' Hs Hps Hpe.
  destruct (hdr5_extra (phdr p) out' n c x t s extra h' atoms bonds la als lb bls post Hh' Hps Hpe
              (Hna' h' Hs) (Hnb' h' Hs) Hla HFa Hlb HFb) as [F|E].
  - apply oc_fail. simpl app. unfold m2fails. rewrite run_lm. exact F.
  - apply (oc_same _ _ _ _ _ _ _ h' Hs). rewrite run_lm. exact E.
Qed.

Lemma over_atoms oh ob out0 L atoms' rest : Forall2 atom_line_of L atoms' -> Forall other_line L -> (2 <= List.length L)%nat ->
  m2fails (MRun (MAtoms (N.of_nat (List.length L - 1))) (V oh (Some []) ob out0)) (L ++ rest).
Proof using.
  clear. intros HF Ho Hlen. assert (Hne : L <> []) by (destruct L; [simpl in Hlen; lia|discriminate]).
  destruct (exists_last Hne) as [front [x ->]]. apply Forall2_app_inv_l in HF. destruct HF as (a1 & a2 & HF1 & _ & _).
  rewrite app_length in *. simpl in *. replace (List.length front + 1 - 1)%nat with (List.length front) by lia.
  rewrite <- app_assoc. apply m2fails_app. rewrite (atoms_exact _ _ _ front a1 HF1) by (destruct front; [simpl in Hlen; lia|discriminate]).
  simpl app. apply m2fails_step. rewrite step_other; [apply m2fails_fail|].
  rewrite Forall_forall in Ho. apply Ho. apply in_or_app. right. now left.
Qed.
Lemma over_bonds oh oa out0 L bonds' rest : Forall2 bond_line_of L bonds' -> Forall other_line L -> (2 <= List.length L)%nat ->
  m2fails (MRun (MBonds (N.of_nat (List.length L - 1))) (V oh oa (Some []) out0)) (L ++ rest).
Proof using.
  clear. intros HF Ho Hlen. assert (Hne : L <> []) by (destruct L; [simpl in Hlen; lia|discriminate]).
  destruct (exists_last Hne) as [front [x ->]]. apply Forall2_app_inv_l in HF. destruct HF as (a1 & a2 & HF1 & _ & _).
  rewrite app_length in *. simpl in *. replace (List.length front + 1 - 1)%nat with (List.length front) by lia.
  rewrite <- app_assoc. apply m2fails_app. rewrite (bonds_exact _ _ _ front a1 HF1) by (destruct front; [simpl in Hlen; lia|discriminate]).
  simpl app. apply m2fails_step. rewrite step_other; [apply m2fails_fail|].
  rewrite Forall_forall in Ho. apply Ho. apply in_or_app. right. now left.
Qed.

Lemma duplicated_inner post k : (k < 7 + List.length als + 1 + List.length bls)%nat ->
  outcome out' h atoms bonds S0 (dup_nth k (lm :: name :: counts :: mtype :: ctype :: status :: body)) post.
Proof.
  intros Hk. pose proof (Forall2_length HFa) as Hlena. pose proof (Forall2_length HFb) as Hlenb.
  destruct k as [|[|[|[|[|[|[|j]]]]]]]; cbn [dup_nth].
  - apply oc_fail. simpl app. unfold m2fails. rewrite run_lm. now apply hdr_bad.
  - apply oc_fail. simpl app. unfold m2fails. rewrite run_lm. now apply hdr_bad.
  - destruct (m2header_sim _ _ _ _ (strip name) (strip mtype) Hh) as [h' [Hh' Hs]]. now apply (dup_hdr_case post name counts counts mtype ctype status h').
  - destruct (m2header_sim _ _ _ _ (strip name) (strip mtype) Hh) as [h' [Hh' Hs]]. now apply (dup_hdr_case post name counts mtype mtype ctype status h').
  - apply (dup_hdr_case post name counts mtype ctype ctype status h); auto using hsim_refl.
  - apply (dup_hdr_case post name counts mtype ctype status status h); auto using hsim_refl.
  - (* ATOM record twice *)
    unfold body. cbn [dup_nth].
    destruct (Z.leb_spec (mh_natoms h) 0) as [Hle|Hgt].
    + apply (oc_same _ _ _ _ _ _ _ h (hsim_refl h)). rewrite run_lm, run_hdr5. unfold SB.
      rewrite m2run_cons, (step_atom_sec h _ _ la Hla). destruct (Z.leb_spec (mh_natoms h) 0); [|lia].
      rewrite <- (app_nil_r (la :: als ++ lb :: bls)). rewrite (run_body h atoms bonds out' la lb als bls Hna Hnb Hla HFa Hlb HFb). reflexivity.
    + apply oc_fail. simpl app. unfold m2fails. rewrite run_lm, run_hdr5. unfold SB.
      apply m2fails_step. rewrite (step_atom_sec h _ _ la Hla). destruct (Z.leb_spec (mh_natoms h) 0); [lia|].
      apply m2fails_step. rewrite step_atom_few by exact Hla_few. apply m2fails_fail.
  - unfold body. cbn [dup_nth].
    assert (Hpre : forall rest, m2run true S0 (lm :: name :: counts :: mtype :: ctype :: status :: la :: rest)
                   = m2run true (if (mh_natoms h <=? 0)%Z then SB else MRun (MAtoms (Z.to_N (mh_natoms h))) (V (Some h) (Some []) (Some []) out')) rest).
    { intros rest. rewrite run_lm, run_hdr5. unfold SB. rewrite m2run_cons, (step_atom_sec h _ _ la Hla).
      destruct (mh_natoms h <=? 0)%Z; reflexivity. }
    assert (Hatoms : forall rest, m2run true S0 (lm :: name :: counts :: mtype :: ctype :: status :: la :: als ++ rest)
                     = m2run true (MRun MMain (V (Some h) (Some (rev atoms)) (Some []) out')) rest).
    { intros rest. rewrite run_lm, run_hdr5. unfold SB. apply (run_atoms_sec h atoms out' la als Hna Hla HFa). }
    destruct (lt_dec j (List.length als)) as [Hja|Hja].
    + (* an atom line twice: one line too many *)
      apply oc_fail. rewrite dup_nth_app_l by exact Hja. unfold m2fails.
      change ((lm :: name :: counts :: mtype :: ctype :: status :: la :: dup_nth j als ++ lb :: bls) ++ post)
        with (lm :: name :: counts :: mtype :: ctype :: status :: la :: (dup_nth j als ++ lb :: bls) ++ post).
      rewrite Hpre. destruct (Z.leb_spec (mh_natoms h) 0) as [Hle|Hgt]; [lia|].
      rewrite <- app_assoc. pose proof (dup_nth_length als j Hja) as Hdl.
      replace (Z.to_N (mh_natoms h)) with (N.of_nat (List.length (dup_nth j als) - 1)) by lia.
      apply (over_atoms _ _ _ _ (dup_nth j atoms)); [now apply Forall2_dup_nth|now apply dup_nth_Forall|lia].
    + remember (j - List.length als)%nat as j1 eqn:Ej1. replace j with (List.length als + j1)%nat by lia.
      rewrite dup_nth_app_r. destruct j1 as [|j2]; cbn [dup_nth].
      * (* BOND record twice *)
        destruct (Z.leb_spec (Z.of_nat (List.length bonds)) 0) as [Hle|Hgt].
        -- apply (oc_same _ _ _ _ _ _ _ h (hsim_refl h)). rewrite Hatoms.
           rewrite m2run_cons, (step_bond_sec h _ _ lb _ Hlb Hnb). destruct (Z.leb_spec (Z.of_nat (List.length bonds)) 0); [|lia].
           rewrite <- (app_nil_r bls). rewrite (run_bonds_sec h bonds out' lb bls Hnb Hlb HFb). reflexivity.
        -- apply oc_fail. unfold m2fails.
           change ((lm :: name :: counts :: mtype :: ctype :: status :: la :: als ++ lb :: lb :: bls) ++ post)
             with (lm :: name :: counts :: mtype :: ctype :: status :: la :: (als ++ lb :: lb :: bls) ++ post).
           rewrite <- app_assoc, Hatoms. simpl app. apply m2fails_step. rewrite (step_bond_sec h _ _ lb _ Hlb Hnb).
           destruct (Z.leb_spec (Z.of_nat (List.length bonds)) 0); [lia|].
           apply m2fails_step. rewrite step_bond_few by exact Hlb_few. apply m2fails_fail.
      * (* a bond line twice *)
        assert (Hj2 : (j2 < List.length bls)%nat) by lia.
        apply oc_fail. unfold m2fails.
        change ((lm :: name :: counts :: mtype :: ctype :: status :: la :: als ++ lb :: dup_nth j2 bls) ++ post)
          with (lm :: name :: counts :: mtype :: ctype :: status :: la :: (als ++ lb :: dup_nth j2 bls) ++ post).
        rewrite <- app_assoc, Hatoms. simpl app. apply m2fails_step. rewrite (step_bond_sec h _ _ lb _ Hlb Hnb).
        destruct (Z.leb_spec (Z.of_nat (List.length bonds)) 0); [lia|].
        pose proof (dup_nth_length bls j2 Hj2) as Hdl.
        replace (Z.to_N (Z.of_nat (List.length bonds))) with (N.of_nat (List.length (dup_nth j2 bls) - 1)) by lia.
        apply (over_bonds _ _ _ _ (dup_nth j2 bonds)); [now apply Forall2_dup_nth|now apply dup_nth_Forall|lia].
Qed.
End BlockDamage.

(* ---- assembling: texts *)
Inductive m2wfs_text : list m2block -> list str -> Prop :=
| m2ws_nil : m2wfs_text [] []
| m2ws_cons b bs l ls : m2wfs b l -> m2wfs_text bs ls -> m2wfs_text (b :: bs) (l ++ ls).
Lemma m2wfs_text_wf bs ls : m2wfs_text bs ls -> m2wf_text bs ls.
Proof. induction 1; constructor; auto using m2wfs_wf. Qed.

Lemma m2wfs_text_tail bs ls : m2wfs_text bs ls -> wtail ls.
Proof.
  intros H. destruct H as [|b bs l ls Hb Ht]; [constructor|].
  destruct Hb as [ign lm name counts mtype ctype status la als lb bls h atoms bonds Hign ? ? ? ? ? ? ? ? ? Hnb Hfew].
  destruct ign as [|x ign]; simpl.
  - now apply wt_lm.
  - inversion Hign; subst. inversion Hnb; subst. now apply wt_ign.
Qed.

Lemma is_sec_not_ignorable l s : is_sec l s -> ~ ignorable l.
Proof. intros (nm & r & E & _) [H|[r' H]]; rewrite E in H; discriminate. Qed.

Lemma m2wf_text_drop_ign bs x post : m2wf_text bs (x :: post) -> ignorable x -> m2wf_text bs post.
Proof.
  intros H Hx. remember (x :: post) as ls0 eqn:E0. destruct H as [|b bs' l ls Hb Ht]; [discriminate|].
  destruct Hb as [ign lm name counts mtype ctype status la als lb bls h atoms bonds Hign Hlm].
  destruct ign as [|y ign].
  - simpl in E0. injection E0 as Ex Epost. subst lm. exfalso. exact (is_sec_not_ignorable _ _ Hlm Hx).
  - simpl in E0. injection E0 as Ex Epost. subst y post. inversion Hign; subst. constructor; [|exact Ht]. now constructor.
Qed.

Lemma m2wfs_text_locate bs ls i : m2wfs_text bs ls -> (i < List.length ls)%nat ->
  exists bs1 b bs2 pre l post i', ls = pre ++ l ++ post /\ bs = bs1 ++ b :: bs2 /\
    m2wfs_text bs1 pre /\ m2wfs b l /\ m2wfs_text bs2 post /\ i = (List.length pre + i')%nat /\ (i' < List.length l)%nat.
Proof.
  intros H. revert i. induction H as [|b bs l ls Hb Ht IH]; intros i Hi; [simpl in Hi; lia|].
  rewrite app_length in Hi. destruct (lt_dec i (List.length l)) as [Hlt|Hge].
  - exists [], b, bs, [], l, ls, i. repeat split; auto. constructor.
  - destruct (IH (i - List.length l)%nat) as (bs1 & b' & bs2 & pre & l' & post & i' & E1 & E2 & H1 & H2 & H3 & E3 & H4); [lia|].
    exists (b :: bs1), b', bs2, (l ++ pre), l', post, i'. repeat split; auto.
    + rewrite E1. now rewrite app_assoc.
    + rewrite E2. reflexivity.
    + now constructor.
    + rewrite app_length. lia.
Qed.

Lemma pre_state bs1 pre : m2wf_text bs1 pre -> exists out p, pok p /\
  m2run true m2init pre = MRun MMain (pvars out p) /\ pout out p = rev bs1.
Proof.
  intros H. pose proof (run_text bs1 pre H [] None I) as R. unfold m2init.
  change (mk_m2vars None None None false []) with (pvars [] None).
  destruct (rev bs1) as [|b rbs] eqn:Er.
  - exists [], None. repeat split; auto.
  - destruct R as [R Hp]. exists (rbs ++ pout [] None), (pend_of b). split; [exact Hp|]. split; [exact R|].
    rewrite pout_pend_of. simpl. now rewrite app_nil_r.
Qed.

Lemma finish_text bs2 post out h atoms bonds : m2wf_text bs2 post ->
  Z.of_nat (List.length atoms) = mh_natoms h -> Z.of_nat (List.length bonds) = nb_of h ->
  m2finish true (m2run true (MRun MMain (pvars out (Some (h, atoms, bonds)))) post)
  = Ok (rev (mk_m2block h atoms bonds :: out) ++ bs2).
Proof.
  intros H H1 H2. assert (Hp : pok (Some (h, atoms, bonds))) by (split; assumption).
  pose proof (run_text bs2 post H out (Some (h, atoms, bonds)) Hp) as R.
  destruct (rev bs2) as [|b rbs] eqn:Er.
  - rewrite R. change (Some (h, atoms, bonds)) with (pend_of (mk_m2block h atoms bonds)).
    rewrite finish_some by exact Hp. apply (f_equal (@rev m2block)) in Er. rewrite rev_involutive in Er. subst bs2.
    now rewrite app_nil_r.
  - destruct R as [R Hpb]. rewrite R, finish_some by exact Hpb. cbn [pout].
    apply (f_equal (@rev m2block)) in Er. rewrite rev_involutive in Er. subst bs2.
    simpl. rewrite !rev_app_distr. simpl. rewrite <- !app_assoc. reflexivity.
Qed.

Definition bsim (b' b : m2block) : Prop := hsim (mk_hdr b') (mk_hdr b) /\ mk_atoms b' = mk_atoms b /\ mk_bonds b' = mk_bonds b.
Definition bogus_block (b : m2block) : Prop := exists bd, In bd (mk_bonds b) /\ bad_bond bd.
Lemma bsim_refl b : bsim b b.
Proof. repeat split. Qed.
Lemma Forall2_bsim_refl bs : Forall2 bsim bs bs.
Proof. induction bs; constructor; auto using bsim_refl. Qed.

Definition damaged_result (r : res (list m2block)) (bs : list m2block) : Prop :=
  (exists e, r = Err e) \/ (exists bs', r = Ok bs' /\ Forall2 bsim bs' bs) \/ (exists bs', r = Ok bs' /\ Exists bogus_block bs').

Lemma outcome_result bs1 pre b l bs2 post dl out p :
  m2wf_text bs1 pre -> pok p -> m2run true m2init pre = MRun MMain (pvars out p) -> pout out p = rev bs1 ->
  m2wfs b l -> m2wf_text bs2 post ->
  outcome (pout out p) (mk_hdr b) (mk_atoms b) (mk_bonds b) (MRun MMain (pvars out p)) dl post ->
  damaged_result (read_mol2 true (pre ++ dl ++ post)) (bs1 ++ b :: bs2).
Proof.
  intros Hpre Hp Rpre Eout Hb Hpost O. unfold read_mol2. rewrite <- m2run_app, Rpre.
  assert (Hc : Z.of_nat (List.length (mk_atoms b)) = mh_natoms (mk_hdr b) /\ Z.of_nat (List.length (mk_bonds b)) = nb_of (mk_hdr b)).
  { destruct Hb. cbn [mk_hdr mk_atoms mk_bonds]. split; [congruence|]. unfold nb_of. now rewrite H7. }
  destruct Hc as [Hc1 Hc2].
  destruct O as [F|h' Hs E|x post' bonds' bd E1 E2 E3 E4 E5 E6].
  - left. exact F.
  - right. left. rewrite <- m2run_app, E. destruct Hs as [Hs1 Hs2].
    assert (X1 : Z.of_nat (List.length (mk_atoms b)) = mh_natoms h') by (now rewrite Hs1).
    assert (X2 : Z.of_nat (List.length (mk_bonds b)) = nb_of h') by (unfold nb_of in *; now rewrite Hs2).
    rewrite (finish_text bs2 post _ _ _ _ Hpost X1 X2).
    eexists. split; [reflexivity|]. rewrite Eout. simpl. rewrite rev_involutive, <- app_assoc. simpl.
    apply Forall2_app; [apply Forall2_bsim_refl|]. constructor; [|apply Forall2_bsim_refl].
    destruct b. repeat split; assumption.
  - right. right. subst post. replace (dl ++ x :: post') with ((dl ++ [x]) ++ post') by (now rewrite <- app_assoc).
    rewrite <- m2run_app, E6.
    assert (X0 : m2wf_text bs2 post') by (eapply m2wf_text_drop_ign; eauto).
    assert (X2 : Z.of_nat (List.length bonds') = nb_of (mk_hdr b)) by (now rewrite E3).
    rewrite (finish_text bs2 post' _ _ _ _ X0 Hc1 X2).
    eexists. split; [reflexivity|]. rewrite Eout. simpl. rewrite rev_involutive, <- app_assoc. simpl.
    apply Exists_app. right. apply Exists_cons_hd. exists bd. split; assumption.
Qed.

Lemma block_deleted b l out p post i : m2wfs b l -> pok p -> wtail post -> (i < List.length l)%nat ->
  outcome (pout out p) (mk_hdr b) (mk_atoms b) (mk_bonds b) (MRun MMain (pvars out p)) (del_nth i l) post.
Proof.
  intros H Hp Ht Hi.
  destruct H as [ign lm name counts mtype ctype status la als lb bls h atoms bonds Hign Hlm Hh Hst Hla Hna HFa Hlb Hnb HFb
                 Hign_nb Hlm_few Hname_t Hname_bad Hcounts_o Hmtype_bad Hctype_p Hla_few Hlb_few Hals_o Hbls_o].
  cbn [mk_hdr mk_atoms mk_bonds]. destruct (lt_dec i (List.length ign)) as [Hlt|Hge].
  - rewrite del_nth_app_l by exact Hlt. apply (oc_same _ _ _ _ _ _ _ h (hsim_refl h)).
    assert (W : m2wf (mk_m2block h atoms bonds) (del_nth i ign ++ lm :: name :: counts :: mtype :: ctype :: status :: la :: als ++ lb :: bls))
      by (constructor; auto using del_nth_Forall).
    destruct (run_block _ _ out p W Hp) as [E _]. exact E.
  - replace i with (List.length ign + (i - List.length ign))%nat by lia. rewrite del_nth_app_r.
    apply outcome_ign; [exact Hign|].
    rewrite app_length in Hi. simpl in Hi. rewrite app_length in Hi. simpl in Hi.
    apply deleted_inner; auto. lia.
Qed.
Lemma block_duplicated b l out p post i : m2wfs b l -> pok p -> (i < List.length l)%nat ->
  outcome (pout out p) (mk_hdr b) (mk_atoms b) (mk_bonds b) (MRun MMain (pvars out p)) (dup_nth i l) post.
Proof.
  intros H Hp Hi.
  destruct H as [ign lm name counts mtype ctype status la als lb bls h atoms bonds Hign Hlm Hh Hst Hla Hna HFa Hlb Hnb HFb
                 Hign_nb Hlm_few Hname_t Hname_bad Hcounts_o Hmtype_bad Hctype_p Hla_few Hlb_few Hals_o Hbls_o].
  cbn [mk_hdr mk_atoms mk_bonds]. destruct (lt_dec i (List.length ign)) as [Hlt|Hge].
  - rewrite dup_nth_app_l by exact Hlt. apply (oc_same _ _ _ _ _ _ _ h (hsim_refl h)).
    assert (W : m2wf (mk_m2block h atoms bonds) (dup_nth i ign ++ lm :: name :: counts :: mtype :: ctype :: status :: la :: als ++ lb :: bls))
      by (constructor; auto using dup_nth_Forall).
    destruct (run_block _ _ out p W Hp) as [E _]. exact E.
  - replace i with (List.length ign + (i - List.length ign))%nat by lia. rewrite dup_nth_app_r.
    apply outcome_ign; [exact Hign|].
    rewrite app_length in Hi. simpl in Hi. rewrite app_length in Hi. simpl in Hi.
    apply duplicated_inner; auto. lia.
Qed.

Theorem read_mol2_deleted bs ls i : m2wfs_text bs ls -> (i < List.length ls)%nat ->
  damaged_result (read_mol2 true (del_nth i ls)) bs.
Proof.
  intros H Hi. destruct (m2wfs_text_locate bs ls i H Hi) as (bs1 & b & bs2 & pre & l & post & i' & E1 & E2 & H1 & H2 & H3 & E3 & H4).
  subst ls bs i. rewrite del_nth_app_r, del_nth_app_l by exact H4.
  destruct (pre_state bs1 pre (m2wfs_text_wf _ _ H1)) as (out & p & Hp & R & Eo).
  eapply outcome_result; eauto using m2wfs_text_wf.
  apply block_deleted; auto. eapply m2wfs_text_tail; eauto.
Qed.
Theorem read_mol2_duplicated bs ls i : m2wfs_text bs ls -> (i < List.length ls)%nat ->
  damaged_result (read_mol2 true (dup_nth i ls)) bs.
Proof.
  intros H Hi. destruct (m2wfs_text_locate bs ls i H Hi) as (bs1 & b & bs2 & pre & l & post & i' & E1 & E2 & H1 & H2 & H3 & E3 & H4).
  subst ls bs i. rewrite dup_nth_app_r, dup_nth_app_l by exact H4.
  destruct (pre_state bs1 pre (m2wfs_text_wf _ _ H1)) as (out & p & Hp & R & Eo).
  eapply outcome_result; eauto using m2wfs_text_wf.
  apply block_duplicated; auto.
Qed.

(* ---- molecules *)
Lemma atom_conv_nc atype nc nc' a x : m2_atom_conv atype nc a = Ok x ->
  m2_atom_conv atype nc' a = Ok x \/ exists e, m2_atom_conv atype nc' a = Err e.
Proof.
  unfold m2_atom_conv. destruct (nth_tok 2 (ma_toks a)); [|discriminate]. destruct (nth_tok 3 (ma_toks a)); [|discriminate].
  destruct (nth_tok 4 (ma_toks a)); [|discriminate].
  destruct (parse_float s); [|discriminate]. destruct (parse_float s0); [|discriminate]. destruct (parse_float s1); [|discriminate].
  destruct (nth_tok 5 (ma_toks a)); [|discriminate]. destruct (atype s2); [|discriminate].
  destruct (match ma_attr_charge a with Some c => parse_int c | None => Some 0%Z end); [|discriminate].
  destruct nc, nc'; intros H; auto.
  - destruct (nth_tok 8 (ma_toks a)); [|discriminate]. destruct (parse_float s3); [|discriminate]. now left.
  - destruct (nth_tok 8 (ma_toks a)); [|right; eexists; reflexivity]. destruct (parse_float s3); [now left|right; eexists; reflexivity].
Qed.
Lemma all_ok_atoms_nc atype nc nc' l : forall xs, all_ok (map (m2_atom_conv atype nc) l) = Ok xs ->
  all_ok (map (m2_atom_conv atype nc') l) = Ok xs \/ exists e, all_ok (map (m2_atom_conv atype nc') l) = Err e.
Proof.
  induction l as [|a l IH]; intros xs H; [now left|]. simpl in *.
  destruct (m2_atom_conv atype nc a) as [x|] eqn:Ea; [|discriminate].
  destruct (all_ok (map (m2_atom_conv atype nc) l)) as [xs'|] eqn:El; [|discriminate]. injection H as <-.
  destruct (atom_conv_nc atype nc nc' a x Ea) as [E|[e E]]; rewrite E; [|right; now exists e].
  destruct (IH xs' eq_refl) as [E2|[e E2]]; rewrite E2; [now left|right; now exists e].
Qed.

Lemma build_sim atype btype b' b m : bsim b' b -> mol2_build atype btype b = Ok m ->
  (exists e, mol2_build atype btype b' = Err e) \/ mol2_build atype btype b' = Ok m.
Proof.
  destruct b' as [h' a' bd'], b as [h a bd]. intros [[Hn Hb] [Ea Eb]]. simpl in *. subst a' bd'.
  unfold mol2_build, res_bind. cbn [mk_hdr mk_atoms mk_bonds]. rewrite Hn.
  destruct (mh_natoms h <? 0)%Z; [discriminate|]. destruct (mh_natoms h <? Z.of_nat (List.length a))%Z; [discriminate|].
  set (nc := negb (str_eqb (mh_chrg h) no_charges)). set (nc' := negb (str_eqb (mh_chrg h') no_charges)).
  destruct (all_ok (map (m2_atom_conv atype nc) a)) as [ats|] eqn:E1; [|discriminate].
  destruct (all_ok_atoms_nc atype nc nc' a ats E1) as [E1'|[e E1']]; rewrite E1'; [|left; now exists e].
  destruct (all_ok (map (m2_bond_conv btype (Z.to_nat (mh_natoms h))) bd)) as [bds|] eqn:E2; [|discriminate].
  destruct (nc && negb (len_is a (mh_natoms h))); [discriminate|]. intros H. injection H as <-.
  destruct (nc' && negb (len_is a (mh_natoms h))); [left; eexists; reflexivity|]. right.
  unfold nb_of. now rewrite Hb.
Qed.

Lemma all_ok_err_in {A B} (f : A -> res B) l : Exists (fun x => exists e, f x = Err e) l -> exists e, all_ok (map f l) = Err e.
Proof.
  induction 1 as [x l [e E]|x l H [e IH]]; simpl.
  - rewrite E. now exists e.
  - destruct (f x); [|eexists; reflexivity]. rewrite IH. now exists e.
Qed.
Lemma build_bogus atype btype b : bogus_block b -> exists e, mol2_build atype btype b = Err e.
Proof.
  intros (bd & Hin & Hbad). unfold mol2_build, res_bind.
  destruct (mh_natoms (mk_hdr b) <? 0)%Z; [eexists; reflexivity|].
  destruct (mh_natoms (mk_hdr b) <? Z.of_nat (List.length (mk_atoms b)))%Z; [eexists; reflexivity|].
  destruct (all_ok (map _ (mk_atoms b))); [|eexists; reflexivity].
  destruct (all_ok_err_in (m2_bond_conv btype (Z.to_nat (mh_natoms (mk_hdr b)))) (mk_bonds b)) as [e E].
  - apply Exists_exists. exists bd. split; [exact Hin|apply Hbad].
  - rewrite E. now exists e.
Qed.

Lemma all_ok_sim {A B} (f : A -> res B) (R : A -> A -> Prop) :
  (forall x' x m, R x' x -> f x = Ok m -> (exists e, f x' = Err e) \/ f x' = Ok m) ->
  forall l' l, Forall2 R l' l -> forall ms, all_ok (map f l) = Ok ms ->
  (exists e, all_ok (map f l') = Err e) \/ all_ok (map f l') = Ok ms.
Proof.
  intros HR l' l HF. induction HF as [|x' x l' l Hx HF IH]; intros ms H; [now right|]. simpl in *.
  destruct (f x) as [m|] eqn:Ex; [|discriminate]. destruct (all_ok (map f l)) as [ms'|] eqn:El; [|discriminate]. injection H as <-.
  destruct (HR x' x m Hx Ex) as [[e E]|E]; rewrite E; [left; now exists e|].
  destruct (IH ms' eq_refl) as [[e E2]|E2]; rewrite E2; [left; now exists e|now right].
Qed.

Lemma damaged_load atype btype r bs ms : damaged_result r bs -> all_ok (map (mol2_build atype btype) bs) = Ok ms ->
  (exists e, res_bind r (fun bs => all_ok (map (mol2_build atype btype) bs)) = Err e) \/
  res_bind r (fun bs => all_ok (map (mol2_build atype btype) bs)) = Ok ms.
Proof.
  intros [[e ->]|[(bs' & -> & HF)|(bs' & -> & HE)]] Hms; simpl.
  - left. now exists e.
  - eapply all_ok_sim; eauto. intros x' x m. apply build_sim.
  - left. apply all_ok_err_in. eapply Exists_impl; [|exact HE]. intros b Hb. now apply build_bogus.
Qed.

Theorem load_mol2_deleted atype btype bs ls ms i : m2wfs_text bs ls -> load_mol2_lines true atype btype ls = Ok ms ->
  (i < List.length ls)%nat ->
  (exists e, load_mol2_lines true atype btype (del_nth i ls) = Err e) \/ load_mol2_lines true atype btype (del_nth i ls) = Ok ms.
Proof.
  intros H Hfull Hi. unfold load_mol2_lines in *. destruct bs as [|b0 bs0].
  - inversion H; subst. simpl in Hi. lia.
  - rewrite (read_mol2_wf _ ls (m2wfs_text_wf _ _ H)) in Hfull by discriminate. simpl in Hfull.
    apply damaged_load with (bs := b0 :: bs0); [now apply read_mol2_deleted|exact Hfull].
Qed.
Theorem load_mol2_duplicated atype btype bs ls ms i : m2wfs_text bs ls -> load_mol2_lines true atype btype ls = Ok ms ->
  (i < List.length ls)%nat ->
  (exists e, load_mol2_lines true atype btype (dup_nth i ls) = Err e) \/ load_mol2_lines true atype btype (dup_nth i ls) = Ok ms.
Proof.
  intros H Hfull Hi. unfold load_mol2_lines in *. destruct bs as [|b0 bs0].
  - inversion H; subst. simpl in Hi. lia.
  - rewrite (read_mol2_wf _ ls (m2wfs_text_wf _ _ H)) in Hfull by discriminate. simpl in Hfull.
    apply damaged_load with (bs := b0 :: bs0); [now apply read_mol2_duplicated|exact Hfull].
Qed.
