(* C19 (kernels): the distance-matrix loops of Model/Dist.v return, for ALL array lengths (0 included), an array
   of the right shape whose entry (i,j) / (x,i,j) is the point-distance function applied to row i (of block x)
   and row j; over R the point function is  sum_k (a_k - b_k)^2  (any ND, and ND = 3) resp. its square root. *)
From Coq Require Import Reals Lra Psatz List ZArith QArith Lia Arith.
From Molli Require Import Common.Field3 Common.Field3R Common.FlatNth Model.Dist.
Import ListNotations.

(* ------------------------------------------------------------------ structure: any F, any point function *)
Section Structure.
Context {F : Type}.

Variable f : vec F -> vec F -> F.

Lemma cdist22_shape (A B : list (vec F)) :
  shape (cdist22 f A B) = [length A; length B] /\ length (data (cdist22 f A B)) = (length A * length B)%nat.
Proof.
  split; [reflexivity|]. unfold cdist22; cbn [data].
  apply flat_map_uniform_length. intros; apply map_length.
Qed.

Lemma cdist22_entry (A B : list (vec F)) (da db : vec F) (d : F) (i j : nat) :
  (i < length A)%nat -> (j < length B)%nat ->
  nth (i * length B + j) (data (cdist22 f A B)) d = f (nth i A da) (nth j B db).
Proof.
  intros Hi Hj. unfold cdist22; cbn [data].
  rewrite (flat_map_uniform_nth _ (length B) da) by (try (intros; apply map_length); assumption).
  rewrite (nth_indep _ d (f (nth i A da) db)) by (rewrite map_length; exact Hj).
  apply (map_nth (f (nth i A da))).
Qed.

Lemma cdist32_shape (L1 : nat) (E : list (list (vec F))) (B : list (vec F)) :
  Forall (fun A => length A = L1) E ->
  shape (cdist32 f L1 E B) = [length E; L1; length B] /\
  length (data (cdist32 f L1 E B)) = (length E * (L1 * length B))%nat.
Proof.
  intros HE. split; [reflexivity|]. unfold cdist32; cbn [data].
  apply flat_map_uniform_length. intros A HA.
  rewrite Forall_forall in HE. rewrite <- (HE A HA). apply cdist22_shape.
Qed.

Lemma cdist32_entry (L1 : nat) (E : list (list (vec F))) (B : list (vec F)) (da db : vec F) (d : F) (x i j : nat) :
  Forall (fun A => length A = L1) E ->
  (x < length E)%nat -> (i < L1)%nat -> (j < length B)%nat ->
  nth ((x * L1 + i) * length B + j) (data (cdist32 f L1 E B)) d = f (nth i (nth x E []) da) (nth j B db).
Proof.
  intros HE Hx Hi Hj. rewrite Forall_forall in HE. unfold cdist32; cbn [data].
  replace ((x * L1 + i) * length B + j)%nat with (x * (L1 * length B) + (i * length B + j))%nat by lia.
  rewrite (flat_map_uniform_nth _ (L1 * length B)%nat []).
  - apply cdist22_entry; [|exact Hj]. rewrite (HE (nth x E [])) by (apply nth_In; exact Hx). exact Hi.
  - intros A HA. rewrite <- (HE A HA). apply cdist22_shape.
  - exact Hx.
  - nia.
Qed.
End Structure.

(* ------------------------------------------------------------------ the point functions over R *)
Local Open Scope R_scope.

(* sum_{k < n} g k *)
Fixpoint sumf (g : nat -> R) (n : nat) : R :=
  match n with O => 0 | S m => g O + sumf (fun k => g (S k)) m end.

Lemma fold_sq_acc (a : list R) : forall (b : list R) (acc : R), length a = length b ->
  fold_left (fun s p => fadd ROps s (square ROps (fsub ROps (fst p) (snd p)))) (combine a b) acc
  = acc + sumf (fun k => (nth k a 0 - nth k b 0) * (nth k a 0 - nth k b 0)) (length a).
Proof.
  induction a as [|x a IH]; intros b acc Hl; destruct b as [|y b]; simpl in Hl; try discriminate.
  - simpl. ring.
  - injection Hl as Hl. cbn [combine fold_left length sumf nth fst snd].
    rewrite IH by exact Hl. unfold square; cbn [ROps fadd fsub fmul]. ring.
Qed.

(* the loop of euclidean2, any ND: sum_k (a_k - b_k)^2 *)
Lemma euclidean2_nd_sum (a b : list R) : length a = length b ->
  euclidean2_nd ROps a b = sumf (fun k => (nth k a 0 - nth k b 0) * (nth k a 0 - nth k b 0)) (length a).
Proof. intros Hl. unfold euclidean2_nd. rewrite fold_sq_acc by exact Hl. cbn [ROps f0]. ring. Qed.

Lemma euclidean2_R (a b : vecR) :
  euclidean2 ROps a b =
  let '(a1, a2, a3) := a in let '(b1, b2, b3) := b in
  (a1 - b1) * (a1 - b1) + (a2 - b2) * (a2 - b2) + (a3 - b3) * (a3 - b3).
Proof. vdestruct. cbv [euclidean2 euclidean2_nd combine fold_left square fst snd ROps fadd fsub fmul f0]. ring. Qed.

Lemma euclidean2_dist2 (a b : vecR) : euclidean2 ROps a b = dist2 ROps a b.
Proof. rewrite euclidean2_R. vdestruct. f3. ring. Qed.

Lemma euclidean2_nonneg (a b : vecR) : 0 <= euclidean2 ROps a b.
Proof.
  rewrite euclidean2_R. destruct a as [[r2 r3] r4], b as [[r r0] r1]. cbv beta iota.
  pose proof (Rle_0_sqr (r2 - r)). pose proof (Rle_0_sqr (r3 - r0)). pose proof (Rle_0_sqr (r4 - r1)).
  unfold Rsqr in *. lra.
Qed.

Lemma euclidean2_sym (a b : vecR) : euclidean2 ROps a b = euclidean2 ROps b a.
Proof. rewrite !euclidean2_R. vdestruct. cbv beta iota. ring. Qed.

Lemma euclidean2_zero_iff (a b : vecR) : euclidean2 ROps a b = 0 <-> a = b.
Proof.
  rewrite euclidean2_R. destruct a as [[r2 r3] r4], b as [[r r0] r1]. cbv beta iota. split.
  - intros H.
    pose proof (Rle_0_sqr (r2 - r)) as H1. pose proof (Rle_0_sqr (r3 - r0)) as H2. pose proof (Rle_0_sqr (r4 - r1)) as H3.
    unfold Rsqr in *.
    assert (E1 : (r2 - r) * (r2 - r) = 0) by lra. assert (E2 : (r3 - r0) * (r3 - r0) = 0) by lra.
    assert (E3 : (r4 - r1) * (r4 - r1) = 0) by lra.
    apply Rmult_integral in E1, E2, E3.
    assert (r2 = r) by (destruct E1; lra). assert (r3 = r0) by (destruct E2; lra). assert (r4 = r1) by (destruct E3; lra).
    now subst.
  - intros H. inversion H; subst. ring.
Qed.

(* `euclidean` = sqrt(euclidean2) *)
Definition euclideanR (a b : vecR) : R := sqrt (euclidean2 ROps a b).

Lemma euclideanR_spec (a b : vecR) : 0 <= euclideanR a b /\ euclideanR a b * euclideanR a b = euclidean2 ROps a b.
Proof. unfold euclideanR. split; [apply sqrt_pos | apply sqrt_sqrt, euclidean2_nonneg]. Qed.

(* what the boolean root test of the correspondence means *)
Lemma sqrt_close_sound (tol d s : R) : 0 <= s ->
  sqrt_close ROps tol d s = true -> Rabs (d - sqrt s) <= tol * sqrt s.
Proof.
  intros Hs H. unfold sqrt_close in H. cbn [ROps fleb f0 fsub fmul] in H.
  apply andb_prop in H as [H H3]. apply andb_prop in H as [H1 H2].
  apply Rleb_true in H1, H2, H3.
  set (r := sqrt s) in *. assert (Hr : 0 <= r) by apply sqrt_pos.
  assert (Hrr : r * r = s) by (apply sqrt_sqrt; exact Hs). rewrite <- Hrr in H2, H3. clear Hrr Hs.
  destruct (Req_dec r 0) as [Hz|Hnz].
  - rewrite Hz in *. assert (d = 0) by nra. subst d. rewrite Rminus_0_r, Rabs_R0. lra.
  - assert (Hp : 0 < r) by lra.
    apply Rabs_le. split.
    + (* r - d <= tol r, from r^2 - d^2 <= r^2 tol *)
      destruct (Rle_dec r d) as [Hle|Hgt]; [assert (0 <= tol * r) by nra; lra|].
      assert (r * (r - d) <= r * (tol * r)) by nra.
      apply Rmult_le_reg_l in H; lra.
    + destruct (Rle_dec d r) as [Hle|Hgt]; [assert (0 <= tol * r) by nra; lra|].
      assert (r * (d - r) <= r * (tol * r)) by nra.
      apply Rmult_le_reg_l in H; lra.
Qed.

Lemma sqrt_close_exact (d s : R) : 0 <= s -> sqrt_close ROps 0 d s = true -> d = sqrt s.
Proof.
  intros Hs H. apply sqrt_close_sound in H; [|exact Hs].
  rewrite Rmult_0_l in H. unfold Rabs in H. destruct (Rcase_abs (d - sqrt s)); lra.
Qed.

Lemma rel_close_sound (tol x s : R) : rel_close ROps tol x s = true -> Rabs (x - s) <= s * tol.
Proof.
  unfold rel_close; cbn [ROps fleb fsub fmul]. intros H. apply andb_prop in H as [H1 H2].
  apply Rleb_true in H1, H2. apply Rabs_le. lra.
Qed.

(* comparing distances with a non-negative cut-off is comparing squares (used by the grid descriptors, which
   work with squared distances throughout) *)
Lemma sqrt_le_cut (x c : R) : 0 <= x -> 0 <= c -> (sqrt x <= c <-> x <= c * c).
Proof.
  intros Hx Hc. split; intros H.
  - rewrite <- (sqrt_sqrt x Hx). apply Rmult_le_compat; try apply sqrt_pos; exact H.
  - rewrite <- (sqrt_square c Hc). apply sqrt_le_1_alt. exact H.
Qed.

(* ------------------------------------------------------------------ the kernels as registered (ND = 3) *)
Definition sq3 (a b : vecR) : R :=
  let '(a1, a2, a3) := a in let '(b1, b2, b3) := b in
  (a1 - b1) * (a1 - b1) + (a2 - b2) * (a2 - b2) + (a3 - b3) * (a3 - b3).

Theorem kernel22 (A B : list vecR) :
  let r2 := cdist22 (euclidean2 ROps) A B in
  let r := cdist22 euclideanR A B in
  shape r2 = [length A; length B] /\ length (data r2) = (length A * length B)%nat /\
  shape r = [length A; length B] /\ length (data r) = (length A * length B)%nat /\
  forall i j, (i < length A)%nat -> (j < length B)%nat ->
    nth (i * length B + j) (data r2) 0 = sq3 (nth i A (vzero ROps)) (nth j B (vzero ROps)) /\
    nth (i * length B + j) (data r) 0 = sqrt (sq3 (nth i A (vzero ROps)) (nth j B (vzero ROps))).
Proof.
  cbv zeta. repeat split; try apply cdist22_shape.
  - rewrite (cdist22_entry _ A B (vzero ROps) (vzero ROps)) by assumption. apply euclidean2_R.
  - rewrite (cdist22_entry _ A B (vzero ROps) (vzero ROps)) by assumption.
    unfold euclideanR. f_equal. apply euclidean2_R.
Qed.

Theorem kernel32 (L1 : nat) (E : list (list vecR)) (B : list vecR) :
  Forall (fun A => length A = L1) E ->
  let r2 := cdist32 (euclidean2 ROps) L1 E B in
  let r := cdist32 euclideanR L1 E B in
  shape r2 = [length E; L1; length B] /\ length (data r2) = (length E * (L1 * length B))%nat /\
  shape r = [length E; L1; length B] /\ length (data r) = (length E * (L1 * length B))%nat /\
  forall x i j, (x < length E)%nat -> (i < L1)%nat -> (j < length B)%nat ->
    nth ((x * L1 + i) * length B + j) (data r2) 0 = sq3 (nth i (nth x E []) (vzero ROps)) (nth j B (vzero ROps)) /\
    nth ((x * L1 + i) * length B + j) (data r) 0 = sqrt (sq3 (nth i (nth x E []) (vzero ROps)) (nth j B (vzero ROps))).
Proof.
  intros HE. cbv zeta. repeat split; try (apply cdist32_shape; exact HE).
  - rewrite (cdist32_entry _ L1 E B (vzero ROps) (vzero ROps)) by assumption. apply euclidean2_R.
  - rewrite (cdist32_entry _ L1 E B (vzero ROps) (vzero ROps)) by assumption.
    unfold euclideanR. f_equal. apply euclidean2_R.
Qed.

(* ------------------------------------------------------------------ what a passing correspondence case means *)
Lemma all2_length {A B} (p : A -> B -> bool) (l : list A) : forall m, all2 p l m = true -> length l = length m.
Proof.
  induction l as [|x l IH]; intros [|y m] H; simpl in H; try discriminate; [reflexivity|].
  apply andb_prop in H as [_ H]. simpl. f_equal. apply IH, H.
Qed.
Lemma all2_nth {A B} (p : A -> B -> bool) (da : A) (db : B) (l : list A) : forall m k,
  all2 p l m = true -> (k < length l)%nat -> p (nth k l da) (nth k m db) = true.
Proof.
  induction l as [|x l IH]; intros [|y m] k H Hk; simpl in H, Hk; try discriminate; try lia.
  apply andb_prop in H as [H0 H]. destruct k as [|k]; simpl; [exact H0|]. apply IH; [exact H | lia].
Qed.
Lemma all2_eqb_eq (l m : list nat) : all2 Nat.eqb l m = true -> l = m.
Proof.
  revert m. induction l as [|x l IH]; intros [|y m] H; simpl in H; try discriminate; [reflexivity|].
  apply andb_prop in H as [H0 H]. apply Nat.eqb_eq in H0. subst. f_equal. apply IH, H.
Qed.

Lemma check_sound (c : case) : check c = true ->
  c_oshape c = shape (model_sq c) /\ length (c_odata c) = length (data (model_sq c)) /\
  forall k, (k < length (data (model_sq c)))%nat ->
    let s := nth k (data (model_sq c)) 0%Q in let d := nth k (c_odata c) 0%Q in
    if c_sq c then rel_close QOps (c_tol c) d s = true else sqrt_close QOps (c_tol c) d s = true.
Proof.
  unfold check. intros H. apply andb_prop in H as [H1 H2].
  split; [symmetry; apply all2_eqb_eq, H1|].
  split; [symmetry; eapply all2_length, H2|].
  intros k Hk. cbv zeta.
  pose proof (all2_nth _ 0%Q 0%Q _ _ k H2 Hk) as H. cbv beta in H.
  destruct (c_sq c); exact H.
Qed.
