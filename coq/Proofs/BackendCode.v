(* The buffering layer IS the model: the translated bodies of CollectionBackendBase.put / get / flush and of
   UkvCollectionBackend._write / _read / update_keys (Gen/BackendCode.v) compute, for every state, what
   Model/Backend.v's b_put / b_get / flush compute. *)
From Coq Require Import NArith ZArith Arith List Bool String Lia.
Import ListNotations.
From Molli Require Import Model.UKV Model.MiniPy Model.Backend Model.MiniPyB Gen.UKVCode Gen.BackendCode
  Proofs.UKVBase Proofs.UKVCode.
Open Scope string_scope.
Open Scope N_scope.

(* the backend object state represents the model backend b over the file f *)
Record BRep (s : bstate) (f : bytes) (b : backend) : Prop := {
  br_file : file (inner s) = f;
  br_has : has_inner s = has_uk b;
  br_uk : has_uk b = true -> Rep (inner s) (uk b);
  br_q : bq s = queue b;
  br_ks : bks s = bkeys b;
  br_used : bused s = used b;
  br_buf : bbuf s = bufsize b;
  br_ro : bro s = ro b;
  br_sess : bsess s = st b
}.

Definition bout_of (e : option berr) : boutcome := match e with None => BONormal | Some x => BORaise x end.
Definition with_uk (b : backend) (h : handle) : backend := mkb h (has_uk b) (queue b) (bkeys b) (used b) (bufsize b) (ro b) (st b).

Lemma rep_locals s h x v : Rep s h -> Rep (set_local s x v) h.
Proof. intros [A B C D E F]. constructor; assumption. Qed.

Lemma brep_restore s f b l : BRep s f b -> BRep (restore_loc s l) f b.
Proof. intros [A1 A2 A3 A4 A5 A6 A7 A8 A9]. constructor; assumption. Qed.

(* _write(key, value): the translated UKVFile.put on the inner object *)
Lemma write_code fuel s f b k v :
  BRep s f b -> has_uk b = true -> bloc s "key" = Some k -> bloc s "value" = Some v ->
  let '(s', o) := bexec fuel write_prog s in
  let '(f', h', r) := put f (uk b) k v in
  BRep s' f' (with_uk b h') /\ bloc s' = bloc s /\
  o = match r with ROk => BONormal | RErr e => BORaise (berr_of e) | _ => BORaise BAttr end.
Proof.
  intros R Hh Lk Lv. destruct R as [Rf Rh Ru Rq Rk Rus Rb Rr Rs]. specialize (Ru Hh).
  unfold write_prog. cbn [bexec]. rewrite Rh, Hh. cbn [negb bind_inner beval_val]. rewrite Lk. cbn [bind_inner beval_val]. rewrite Lv. cbn [bind_inner].
  set (st0 := set_local (set_local (inner s) "key" (VBytes k)) "value" (VBytes v)).
  assert (R0 : Rep st0 (uk b)) by (apply rep_locals, rep_locals; exact Ru).
  assert (Lk0 : lookup_env (locals st0) "key" = Some (VBytes k)).
  { unfold st0. cbn [set_local locals]. rewrite lookup_set_other by discriminate. apply lookup_set_same. }
  assert (Lv0 : lookup_env (locals st0) "value" = Some (VBytes v)) by (unfold st0; cbn [set_local locals]; apply lookup_set_same).
  pose proof (put_code fuel st0 (uk b) k v R0 Lk0 Lv0) as P. change (file st0) with (file (inner s)) in P. rewrite Rf in P.
  pose proof (put_result_kind f (uk b) k v) as K.
  destruct (exec fuel put_prog st0) as [st1 o1]. destruct (put f (uk b) k v) as [[f' h'] r]. destruct P as [P1 [P2 P3]].
  split; [|split].
  - constructor; cbn [with_inner inner has_inner bq bks bused bbuf bro bsess bheld with_uk uk has_uk queue bkeys used bufsize ro st]; try assumption.
    intros _. exact P2.
  - reflexivity.
  - subst o1. destruct K as [K|[e K]]; subst r; [reflexivity|destruct e; reflexivity].
Qed.

Definition set_used (b : backend) (u : Z) : backend := mkb (uk b) (has_uk b) (queue b) (bkeys b) u (bufsize b) (ro b) (st b).

Definition loop_body : bstmt := BTryReraise (BCall write_prog) (BSeq (BCall update_keys_prog) BKeysAddQueued).

(* the while loop of flush() is the model's flush_loop (the model resets the buffer accounting inside the loop's last
   step, the code right after the loop: stated with the accounting left as it was) *)
Lemma flush_loop_code fuel : forall n s f b,
  (List.length (bq s) < n)%nat -> BRep s f b ->
  let '(s', o) := bwloop (bexec fuel loop_body) "key" "value" n s in
  let '(f', b', e) := flush_loop n f b in
  o = bout_of e /\ BRep s' f' (match e with None => set_used b' (used b) | Some _ => b' end).
Proof.
  induction n as [|n IH]; intros s f b Hn R; [lia|].
  pose proof R as R0. destruct R as [Rf Rh Ru Rq Rk Rus Rb Rr Rs].
  cbn [bwloop flush_loop]. rewrite Rq. destruct (queue b) as [|[k v] q'] eqn:Eq.
  - (* empty queue *)
    cbn [bout_of]. split; [reflexivity|]. constructor; cbn [set_used uk has_uk queue bkeys used bufsize ro st]; try assumption; try reflexivity; try (rewrite Rq; exact Eq).
  - set (s1 := set_bloc (set_bloc (mkbs (inner s) (has_inner s) q' (bks s) (bused s) (bbuf s) (bro s) (bsess s) (bheld s) (bloc s)) "key" k) "value" v).
    set (b1 := mkb (uk b) (has_uk b) q' (bkeys b) (used b) (bufsize b) (ro b) (st b)).
    assert (R1 : BRep s1 f b1).
    { constructor; cbn [s1 set_bloc inner has_inner bq bks bused bbuf bro bsess bheld b1 uk has_uk queue bkeys used bufsize ro st]; try assumption; reflexivity. }
    assert (Lk : bloc s1 "key" = Some k) by reflexivity.
    assert (Lv : bloc s1 "value" = Some v) by reflexivity.
    destruct (has_uk b) eqn:Hh; cbn [negb].
    + (* the UKVFile exists: _write is the translated put *)
      pose proof (write_code fuel s1 f b1 k v R1 eq_refl Lk Lv) as W. change (uk b1) with (uk b) in W.
      unfold loop_body at 1. cbn [bexec].
      destruct (bexec fuel write_prog s1) as [s2 o2]. destruct (put f (uk b) k v) as [[f' h'] r] eqn:Ep.
      destruct W as [W1 [W2 W3]]. subst o2.
      pose proof (put_result_kind f (uk b) k v) as K. rewrite Ep in K.
      destruct K as [K|[e K]]; subst r.
      * (* written: next item *)
        cbn [bexec]. fold loop_body.
        set (s2' := restore_loc s2 (bloc s1)).
        assert (W1' : BRep s2' f' (with_uk b1 h')) by (apply brep_restore; exact W1).
        assert (Hn' : (List.length (bq s2') < n)%nat).
        { rewrite (br_q _ _ _ W1'). cbn [with_uk queue b1]. rewrite Rq in Hn. simpl in Hn. lia. }
        specialize (IH s2' f' (with_uk b1 h') Hn' W1').
        destruct (bwloop (bexec fuel loop_body) "key" "value" n s2') as [s3 o3].
        change (with_uk b1 h') with (mkb h' true q' (bkeys b) (used b) (bufsize b) (ro b) (st b)) in IH.
        destruct (flush_loop n f' (mkb h' true q' (bkeys b) (used b) (bufsize b) (ro b) (st b))) as [[f3 b3] e3].
        exact IH.
      * (* the write failed: the listing is repaired, the exception propagates *)
        cbn [bexec].
        set (s2' := restore_loc s2 (bloc s1)).
        assert (Hi : has_inner s2' = true) by (cbn [s2' restore_loc has_inner]; rewrite (br_has _ _ _ W1); reflexivity).
        unfold update_keys_prog. cbn [bexec]. rewrite Hi. cbn [negb].
        assert (R2 : Rep (inner s2') h') by (cbn [s2' restore_loc inner]; apply (br_uk _ _ _ W1); reflexivity).
        rewrite (keys_code (inner s2') h' R2). cbn [bexec restore_loc].
        cbn [bout_of]. split; [destruct e; reflexivity|].
        destruct W1 as [A1 A2 A3 A4 A5 A6 A7 A8 A9].
        constructor; cbn [s2' restore_loc inner has_inner bq bks bused bbuf bro bsess bheld uk has_uk queue bkeys used bufsize ro st with_uk b1] in *; try assumption.
        -- reflexivity.
        -- rewrite A4. reflexivity.
    + (* no UKVFile yet: AttributeError from _write and again from update_keys in the handler *)
      unfold loop_body at 1. cbn [bexec]. unfold write_prog at 1. cbn [bexec].
      assert (Hi : has_inner s1 = false) by (cbn [s1 set_bloc has_inner]; rewrite Rh; reflexivity).
      rewrite Hi. cbn [negb bexec]. unfold update_keys_prog. cbn [bexec restore_loc has_inner]. rewrite Hi. cbn [negb restore_loc].
      cbn [bout_of]. split; [reflexivity|]. apply brep_restore. apply brep_restore. exact R1.
Qed.

Lemma flush_loop_fuel : forall n m f b, (List.length (queue b) < n)%nat -> (List.length (queue b) < m)%nat ->
  flush_loop n f b = flush_loop m f b.
Proof.
  induction n as [|n IH]; intros m f b Hn Hm; [lia|]. destruct m as [|m]; [lia|].
  cbn [flush_loop]. destruct (queue b) as [|[k v] q'] eqn:Eq; [reflexivity|].
  destruct (negb (has_uk b)); [reflexivity|]. destruct (put f (uk b) k v) as [[f' h'] r]. destruct r; try reflexivity.
  apply IH; cbn [queue]; simpl in Hn, Hm; lia.
Qed.

Lemma flush_loop_none : forall n f b f' b', (List.length (queue b) < n)%nat -> flush_loop n f b = (f', b', None) -> used b' = 0%Z.
Proof.
  induction n as [|n IH]; intros f b f' b' Hn H; [lia|].
  cbn [flush_loop] in H. destruct (queue b) as [|[k v] q'] eqn:Eq; [inversion H; reflexivity|].
  destruct (negb (has_uk b)); [discriminate|]. destruct (put f (uk b) k v) as [[f1 h1] r]. destruct r; try discriminate.
  eapply IH; [|exact H]. cbn [queue]. simpl in Hn. lia.
Qed.

Lemma bexec_seq fuel a b s : bexec fuel (BSeq a b) s = (let '(s1, o) := bexec fuel a s in match o with BONormal => bexec fuel b s1 | _ => (s1, o) end).
Proof. reflexivity. Qed.
Lemma bexec_while fuel kx vx body s : bexec fuel (BWhilePop kx vx body) s = bwloop (bexec fuel body) kx vx fuel s.
Proof. reflexivity. Qed.
Lemma bexec_call fuel body s : bexec fuel (BCall body) s = (let '(s1, o) := bexec fuel body s in (restore_loc s1 (bloc s), match o with BOReturn _ => BONormal | _ => o end)).
Proof. reflexivity. Qed.

Lemma bexec_if fuel c a b s : bexec fuel (BIf c a b) s = match beval_bool s c with Some true => bexec fuel a s | Some false => bexec fuel b s | None => (s, BORaise BAttr) end.
Proof. reflexivity. Qed.

(* flush() *)
Theorem flush_code fuel s f b :
  (List.length (queue b) < fuel)%nat -> BRep s f b ->
  let '(s', o) := bexec fuel flush_prog s in
  let '(f', b', e) := flush f b in
  o = bout_of e /\ BRep s' f' b' /\ bloc s' "key" = bloc s' "key".
Proof.
  intros Hn R. unfold flush. change flush_prog with (BSeq (BWhilePop "key" "value" loop_body) BUsedReset).
  rewrite bexec_seq, bexec_while.
  assert (Hn' : (List.length (bq s) < fuel)%nat) by (rewrite (br_q _ _ _ R); exact Hn).
  pose proof (flush_loop_code fuel fuel s f b Hn' R) as L.
  rewrite (flush_loop_fuel (S (List.length (queue b))) fuel f b (Nat.lt_succ_diag_r _) Hn).
  destruct (bwloop (bexec fuel loop_body) "key" "value" fuel s) as [s1 o1].
  destruct (flush_loop fuel f b) as [[f' b'] e] eqn:Ef. destruct L as [L1 L2]. subst o1.
  destruct e as [x|]; cbn [bout_of]; [|change (bexec fuel BUsedReset s1) with (mkbs (inner s1) (has_inner s1) (bq s1) (bks s1) 0%Z (bbuf s1) (bro s1) (bsess s1) (bheld s1) (bloc s1), BONormal)].
  - split; [reflexivity|]. split; [exact L2|reflexivity].
  - split; [reflexivity|]. split; [|reflexivity].
    pose proof (flush_loop_none fuel f b f' b' Hn Ef) as U.
    destruct L2 as [A1 A2 A3 A4 A5 A6 A7 A8 A9].
    constructor; cbn [inner has_inner bq bks bused bbuf bro bsess bheld set_used uk has_uk queue bkeys used bufsize ro st] in *; try assumption.
    symmetry; exact U.
Qed.

Definition bout_of_res (r : bres) : boutcome :=
  match r with BOk => BONormal | BVal v => BOReturn (Some v) | BErr x => BORaise x | _ => BORaise BAttr end.

Opaque flush_prog.

(* put(key, value) of the buffering layer: Model.Backend.b_put, for every buffer size *)
Theorem bput_code fuel s f b k v :
  (S (List.length (queue b)) < fuel)%nat -> BRep s f b -> bloc s "key" = Some k -> bloc s "value" = Some v ->
  let '(s', o) := bexec fuel bput_prog s in
  let '(f', b', r) := b_put f b k v in
  BRep s' f' b' /\ o = bout_of_res r.
Proof.
  intros Hn R Lk Lv. pose proof R as R0. destruct R as [Rf Rh Ru Rq Rk Rus Rb Rr Rs].
  unfold bput_prog, b_put. cbn [bexec beval_bool]. rewrite Rr. destruct (ro b) eqn:Ero.
  - cbn [bexec]. split; [exact R0|reflexivity].
  - repeat (progress (cbn [bexec beval_bytes beval_bool bloc bbuf bused inner has_inner bq bks bro bsess bheld]; rewrite ?Lk, ?Lv)).
    rewrite Rb, Rus. cbn [bufsize used].
    destruct (bufsize b <? used b + Z.of_N (len k) + Z.of_N (len v))%Z eqn:Eo.
    + set (s1 := mkbs (inner s) (has_inner s) (bq s ++ [(k, v)]) (set_add (bks s) k) (used b + Z.of_N (len k) + Z.of_N (len v))%Z (bufsize b) (bro s) (bsess s) (bheld s) (bloc s)).
      set (b1 := mkb (uk b) (has_uk b) (queue b ++ [(k, v)]) (set_add (bkeys b) k) (used b + Z.of_N (len k) + Z.of_N (len v))%Z (bufsize b) false (st b)).
      assert (R1 : BRep s1 f b1).
      { constructor; cbn [s1 b1 inner has_inner bq bks bused bbuf bro bsess bheld uk has_uk queue bkeys used bufsize ro st]; try assumption; try reflexivity; congruence. }
      assert (Hn1 : (List.length (queue b1) < fuel)%nat) by (cbn [b1 queue]; rewrite app_length; simpl; lia).
      pose proof (flush_code fuel s1 f b1 Hn1 R1) as F.
      destruct (bexec fuel flush_prog s1) as [s2 o2]. destruct (flush f b1) as [[f' b2] e].
      destruct F as [F1 [F2 _]]. subst o2. split; [apply brep_restore; exact F2|]. destruct e; reflexivity.
    + split; [|reflexivity].
      constructor; cbn [inner has_inner bq bks bused bbuf bro bsess bheld uk has_uk queue bkeys used bufsize ro st]; try assumption; try reflexivity; congruence.
Qed.

(* get(key) of the buffering layer: a buffered key is flushed first, then read through the translated UKVFile.get *)
Theorem bget_code fuel s f b k :
  (List.length (queue b) < fuel)%nat -> BRep s f b -> bloc s "key" = Some k ->
  let '(s', o) := bexec fuel bget_prog s in
  let '(f', b', r) := b_get f b k in
  BRep s' f' b' /\ o = bout_of_res r.
Proof.
  intros Hn R Lk. unfold bget_prog, b_get, writing. rewrite bexec_seq, bexec_if. cbn [beval_bool beval_bytes]. rewrite Lk, (br_q _ _ _ R), (br_sess _ _ _ R).
  assert (Hc : (match (if sess_eqb (st b) SWriting then Some (existsb (fun p => beq k (fst p)) (queue b)) else Some false) with
                | Some true => true | _ => false end) =
               (match st b with SWriting => true | _ => false end && existsb (fun p => beq k (fst p)) (queue b))%bool).
  { destruct (st b); cbn [sess_eqb andb]; try reflexivity. destruct (existsb _ (queue b)); reflexivity. }
  assert (Hc' : (if sess_eqb (st b) SWriting then Some (existsb (fun p => beq k (fst p)) (queue b)) else Some false) =
                Some (match st b with SWriting => true | _ => false end && existsb (fun p => beq k (fst p)) (queue b))%bool).
  { destruct (st b); reflexivity. }
  clear Hc. rewrite Hc'. clear Hc'.
  assert (Read : forall s1 f1 b1, BRep s1 f1 b1 -> bloc s1 "key" = Some k ->
            let '(s', o) := bexec fuel (BCallRet read_prog) s1 in
            BRep s' f1 b1 /\ o = bout_of_res (if negb (has_uk b1) then BErr BAttr else
                                              match get f1 (uk b1) k with RVal v => BVal v | RErr x => BErr (berr_of x) | _ => BOther end)).
  { intros s1 f1 b1 R1 L1. cbn [bexec]. unfold read_prog. cbn [bexec]. rewrite (br_has _ _ _ R1).
    destruct (has_uk b1) eqn:Hh; cbn [negb].
    - cbn [bind_inner beval_val]. rewrite L1. cbn [bind_inner].
      set (st0 := set_local (inner s1) "key" (VBytes k)).
      assert (R0 : Rep st0 (uk b1)) by (apply rep_locals, (br_uk _ _ _ R1 Hh)).
      assert (Lk0 : lookup_env (locals st0) "key" = Some (VBytes k)) by (unfold st0; cbn [set_local locals]; apply lookup_set_same).
      pose proof (get_code fuel st0 (uk b1) k R0 Lk0) as G. change (file st0) with (file (inner s1)) in G. rewrite (br_file _ _ _ R1) in G.
      destruct (exec fuel get_prog st0) as [st1 o1]. destruct G as [G1 [G2 [G3 [G4 G5]]]].
      split.
      + destruct R1 as [A1 A2 A3 A4 A5 A6 A7 A8 A9].
        constructor; cbn [restore_loc with_inner inner has_inner bq bks bused bbuf bro bsess bheld]; try assumption.
        intros Hx. specialize (A3 Hx). destruct A3 as [B1 B2 B3 B4 B5 B6].
        constructor; rewrite ?G2; try assumption; change (attrs st0) with (attrs (inner s1)); try assumption.
        * intros Hc. rewrite G3, G4. change (strm st0) with (strm (inner s1)). apply B5; exact Hc.
      + subst o1. unfold get. destruct (closed (uk b1)); [reflexivity|]. destruct (lookup (toc (uk b1)) k); reflexivity.
    - split; [apply brep_restore; exact R1|reflexivity]. }
  destruct (match st b with SWriting => true | _ => false end && existsb (fun p => beq k (fst p)) (queue b))%bool eqn:Eq.
  - pose proof (flush_code fuel s f b Hn R) as F. rewrite bexec_call.
    destruct (bexec fuel flush_prog s) as [s2 o2]. destruct (flush f b) as [[f1 b1] e]. destruct F as [F1 [F2 _]]. subst o2.
    destruct e as [x|]; cbn [bout_of].
    + split; [apply brep_restore; exact F2|reflexivity].
    + assert (L2 : bloc (restore_loc s2 (bloc s)) "key" = Some k) by exact Lk.
      pose proof (Read (restore_loc s2 (bloc s)) f1 b1 (brep_restore _ _ _ _ F2) L2) as Rd.
      destruct (bexec fuel (BCallRet read_prog) (restore_loc s2 (bloc s))) as [s3 o3].
      destruct (negb (has_uk b1)); [exact Rd|]. destruct (get f1 (uk b1) k); exact Rd.
  - change (bexec fuel BSkip s) with (s, BONormal). pose proof (Read s f b R Lk) as Rd.
    destruct (bexec fuel (BCallRet read_prog) s) as [s3 o3].
    destruct (negb (has_uk b)); [exact Rd|]. destruct (get f (uk b) k); exact Rd.
Qed.

(* ================= begin_read / begin_write / end_read / end_write of UkvCollectionBackend ================= *)
Transparent flush_prog.
Opaque init_prog open_prog close_prog.

Definition opened (b : backend) (h' : handle) : backend := mkb h' true (queue b) (bkeys b) (used b) (bufsize b) (ro b) (st b).

(* begin_read() / begin_write(): the first session of a backend object constructs its UKVFile (mode r / a), later ones
   reopen it; either way the handle is Model.UKV.open_ of the backend's handle (h0 before the first session) *)
Lemma begin_code fuel (m : mode) prog s f b hh1 hh2 bb0 rest :
  prog = BIf (BENot BEHasUkv)
             (BUkvNew init_prog [("path", BENone); ("mode", BEStr (mode_str m)); ("h1", BENone); ("h2", BENone); ("b0", BENone)])
             (BUkvCall open_prog [("mode", BEStr (mode_str m))]) ->
  (List.length f < fuel)%nat -> BRep s f b ->
  f = (mk_header hh1 hh2 bb0 ++ rest)%list -> List.length hh1 = 16%nat -> len hh2 < 65536 -> len bb0 < 4294967296 ->
  (has_uk b = false -> uk b = h0) ->
  (forall k, last (uk b) = Some k -> lookup (toc (uk b)) k <> None) ->
  let '(s', o) := bexec fuel prog s in
  let '(f', h') := open_ f (uk b) m in
  o = BONormal /\ BRep s' f' (opened b h').
Proof.
  intros -> Hfuel R Hf L1 L2 L0 Hh0 Hin. pose proof R as R0. destruct R as [Rf Rh Ru Rq Rk Rus Rb Rr Rs].
  cbn [bexec beval_bool]. rewrite Rh. destruct (has_uk b) eqn:Hh; cbn [negb].
  - (* the UKVFile exists: open(mode) *)
    specialize (Ru eq_refl). cbn [bexec]. rewrite ?Rh. cbn [negb bind_inner beval_val].
    set (st0 := set_local (inner s) "mode" (VStr (mode_str m))).
    destruct Ru as [A1 A2 A3 A4 A5 A6].
    assert (Lm : lookup_env (locals st0) "mode" = Some (VStr (mode_str m)) \/
                 (lookup_env (locals st0) "mode" = Some VNone /\ lookup_env (attrs st0) "mode" = Some (VStr (mode_str m))))
      by (left; unfold st0; cbn [set_local locals]; apply lookup_set_same).
    assert (Hfuel0 : (List.length (file st0) < fuel)%nat) by (change (file st0) with (file (inner s)); rewrite Rf; exact Hfuel).
    assert (Hf0 : file st0 = (mk_header hh1 hh2 bb0 ++ rest)%list) by (change (file st0) with (file (inner s)); rewrite Rf; exact Hf).
    pose proof (open_code fuel st0 (uk b) m hh1 hh2 bb0 rest Hfuel0 Hf0 L1 L2 L0 A1 A2 A3 A4 A5 A6 Hin Lm) as O.
    change (file st0) with (file (inner s)) in O. rewrite Rf in O.
    destruct (exec fuel open_prog st0) as [st1 o1]. destruct (open_ f (uk b) m) as [f' h'].
    destruct O as [O1 [O2 O3]].
    split; [destruct O2 as [O2|O2]; subst o1; reflexivity|].
    constructor; cbn [with_inner inner has_inner bq bks bused bbuf bro bsess bheld opened uk has_uk queue bkeys used bufsize ro st]; try assumption; try reflexivity.
    intros _. exact O3.
  - (* first session: UKVFile(path, mode=...) *)
    rewrite (Hh0 eq_refl). cbn [bexec bind_inner beval_val].
    set (st0 := set_local (set_local (set_local (set_local (set_local (mkst (file (inner s)) (mks 0 false true) empty_env empty_env) "path" VNone) "mode" (VStr (mode_str m))) "h1" VNone) "h2" VNone) "b0" VNone).
    assert (Hfuel0 : (List.length (file st0) < fuel)%nat) by (change (file st0) with (file (inner s)); rewrite Rf; exact Hfuel).
    assert (Hf0 : file st0 = (mk_header hh1 hh2 bb0 ++ rest)%list) by (change (file st0) with (file (inner s)); rewrite Rf; exact Hf).
    assert (Lm : lookup_env (locals st0) "mode" = Some (VStr (mode_str m))).
    { unfold st0. cbn [set_local locals]. repeat (rewrite lookup_set_other by discriminate). apply lookup_set_same. }
    assert (Lh1 : lookup_env (locals st0) "h1" = Some VNone).
    { unfold st0. cbn [set_local locals]. repeat (rewrite lookup_set_other by discriminate). apply lookup_set_same. }
    assert (Lh2 : lookup_env (locals st0) "h2" = Some VNone).
    { unfold st0. cbn [set_local locals]. repeat (rewrite lookup_set_other by discriminate). apply lookup_set_same. }
    assert (Lb0 : lookup_env (locals st0) "b0" = Some VNone) by (unfold st0; cbn [set_local locals]; apply lookup_set_same).
    pose proof (init_code fuel st0 m hh1 hh2 bb0 rest VNone VNone VNone Hfuel0 Hf0 L1 L2 L0 Lm Lh1 Lh2 Lb0) as I.
    change (file st0) with (file (inner s)) in I. rewrite Rf in I.
    destruct (exec fuel init_prog st0) as [st1 o1]. destruct (open_ f h0 m) as [f' h'].
    destruct I as [I1 [I2 I3]]. subst o1.
    split; [reflexivity|].
    constructor; cbn [inner has_inner bq bks bused bbuf bro bsess bheld opened uk has_uk queue bkeys used bufsize ro st]; try assumption; try reflexivity.
    intros _. exact I3.
Qed.

Theorem begin_read_code fuel s f b hh1 hh2 bb0 rest :
  (List.length f < fuel)%nat -> BRep s f b ->
  f = (mk_header hh1 hh2 bb0 ++ rest)%list -> List.length hh1 = 16%nat -> len hh2 < 65536 -> len bb0 < 4294967296 ->
  (has_uk b = false -> uk b = h0) -> (forall k, last (uk b) = Some k -> lookup (toc (uk b)) k <> None) ->
  let '(s', o) := bexec fuel begin_read_prog s in
  let '(f', h') := open_ f (uk b) MR in
  o = BONormal /\ BRep s' f' (opened b h').
Proof. apply (begin_code fuel MR begin_read_prog). reflexivity. Qed.

Theorem begin_write_code fuel s f b hh1 hh2 bb0 rest :
  (List.length f < fuel)%nat -> BRep s f b ->
  f = (mk_header hh1 hh2 bb0 ++ rest)%list -> List.length hh1 = 16%nat -> len hh2 < 65536 -> len bb0 < 4294967296 ->
  (has_uk b = false -> uk b = h0) -> (forall k, last (uk b) = Some k -> lookup (toc (uk b)) k <> None) ->
  let '(s', o) := bexec fuel begin_write_prog s in
  let '(f', h') := open_ f (uk b) MA in
  o = BONormal /\ BRep s' f' (opened b h').
Proof. apply (begin_code fuel MA begin_write_prog). reflexivity. Qed.

(* end_read() / end_write(): the UKVFile is closed *)
Theorem end_code fuel prog s f b :
  prog = BUkvCall close_prog [] -> BRep s f b -> has_uk b = true ->
  (lookup_env (attrs (inner s)) "mode" = Some (VStr "r") \/ lookup_env (attrs (inner s)) "mode" = Some (VStr "a")) ->
  let '(s', o) := bexec fuel prog s in
  o = BONormal /\ BRep s' f (with_uk b (close_ (uk b))).
Proof.
  intros -> R Hh M. destruct R as [Rf Rh Ru Rq Rk Rus Rb Rr Rs]. specialize (Ru Hh).
  cbn [bexec]. rewrite Rh, Hh. cbn [negb bind_inner].
  pose proof (close_code fuel (inner s) (uk b) Ru M) as C.
  destruct (exec fuel close_prog (inner s)) as [st1 o1]. destruct C as [C1 [C2 [C3 C4]]]. subst o1.
  split; [reflexivity|].
  constructor; cbn [with_inner inner has_inner bq bks bused bbuf bro bsess bheld with_uk uk has_uk queue bkeys used bufsize ro st]; try assumption.
  - rewrite C1. exact Rf.
  - intros _. exact C2.
Qed.
