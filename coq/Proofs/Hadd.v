(* C16: lemmas about Model/Hadd.v. *)
From Coq Require Import List ZArith NArith QArith Qabs Qround Bool Lia.
From Molli Require Import Common.Field3 Common.HExpr Model.Rot Gen.Valence Gen.HaddExpr Model.Hadd.
Import ListNotations.

(* ================================================================== the count *)
(* the extracted expression (tie S) denotes the specification, for ALL integer attributes and ALL rational
   bonded valences: ceil(bv) is one opaque integer on both sides, the rest is linear arithmetic with abs/max *)
Lemma hs_expr_is_spec : forall v : henv, denote v hs_expr = count_spec v.
Proof.
  intros [ve fc spin bv]. unfold hs_expr, count_spec. cbn [denote v_ve v_fc v_spin v_bv].
  generalize (Qceiling bv) (Qfloor bv). intros c f. lia.
Qed.

(* ================================================================== facts about the regenerated tables *)
Lemma row_ok_sound z g ve cov s : row_ok (z, g, ve, cov, s) = true ->
  (s = true <-> exists gz, g = Some gz /\ (13 <= gz <= 16)%Z) /\
  (s = true -> exists gz rq, g = Some gz /\ ve = Some (gz - 10)%Z /\ cov = Some rq /\ (0 < rq)%Q).
Proof.
  unfold row_ok. intros H. apply andb_true_iff in H. destruct H as [H1 H2]. apply eqb_prop in H1.
  split.
  - rewrite H1. destruct g as [gz|].
    + rewrite andb_true_iff, !Z.leb_le. split; [intros; exists gz; auto | intros [g' [E R]]; inversion E; subst; exact R].
    + split; [discriminate | intros [g' [E _]]; discriminate].
  - intros Hs. rewrite Hs in H2. destruct g as [gz|]; [|discriminate]. destruct ve as [v|]; [|discriminate].
    destruct cov as [rq|]; [|discriminate]. apply andb_true_iff in H2. destruct H2 as [E R].
    apply Z.eqb_eq in E. subst v. exists gz, rq. repeat split; auto.
    apply negb_true_iff in R. apply Qnot_le_lt. intro C. apply Qle_bool_iff in C. congruence.
Qed.

Lemma order_nonneg (b : hbond) : orders_ok = true -> (0 <= hb_fo b)%Q -> (0 <= order_of b)%Q.
Proof.
  intros Hok Hf. unfold order_of.
  destruct (find (fun r => N.eqb (fst r) (hb_bt b)) bond_orders) as [[bt [q|]]|] eqn:E.
  - apply find_some in E. destruct E as [E _]. unfold orders_ok in Hok. rewrite forallb_forall in Hok.
    specialize (Hok _ E). cbn in Hok. apply Qle_bool_iff. exact Hok.
  - exact Hf.
  - discriminate.
Qed.

(* ================================================================== the count of a selected atom *)
Lemma el_row_in z r : el_row z = Some r -> In r elements /\ fst (fst (fst (fst r))) = z.
Proof.
  unfold el_row. intros H. apply find_some in H. destruct H as [H1 H2]. apply N.eqb_eq in H2. auto.
Qed.

(* an atom of a default-selected element is a main-group atom of groups 13-16 and receives the number of
   hydrogens its hint states or, without a hint, the number the property's formula gives *)
Theorem count_is_spec bonds i a : elements_ok = true -> el_sel (ha_el a) = true ->
  exists gz, el_group (ha_el a) = Some gz /\ (13 <= gz <= 16)%Z /\
    count_of bonds i a =
      Some (match ha_hint a with
            | Some h => h
            | None => Z.max 0 (4 - Z.abs (4 - ((gz - 10) - ha_fc a - Z.abs (ha_spin a))) - Qceiling (bonded_valence bonds i))
            end).
Proof.
  intros Hok Hs. unfold el_sel, el_group, count_of, el_ve in *.
  destruct (el_row (ha_el a)) as [[[[[z g] ve] cov] s]|] eqn:E; [|discriminate].
  destruct (el_row_in _ _ E) as [Hin _]. unfold elements_ok in Hok. rewrite forallb_forall in Hok.
  destruct (row_ok_sound z g ve cov s (Hok _ Hin)) as [S1 S2]. subst s.
  destruct (S2 eq_refl) as [gz [rq [-> [-> [_ _]]]]]. destruct (proj1 S1 eq_refl) as [g' [E' R]]. injection E' as <-.
  exists gz. split; [reflexivity|]. split; [exact R|].
  destruct (ha_hint a); [reflexivity|]. rewrite hs_expr_is_spec. reflexivity.
Qed.

(* ... and conversely nothing outside groups 13-16 is selected *)
Theorem selected_iff_main_group z : elements_ok = true ->
  (el_sel z = true <-> exists gz, el_group z = Some gz /\ (13 <= gz <= 16)%Z /\ el_row z <> None).
Proof.
  intros Hok. unfold el_sel, el_group. destruct (el_row z) as [[[[[z' g] ve] cov] s]|] eqn:E.
  - destruct (el_row_in _ _ E) as [Hin _]. unfold elements_ok in Hok. rewrite forallb_forall in Hok.
    destruct (row_ok_sound z' g ve cov s (Hok _ Hin)) as [S1 _]. rewrite S1. split.
    + intros [gz [Eg R]]. exists gz. split; [exact Eg|]. split; [exact R|]. discriminate.
    + intros [gz [Eg [R _]]]. exists gz. auto.
  - split; [discriminate | intros [gz [Eg _]]; discriminate].
Qed.

(* ================================================================== structure: what one call changes *)
Local Open Scope nat_scope.
(* hydrogens actually added for a computed count k: k of them for 1..4, none otherwise *)
Definition n_added (k : Z) : nat := if ((0 <? k) && (k <=? 4))%Z then Z.to_nat k else 0%nat.
Definition added_to (t : nat) (nbs : list hbond) : nat := length (filter (fun b => Nat.eqb (hb_a1 b) t) nbs).

Lemma n_added_exact k : (0 <= k <= 4)%Z -> Z.of_nat (n_added k) = k.
Proof.
  intros H. unfold n_added. destruct ((0 <? k) && (k <=? 4))%Z eqn:B.
  - apply andb_true_iff in B. destruct B as [B _]. apply Z.ltb_lt in B. apply Z2Nat.id. lia.
  - apply andb_false_iff in B. destruct B as [B|B]; [apply Z.ltb_ge in B | apply Z.leb_gt in B]; cbn [Z.of_nat]; lia.
Qed.
Lemma set_nth_length {A} (x : A) : forall l i, length (set_nth i x l) = length l.
Proof. induction l as [|y l IH]; intros [|i]; simpl; auto. Qed.
Lemma set_nth_same {A} (x : A) : forall l i, i < length l -> nth_error (set_nth i x l) i = Some x.
Proof. induction l as [|y l IH]; intros [|i] H; simpl in *; try lia; auto. apply IH. lia. Qed.
Lemma set_nth_other {A} (x : A) : forall l i j, i <> j -> nth_error (set_nth i x l) j = nth_error l j.
Proof. induction l as [|y l IH]; intros [|i] [|j] H; simpl; auto; try lia. Qed.
Lemma set_nth_app {A} (x : A) : forall l r i, i < length l -> set_nth i x (l ++ r) = set_nth i x l ++ r.
Proof. induction l as [|y l IH]; intros r [|i] H; simpl in *; try lia; auto. f_equal. apply IH. lia. Qed.
Lemma clear_hint_idem a : clear_hint (clear_hint a) = clear_hint a.
Proof. reflexivity. Qed.
Lemma map_set_nth_clear : forall l i a, nth_error l i = Some a ->
  map clear_hint (set_nth i (clear_hint a) l) = map clear_hint l.
Proof.
  induction l as [|y l IH]; intros [|i] a H; simpl in *; try discriminate.
  - inversion H; subst. reflexivity.
  - f_equal. apply IH. exact H.
Qed.
Lemma clear_hint_h : clear_hint h_atom = h_atom.
Proof. reflexivity. Qed.
Lemma new_bond_a1 i j : hb_a1 (new_bond i j) = i. Proof. reflexivity. Qed.
Lemma new_bond_a2 i j : hb_a2 (new_bond i j) = j. Proof. reflexivity. Qed.
Lemma new_bond_order i j : order_of (new_bond i j) = 1%Q.
Proof. reflexivity. Qed.
Lemma tetrahedron_length : length tetrahedron = 4.
Proof. reflexivity. Qed.

Section Structure.
Context {F : Type} (o : Fops F).

Lemma append_hs_spec : forall ps (m : hmol F) i,
  hm_atoms (append_hs m i ps) = hm_atoms m ++ repeat h_atom (length ps) /\
  hm_bonds (append_hs m i ps) = hm_bonds m ++ map (new_bond i) (seq (length (hm_atoms m)) (length ps)) /\
  hm_xyz (append_hs m i ps) = hm_xyz m ++ ps.
Proof.
  induction ps as [|p ps IH]; intros m i.
  - simpl. rewrite !app_nil_r. auto.
  - unfold append_hs in *. cbn [fold_left]. destruct (IH (mkHM (hm_atoms m ++ [h_atom])
        (hm_bonds m ++ [new_bond i (length (hm_atoms m))]) (hm_xyz m ++ [p])) i) as [A [B C]].
    rewrite A, B, C. cbn [hm_atoms hm_bonds hm_xyz length repeat seq map].
    rewrite app_length. cbn [length]. rewrite Nat.add_1_r, <- !app_assoc. auto.
Qed.

Lemma place_length (tet : list (vec F)) a nb L k w : length tet = 4 ->
  length (place o tet a nb L k w) = n_added k.
Proof.
  intros Ht. destruct tet as [|t0 [|t1 [|t2 [|t3 [|]]]]]; try discriminate.
  unfold n_added.
  destruct (Z.eq_dec k 1) as [->|N1]; [reflexivity|].
  destruct (Z.eq_dec k 2) as [->|N2]; [reflexivity|].
  destruct (Z.eq_dec k 3) as [->|N3]; [reflexivity|].
  destruct (Z.eq_dec k 4) as [->|N4]; [reflexivity|].
  assert (E : place o [t0; t1; t2; t3] a nb L k w = []).
  { unfold place. destruct k as [|p|p]; try reflexivity.
    destruct p as [[p|p|]|[[p|p|]|[p|p|]|]|]; try reflexivity; lia. }
  rewrite E. destruct ((0 <? k) && (k <=? 4))%Z eqn:B; [|reflexivity].
  apply andb_true_iff in B. destruct B as [B1 B2]. apply Z.ltb_lt in B1. apply Z.leb_le in B2. lia.
Qed.

Lemma n_added_nonpos k : (k <= 0)%Z -> n_added k = 0.
Proof. intros H. unfold n_added. destruct (0 <? k)%Z eqn:B; [apply Z.ltb_lt in B; lia | reflexivity]. Qed.

(* one iteration of the loop *)
Lemma hadd_one_spec (m m' : hmol F) i w : hadd_one o m i w = Some m' ->
  exists a k, nth_error (hm_atoms m) i = Some a /\ count_of (hm_bonds m) i a = Some k /\
    hm_atoms m' = set_nth i (clear_hint a) (hm_atoms m) ++ repeat h_atom (n_added k) /\
    hm_bonds m' = hm_bonds m ++ map (new_bond i) (seq (length (hm_atoms m)) (n_added k)) /\
    exists ps, hm_xyz m' = hm_xyz m ++ ps /\ length ps = n_added k /\
               ps = if (0 <? k)%Z then positions o m i a k w else [].
Proof.
  unfold hadd_one. destruct (nth_error (hm_atoms m) i) as [a|] eqn:Ha; [|discriminate].
  destruct (count_of (hm_bonds m) i a) as [k|] eqn:Hk; [|discriminate].
  intros H. exists a, k. split; [reflexivity|]. split; [exact Hk|].
  destruct (0 <? k)%Z eqn:B.
  - inversion H; subst m'. clear H.
    destruct (append_hs_spec (positions o m i a k w)
               (mkHM (set_nth i (clear_hint a) (hm_atoms m)) (hm_bonds m) (hm_xyz m)) i) as [A [Bd C]].
    assert (Hl : length (positions o m i a k w) = n_added k).
    { unfold positions. apply place_length. unfold tetF. rewrite map_length. apply tetrahedron_length. }
    rewrite A, Bd, C. cbn [hm_atoms hm_bonds hm_xyz]. rewrite Hl, set_nth_length.
    split; [reflexivity|]. split; [reflexivity|]. eexists. split; [reflexivity|]. split; [exact Hl | reflexivity].
  - inversion H; subst m'. clear H. apply Z.ltb_ge in B. rewrite (n_added_nonpos k B).
    cbn [hm_atoms hm_bonds hm_xyz repeat seq map]. rewrite !app_nil_r.
    split; [reflexivity|]. split; [reflexivity|]. exists []. rewrite app_nil_r. auto.
Qed.

(* bonds appended for another atom do not touch atom t *)
Lemma incident_new_bond t i j : i <> t -> t < j -> incident t (new_bond i j) = false.
Proof.
  intros H1 H2. unfold incident. rewrite new_bond_a1, new_bond_a2.
  apply orb_false_iff. split; apply Nat.eqb_neq; lia.
Qed.
Lemma filter_incident_new t i n k : i <> t -> t < n ->
  filter (incident t) (map (new_bond i) (seq n k)) = [].
Proof.
  intros H1 H2. revert n H2. induction k as [|k IH]; intros n H2; [reflexivity|].
  cbn [seq map filter]. rewrite incident_new_bond by lia. apply IH. lia.
Qed.
Lemma bonded_valence_app_other bonds t i n k : i <> t -> t < n ->
  bonded_valence (bonds ++ map (new_bond i) (seq n k)) t = bonded_valence bonds t.
Proof. intros H1 H2. unfold bonded_valence. rewrite filter_app, filter_incident_new, app_nil_r by assumption. reflexivity. Qed.
Lemma count_of_app_other bonds t a i n k : i <> t -> t < n ->
  count_of (bonds ++ map (new_bond i) (seq n k)) t a = count_of bonds t a.
Proof. intros H1 H2. unfold count_of, atom_env. rewrite bonded_valence_app_other by assumption. reflexivity. Qed.

Lemma added_to_app t l r : added_to t (l ++ r) = added_to t l + added_to t r.
Proof. unfold added_to. rewrite filter_app, app_length. reflexivity. Qed.
Lemma added_to_new_same t n k : added_to t (map (new_bond t) (seq n k)) = k.
Proof.
  unfold added_to. revert n. induction k as [|k IH]; intros n; [reflexivity|].
  cbn [seq map filter]. rewrite new_bond_a1, Nat.eqb_refl. cbn [length]. f_equal. apply IH.
Qed.
Lemma added_to_none t nbs : Forall (fun b => hb_a1 b <> t) nbs -> added_to t nbs = 0.
Proof.
  unfold added_to. induction 1 as [|b l Hb _ IH]; [reflexivity|].
  cbn [filter]. destruct (Nat.eqb (hb_a1 b) t) eqn:E; [apply Nat.eqb_eq in E; contradiction | exact IH].
Qed.

(* ---- the whole loop.  The atom list is `A ++ (e hydrogens added so far)`; targets are positions of A. *)
Lemma hadd_inv : forall ts ws (m m' : hmol F) A e,
  hm_atoms m = A ++ repeat h_atom e ->
  (forall t, In t ts -> t < length A) -> NoDup ts ->
  hadd o m ts ws = Some m' ->
  exists A' nbs ps,
    hm_atoms m' = A' ++ repeat h_atom (e + length nbs) /\
    length A' = length A /\ map clear_hint A' = map clear_hint A /\
    (forall j, ~ In j ts -> nth_error A' j = nth_error A j) /\
    (forall j, In j ts -> nth_error A' j = option_map clear_hint (nth_error A j)) /\
    hm_bonds m' = hm_bonds m ++ nbs /\
    map hb_a2 nbs = seq (length A + e) (length nbs) /\
    Forall (fun b => In (hb_a1 b) ts /\ b = new_bond (hb_a1 b) (hb_a2 b)) nbs /\
    hm_xyz m' = hm_xyz m ++ ps /\ length ps = length nbs /\
    (forall t a, In t ts -> nth_error A t = Some a ->
       exists k, count_of (hm_bonds m) t a = Some k /\ added_to t nbs = n_added k).
Proof.
  induction ts as [|t ts IH]; intros ws m m' A e HA Hlt Hnd H.
  - cbn [hadd] in H. inversion H; subst m'. exists A, [], [].
    cbn [length]. rewrite Nat.add_0_r, !app_nil_r. repeat split; auto.
    + intros j [].
    + intros t a [].
  - cbn [hadd] in H. destruct ws as [|w ws]; [discriminate|].
    destruct (hadd_one o m t w) as [m1|] eqn:H1; [|discriminate].
    destruct (hadd_one_spec m m1 t w H1) as [a [k [Ha [Hk [At1 [Bd1 [ps1 [X1 [Lp1 _]]]]]]]]].
    assert (Ht : t < length A) by (apply Hlt; left; reflexivity).
    rewrite HA in Ha. rewrite nth_error_app1 in Ha by exact Ht.
    set (A1 := set_nth t (clear_hint a) A).
    assert (HA1 : hm_atoms m1 = A1 ++ repeat h_atom (e + n_added k)).
    { rewrite At1, HA, set_nth_app by exact Ht. rewrite <- app_assoc, <- repeat_app. reflexivity. }
    assert (LA1 : length A1 = length A) by apply set_nth_length.
    inversion Hnd as [|t' ts' Hnin Hnd']; subst.
    destruct (IH ws m1 m' A1 (e + n_added k) HA1) as [A' [nbs [ps [P1 [P2 [P3 [P4 [P5 [P6 [P7 [P8 [P9 [P10 P11]]]]]]]]]]]]].
    { intros t0 H0. rewrite LA1. apply Hlt. right. exact H0. }
    { exact Hnd'. }
    { exact H. }
    set (nb1 := map (new_bond t) (seq (length (hm_atoms m)) (n_added k))) in *.
    assert (Ln1 : length nb1 = n_added k) by (subst nb1; rewrite map_length, seq_length; reflexivity).
    assert (Lm : length (hm_atoms m) = length A + e) by (rewrite HA, app_length, repeat_length; reflexivity).
    exists A', (nb1 ++ nbs), (ps1 ++ ps).
    rewrite app_length, Ln1.
    split; [rewrite P1; f_equal; f_equal; lia|].
    split; [lia|].
    split; [rewrite P3; subst A1; apply map_set_nth_clear; exact Ha|].
    split.
    { intros j Hj. rewrite P4 by (intro; apply Hj; right; assumption).
      subst A1. apply set_nth_other. intro; subst; apply Hj; left; reflexivity. }
    split.
    { intros j [<-|Hj].
      - rewrite P4 by exact Hnin. subst A1. rewrite set_nth_same by exact Ht. rewrite Ha. reflexivity.
      - rewrite P5 by exact Hj. subst A1. rewrite set_nth_other; [reflexivity|]. intro; subst; contradiction. }
    split; [rewrite P6, Bd1, <- app_assoc; reflexivity|].
    split.
    { rewrite map_app, P7, LA1. subst nb1. rewrite map_map.
      rewrite (map_ext _ (fun j => j)) by (intros; apply new_bond_a2). rewrite map_id, Lm.
      rewrite seq_app. f_equal. f_equal. lia. }
    split.
    { apply Forall_app. split.
      - subst nb1. apply Forall_forall. intros b Hb. apply in_map_iff in Hb. destruct Hb as [j [<- _]].
        rewrite new_bond_a1, new_bond_a2. split; [left; reflexivity | reflexivity].
      - eapply Forall_impl; [|exact P8]. intros b [Hb1 Hb2]. split; [right; exact Hb1 | exact Hb2]. }
    split; [rewrite P9, X1, <- app_assoc; reflexivity|].
    split; [rewrite app_length, Lp1, P10; reflexivity|].
    intros t0 a0 [<-|H0] Ha0.
    + rewrite Ha in Ha0. inversion Ha0; subst a0. exists k. split; [exact Hk|].
      rewrite added_to_app. subst nb1. rewrite added_to_new_same.
      rewrite added_to_none; [lia|]. eapply Forall_impl; [|exact P8].
      intros b [Hb _] E. rewrite E in Hb. contradiction.
    + assert (Hne : t <> t0) by (intro; subst; contradiction).
      assert (Ha1 : nth_error A1 t0 = Some a0) by (subst A1; rewrite set_nth_other by exact Hne; exact Ha0).
      destruct (P11 t0 a0 H0 Ha1) as [k0 [Hk0 Hadd0]]. exists k0. split.
      * rewrite Bd1 in Hk0. subst nb1. rewrite count_of_app_other in Hk0; [exact Hk0 | exact Hne |].
        rewrite Lm. specialize (Hlt t0 (or_intror H0)). lia.
      * rewrite added_to_app, Hadd0. subst nb1. rewrite added_to_none; [reflexivity|].
        apply Forall_forall. intros b Hb. apply in_map_iff in Hb. destruct Hb as [j [<- _]]. rewrite new_bond_a1. exact Hne.
Qed.

End Structure.

(* ================================================================== the whole call, restated from the initial molecule *)
Section Main.
Context {F : Type} (o : Fops F).

Theorem hadd_main (m m' : hmol F) ts ws :
  (forall t, In t ts -> t < length (hm_atoms m)) -> NoDup ts ->
  hadd o m ts ws = Some m' ->
  exists A' nbs ps,
    (* atoms: the old ones (only the hints of the targets are consumed), then one plain hydrogen per new bond *)
    hm_atoms m' = A' ++ repeat h_atom (length nbs) /\
    length A' = length (hm_atoms m) /\ map clear_hint A' = map clear_hint (hm_atoms m) /\
    (forall j, ~ In j ts -> nth_error A' j = nth_error (hm_atoms m) j) /\
    (forall j, In j ts -> nth_error A' j = option_map clear_hint (nth_error (hm_atoms m) j)) /\
    (* bonds: the old ones, then bond number j joins a target to new hydrogen number j *)
    hm_bonds m' = hm_bonds m ++ nbs /\
    map hb_a2 nbs = seq (length (hm_atoms m)) (length nbs) /\
    Forall (fun b => In (hb_a1 b) ts /\ b = new_bond (hb_a1 b) (hb_a2 b)) nbs /\
    (* coordinates: the old rows, then one row per new hydrogen *)
    hm_xyz m' = hm_xyz m ++ ps /\ length ps = length nbs /\
    (* every target receives exactly the count computed on the molecule as it was before the call *)
    (forall t a, In t ts -> nth_error (hm_atoms m) t = Some a ->
       exists k, count_of (hm_bonds m) t a = Some k /\ added_to t nbs = n_added k).
Proof.
  intros Hlt Hnd H.
  destruct (hadd_inv o ts ws m m' (hm_atoms m) 0) as [A' [nbs [ps P]]]; auto.
  { cbn [repeat]. rewrite app_nil_r. reflexivity. }
  exists A', nbs, ps. cbn [Nat.add] in P. rewrite Nat.add_0_r in P. exact P.
Qed.
End Main.

(* ================================================================== a second call adds nothing *)
Lemma Qfloor_shift (x : Q) (k : Z) : Qfloor (x + inject_Z k) = (Qfloor x + k)%Z.
Proof.
  destruct x as [xn xd]. unfold Qfloor, Qplus, inject_Z. cbn [Qnum Qden].
  rewrite Pos.mul_1_r, Z.mul_1_r. apply Z_div_plus. reflexivity.
Qed.
Lemma Qceiling_shift (x : Q) (k : Z) : Qceiling (x + inject_Z k) = (Qceiling x + k)%Z.
Proof.
  unfold Qceiling.
  assert (E : (- (x + inject_Z k) == - x + inject_Z (- k))%Q).
  { unfold Qeq, Qopp, Qplus, inject_Z. destruct x as [xn xd]. cbn [Qnum Qden]. ring. }
  rewrite (Qfloor_comp _ _ E), Qfloor_shift. ring.
Qed.
Lemma Qceiling_nonneg (x : Q) : (0 <= x)%Q -> (0 <= Qceiling x)%Z.
Proof.
  intros H. pose proof (Qle_ceiling x) as C. rewrite Zle_Qle. change (inject_Z 0) with 0%Q.
  eapply Qle_trans; [exact H | exact C].
Qed.

Definition osum (l : list hbond) (x : Q) : Q := fold_left (fun s b => (s + order_of b)%Q) l x.
Lemma osum_nonneg : forall l x, (0 <= x)%Q -> (forall b, In b l -> (0 <= order_of b)%Q) -> (0 <= osum l x)%Q.
Proof.
  induction l as [|b l IH]; intros x Hx Hl; [exact Hx|]. cbn [osum fold_left]. apply IH.
  - rewrite <- (Qplus_0_r 0). apply Qplus_le_compat; [exact Hx | apply Hl; left; reflexivity].
  - intros b' Hb'. apply Hl. right. exact Hb'.
Qed.
Lemma osum_ones : forall l x, (forall b, In b l -> order_of b = 1%Q) ->
  (osum l x == x + inject_Z (Z.of_nat (length l)))%Q.
Proof.
  induction l as [|b l IH]; intros x Hl.
  - cbn [osum fold_left length Z.of_nat]. change (inject_Z 0) with 0%Q. rewrite Qplus_0_r. reflexivity.
  - cbn [osum fold_left length]. rewrite IH by (intros b' Hb'; apply Hl; right; exact Hb').
    rewrite (Hl b (or_introl eq_refl)), Nat2Z.inj_succ.
    unfold Z.succ. rewrite inject_Z_plus. ring.
Qed.
Lemma osum_app l r x : osum (l ++ r) x = osum r (osum l x).
Proof. unfold osum. apply fold_left_app. Qed.

Lemma bonded_valence_new bonds nbs t n :
  t < n ->
  Forall (fun b => b = new_bond (hb_a1 b) (hb_a2 b) /\ n <= hb_a2 b) nbs ->
  (bonded_valence (bonds ++ nbs) t == bonded_valence bonds t + inject_Z (Z.of_nat (added_to t nbs)))%Q.
Proof.
  intros Ht Hn. unfold bonded_valence. rewrite filter_app. change (fold_left _ ?l ?x) with (osum l x).
  rewrite osum_app, osum_ones.
  - assert (E : filter (incident t) nbs = filter (fun b => Nat.eqb (hb_a1 b) t) nbs).
    { apply filter_ext_in. intros b Hb. rewrite Forall_forall in Hn. destruct (Hn b Hb) as [_ H2].
      unfold incident. replace (Nat.eqb (hb_a2 b) t) with false; [apply orb_false_r|].
      symmetry. apply Nat.eqb_neq. lia. }
    rewrite E. reflexivity.
  - intros b Hb. apply filter_In in Hb. destruct Hb as [Hb _]. rewrite Forall_forall in Hn.
    destruct (Hn b Hb) as [-> _]. apply new_bond_order.
Qed.

Lemma indices_from_ext (p q : hatom -> bool) : forall l l' i,
  map clear_hint l = map clear_hint l' -> (forall a, p a = q (clear_hint a)) ->
  indices_from p i l = indices_from p i l'.
Proof.
  induction l as [|a l IH]; intros [|a' l'] i H Hp; try discriminate; [reflexivity|].
  cbn [map] in H. pose proof (f_equal (fun x => hd (clear_hint a) x) H) as H1. pose proof (f_equal (@tl _) H) as H2.
  cbn [hd tl] in H1, H2. cbn [indices_from].
  rewrite (Hp a), (Hp a'), H1. destruct (q (clear_hint a')); [f_equal|]; apply IH; assumption.
Qed.
Lemma indices_from_app_false (p : hatom -> bool) x n : p x = false -> forall l i,
  indices_from p i (l ++ repeat x n) = indices_from p i l.
Proof.
  intros Hx. induction l as [|a l IH]; intros i.
  - cbn [app]. revert i. induction n as [|n IHn]; intros i; [reflexivity|]. cbn [repeat indices_from]. rewrite Hx. apply IHn.
  - cbn [app indices_from]. destruct (p a); [f_equal|]; apply IH.
Qed.
Lemma indices_from_spec (p : hatom -> bool) : forall l i t, In t (indices_from p i l) ->
  i <= t < i + length l /\ exists a, nth_error l (t - i) = Some a /\ p a = true.
Proof.
  induction l as [|a l IH]; intros i t H; [destruct H|].
  cbn [indices_from] in H. destruct (p a) eqn:Pa.
  - destruct H as [<-|H].
    + cbn [length]. split; [lia|]. rewrite Nat.sub_diag. exists a. auto.
    + destruct (IH (S i) t H) as [R [a' [Ha' Pa']]]. cbn [length]. split; [lia|].
      replace (t - i) with (S (t - S i)) by lia. exists a'. auto.
  - destruct (IH (S i) t H) as [R [a' [Ha' Pa']]]. cbn [length]. split; [lia|].
    replace (t - i) with (S (t - S i)) by lia. exists a'. auto.
Qed.
Lemma indices_from_nodup (p : hatom -> bool) : forall l i, NoDup (indices_from p i l).
Proof.
  induction l as [|a l IH]; intros i; [constructor|]. cbn [indices_from].
  destruct (p a); [|apply IH]. constructor; [|apply IH].
  intros H. apply indices_from_spec in H. lia.
Qed.
Lemma el_sel_h : el_sel (ha_el h_atom) = false.
Proof. reflexivity. Qed.

Section Idempotence.
Context {F : Type} (o : Fops F).

Theorem hadd_idempotent (m m' : hmol F) ws :
  (forall a, In a (hm_atoms m) -> ha_hint a = None) ->
  (forall b, In b (hm_bonds m) -> (0 <= order_of b)%Q) ->
  hadd o m (default_targets (hm_atoms m)) ws = Some m' ->
  default_targets (hm_atoms m') = default_targets (hm_atoms m) /\
  forall t a', In t (default_targets (hm_atoms m')) -> nth_error (hm_atoms m') t = Some a' ->
    count_of (hm_bonds m') t a' = Some 0%Z.
Proof.
  intros Hh Ho H.
  set (A := hm_atoms m) in *. set (ts := default_targets A) in *.
  assert (Hlt : forall t, In t ts -> t < length A).
  { intros t Ht. apply indices_from_spec in Ht. lia. }
  destruct (hadd_inv o ts ws m m' A 0) as [A' [nbs [ps [P1 [P2 [P3 [P4 [P5 [P6 [P7 [P8 [P9 [P10 P11]]]]]]]]]]]]].
  { subst A. cbn [repeat]. rewrite app_nil_r. reflexivity. }
  { exact Hlt. }
  { apply indices_from_nodup. }
  { exact H. }
  assert (Ets : default_targets (hm_atoms m') = ts).
  { unfold default_targets. rewrite P1, indices_from_app_false by apply el_sel_h.
    subst ts. unfold default_targets. apply indices_from_ext with (q := fun a => el_sel (ha_el a)); [exact P3 | reflexivity]. }
  split; [exact Ets|].
  intros t a' Ht Ha'. rewrite Ets in Ht. pose proof (Hlt t Ht) as Htl.
  rewrite P1, nth_error_app1 in Ha' by lia. rewrite (P5 t Ht) in Ha'.
  destruct (nth_error A t) as [a|] eqn:Ha; [|discriminate]. cbn [option_map] in Ha'. inversion Ha'; subst a'. clear Ha'.
  destruct (P11 t a Ht Ha) as [k [Hk Hadd]].
  assert (Hhint : ha_hint a = None) by (apply Hh; subst A; eapply nth_error_In; exact Ha).
  unfold count_of in Hk |- *. cbn [clear_hint ha_hint ha_el]. rewrite Hhint in Hk.
  destruct (el_ve (ha_el a)) as [ve|]; [|discriminate].
  assert (Hk' : count_spec (atom_env (hm_bonds m) t a ve) = k) by (rewrite <- hs_expr_is_spec; congruence). clear Hk.
  f_equal. rewrite hs_expr_is_spec.
  unfold count_spec, atom_env in *. cbn [v_ve v_fc v_spin v_bv clear_hint ha_fc ha_spin] in *.
  assert (Hbv : (bonded_valence (hm_bonds m') t == bonded_valence (hm_bonds m) t + inject_Z (Z.of_nat (added_to t nbs)))%Q).
  { rewrite P6. apply bonded_valence_new with (n := length A); [exact Htl|].
    apply Forall_forall. intros b Hb. rewrite Forall_forall in P8. destruct (P8 b Hb) as [_ Hb2]. split; [exact Hb2|].
    assert (Hin : In (hb_a2 b) (map hb_a2 nbs)) by (apply in_map; exact Hb).
    rewrite P7 in Hin. apply in_seq in Hin. lia. }
  rewrite (Qceiling_comp _ _ Hbv), Qceiling_shift, Hadd.
  assert (Hc : (0 <= Qceiling (bonded_valence (hm_bonds m) t))%Z).
  { apply Qceiling_nonneg. unfold bonded_valence. change (fold_left _ ?l ?x) with (osum l x).
    apply osum_nonneg; [apply Qle_refl|]. intros b Hb. apply filter_In in Hb. apply Ho. tauto. }
  revert Hk' Hc. generalize (Qceiling (bonded_valence (hm_bonds m) t)). intros c Hk' Hc.
  unfold n_added. destruct ((0 <? k) && (k <=? 4))%Z eqn:B.
  - apply andb_true_iff in B. destruct B as [B1 B2]. apply Z.ltb_lt in B1. apply Z.leb_le in B2.
    rewrite Z2Nat.id by lia. lia.
  - apply andb_false_iff in B. destruct B as [B|B]; [apply Z.ltb_ge in B | apply Z.leb_gt in B]; cbn [Z.of_nat]; lia.
Qed.

End Idempotence.

(* ================================================================== sessions: call, edit in place, call again *)
Lemma set_nth_id {A} : forall (l : list A) i x, nth_error l i = Some x -> set_nth i x l = l.
Proof.
  induction l as [|y l IH]; intros [|i] x H; simpl in *; try discriminate.
  - inversion H. reflexivity.
  - f_equal. apply IH. exact H.
Qed.
Lemma clear_hint_none a : ha_hint a = None -> clear_hint a = a.
Proof. destruct a as [e fc sp h aty]. cbn [ha_hint clear_hint ha_el ha_fc ha_spin ha_at]. intros ->. reflexivity. Qed.

Section Sessions.
Context {F : Type} (o : Fops F).

(* the trace of a session, spelled out: the molecule before a call is the one the preceding step left (the caller's
   edit, or the result of the preceding call), and the result is `hadd` on THAT molecule -- nothing remembered
   from earlier calls or from the molecule as it was before the edits enters *)
Fixpoint chained (m : hmol F) (steps : list (sstep F)) (tr : list (hmol F * list nat * hmol F)) : Prop :=
  match steps with
  | [] => tr = []
  | SEdit m' :: r => chained m' r tr
  | SCall tg ws :: r =>
      match tr with
      | (b, ts, a) :: tr' => b = m /\ ts = targets_of tg m /\ hadd o m ts ws = Some a /\ chained a r tr'
      | [] => False
      end
  end.

Lemma run_session_chained : forall steps (m : hmol F) tr, run_session o m steps = Some tr -> chained m steps tr.
Proof.
  induction steps as [|[tg ws|m1] r IH]; intros m tr H; cbn [run_session chained] in *.
  - inversion H. reflexivity.
  - destruct (hadd o m (targets_of tg m) ws) as [m'|] eqn:E; [|discriminate].
    destruct (run_session o m' r) as [tr'|] eqn:E2; [|discriminate].
    inversion H; subst tr. repeat split; auto.
  - apply IH. exact H.
Qed.

Lemma chained_calls : forall steps (m : hmol F) tr, chained m steps tr ->
  Forall (fun c => exists ws, hadd o (fst (fst c)) (snd (fst c)) ws = Some (snd c)) tr.
Proof.
  induction steps as [|[tg ws|m1] r IH]; intros m tr H; cbn [chained] in H.
  - subst tr. constructor.
  - destruct tr as [|[[b ts] a] tr']; [contradiction|]. destruct H as [-> [-> [H1 H2]]].
    constructor; [exists ws; exact H1 | eapply IH; exact H2].
  - eapply IH. exact H.
Qed.

(* what every call of every session does, in terms of the molecule b it was called on (as the edits left it):
   only hydrogens are appended, and each target receives n_added of the count computed from b's CURRENT element,
   charge, spin, hint and bonds *)
Definition call_ok (c : hmol F * list nat * hmol F) : Prop :=
  let b := fst (fst c) in let ts := snd (fst c) in let a := snd c in
  (forall t, In t ts -> t < length (hm_atoms b)) -> NoDup ts ->
  exists A' nbs ps,
    hm_atoms a = A' ++ repeat h_atom (length nbs) /\ map clear_hint A' = map clear_hint (hm_atoms b) /\
    hm_bonds a = hm_bonds b ++ nbs /\
    Forall (fun nb => In (hb_a1 nb) ts /\ nb = new_bond (hb_a1 nb) (hb_a2 nb)) nbs /\
    hm_xyz a = hm_xyz b ++ ps /\ length ps = length nbs /\
    forall t x, In t ts -> nth_error (hm_atoms b) t = Some x ->
      exists k, count_of (hm_bonds b) t x = Some k /\ added_to t nbs = n_added k.

Theorem session_counts : forall steps (m : hmol F) tr, run_session o m steps = Some tr -> Forall call_ok tr.
Proof.
  intros steps m tr H. apply run_session_chained, chained_calls in H.
  eapply Forall_impl; [|exact H]. intros [[b ts] a] [ws Hc]. unfold call_ok. cbn [fst snd] in *.
  intros Hlt Hnd.
  destruct (hadd_main o b a ts ws Hlt Hnd Hc) as [A' [nbs [ps [P1 [P2 [P3 [P4 [P5 [P6 [P7 [P8 [P9 [P10 P11]]]]]]]]]]]]].
  exists A', nbs, ps. repeat split; assumption.
Qed.

(* ---- calling again without an edit in between *)
(* a call on targets whose count is 0 and that carry no hint returns the molecule itself *)
Lemma hadd_zero : forall ts ws (m : hmol F), length ws = length ts ->
  (forall t, In t ts -> exists a, nth_error (hm_atoms m) t = Some a /\ ha_hint a = None /\ count_of (hm_bonds m) t a = Some 0%Z) ->
  hadd o m ts ws = Some m.
Proof.
  induction ts as [|t ts IH]; intros ws m Hl Hz; [reflexivity|].
  destruct ws as [|w ws]; [discriminate|]. cbn [hadd].
  destruct (Hz t (or_introl eq_refl)) as [a [Ha [Hh Hk]]].
  assert (E : hadd_one o m t w = Some m).
  { unfold hadd_one. rewrite Ha, Hk. cbn [Z.ltb Z.compare]. rewrite (clear_hint_none a Hh), (set_nth_id _ _ _ Ha).
    destruct m; reflexivity. }
  rewrite E. apply IH; [cbn [length] in Hl; lia|]. intros t' Ht'. apply Hz. right. exact Ht'.
Qed.

Lemma hadd_hint_free (m m' : hmol F) ts ws :
  (forall t, In t ts -> t < length (hm_atoms m)) -> NoDup ts ->
  (forall a, In a (hm_atoms m) -> ha_hint a = None) ->
  hadd o m ts ws = Some m' -> forall a, In a (hm_atoms m') -> ha_hint a = None.
Proof.
  intros Hlt Hnd Hh H a Ha.
  destruct (hadd_main o m m' ts ws Hlt Hnd H) as [A' [nbs [ps [P1 [P2 [P3 [P4 [P5 _]]]]]]]].
  rewrite P1 in Ha. apply in_app_or in Ha. destruct Ha as [Ha|Ha].
  - apply In_nth_error in Ha. destruct Ha as [j Hj].
    destruct (in_dec Nat.eq_dec j ts) as [Hin|Hnin].
    + rewrite (P5 j Hin) in Hj. destruct (nth_error (hm_atoms m) j); [|discriminate]. inversion Hj. reflexivity.
    + rewrite (P4 j Hnin) in Hj. apply Hh. eapply nth_error_In. exact Hj.
  - apply repeat_spec in Ha. subst a. reflexivity.
Qed.

Lemma hadd_order_nonneg (m m' : hmol F) ts ws :
  (forall t, In t ts -> t < length (hm_atoms m)) -> NoDup ts ->
  (forall b, In b (hm_bonds m) -> (0 <= order_of b)%Q) ->
  hadd o m ts ws = Some m' -> forall b, In b (hm_bonds m') -> (0 <= order_of b)%Q.
Proof.
  intros Hlt Hnd Ho H b Hb.
  destruct (hadd_main o m m' ts ws Hlt Hnd H) as [A' [nbs [ps [_ [_ [_ [_ [_ [P6 [_ [P8 _]]]]]]]]]]].
  rewrite P6 in Hb. apply in_app_or in Hb. destruct Hb as [Hb|Hb]; [apply Ho; exact Hb|].
  rewrite Forall_forall in P8. destruct (P8 b Hb) as [_ ->]. rewrite new_bond_order. discriminate.
Qed.

Lemma default_targets_lt (A : list hatom) t : In t (default_targets A) -> t < length A.
Proof. intros Ht. apply indices_from_spec in Ht. lia. Qed.

(* hint-free molecule, no negative bond order: after a whole-molecule call, calling again (any witnesses) returns
   the very same molecule -- no atom, bond or row is appended and nothing is modified *)
Theorem hadd_again_same (m m' : hmol F) ws ws' :
  (forall a, In a (hm_atoms m) -> ha_hint a = None) ->
  (forall b, In b (hm_bonds m) -> (0 <= order_of b)%Q) ->
  hadd o m (default_targets (hm_atoms m)) ws = Some m' ->
  length ws' = length (default_targets (hm_atoms m')) ->
  hadd o m' (default_targets (hm_atoms m')) ws' = Some m'.
Proof.
  intros Hh Ho H Hl.
  destruct (hadd_idempotent o m m' ws Hh Ho H) as [_ Hz].
  apply hadd_zero; [exact Hl|]. intros t Ht.
  pose proof (default_targets_lt _ _ Ht) as Hlt.
  destruct (nth_error (hm_atoms m') t) as [a|] eqn:Ha; [|apply nth_error_None in Ha; lia].
  exists a. split; [reflexivity|]. split.
  - eapply (hadd_hint_free m m'); [apply default_targets_lt | apply indices_from_nodup | exact Hh | exact H |].
    eapply nth_error_In. exact Ha.
  - apply Hz; assumption.
Qed.

(* first a call on SOME atoms (any distinct targets), then the whole molecule, then the whole molecule again:
   the third call returns the molecule the second one left *)
Theorem subset_then_all_settles (m m1 m2 : hmol F) ts ws1 ws2 ws3 :
  (forall t, In t ts -> t < length (hm_atoms m)) -> NoDup ts ->
  (forall a, In a (hm_atoms m) -> ha_hint a = None) ->
  (forall b, In b (hm_bonds m) -> (0 <= order_of b)%Q) ->
  hadd o m ts ws1 = Some m1 ->
  hadd o m1 (default_targets (hm_atoms m1)) ws2 = Some m2 ->
  length ws3 = length (default_targets (hm_atoms m2)) ->
  hadd o m2 (default_targets (hm_atoms m2)) ws3 = Some m2.
Proof.
  intros Hlt Hnd Hh Ho H1 H2 Hl.
  apply (hadd_again_same m1 m2 ws2 ws3); auto.
  - eapply hadd_hint_free; eauto.
  - eapply hadd_order_nonneg; eauto.
Qed.

End Sessions.

(* ================================================================== geometry over R *)
From Coq Require Import Reals Nsatz Lra Psatz.
From Molli Require Import Common.Field3R Proofs.Rot.
Import ListNotations.
Local Open Scope list_scope.
Local Open Scope R_scope.

Ltac hadd_unfold := cbv [place hvec_raw zdir least_axis tet_rot fabs abs_le c_align k_cos k_sin rot_tol fofQ vofQ].

Lemma vdiv_one (x : vecR) : vdiv ROps x 1 = x.
Proof. vdestruct. f3. veq; field. Qed.

(* ---- one hydrogen: a - L v/|v| *)
Lemma place1_eq tet (a : vecR) nb L w :
  place ROps tet a nb L 1 w = [vsub ROps a (vscale ROps L (vdiv ROps (hvec_raw ROps a nb (w_nrm w)) (w_n w)))].
Proof. reflexivity. Qed.

Lemma one_h_geom (a v c : vecR) (L n : R) :
  0 < n -> n * n = norm2 ROps v -> dot ROps v c = norm2 ROps v ->
  let h := vsub ROps a (vscale ROps L (vdiv ROps v n)) in
  dist2 ROps h a = L * L /\ dot ROps (vsub ROps h a) c = - L * n.
Proof.
  intros Hn E Hc h. subst h. vdestruct. f3_in E. f3_in Hc. f3.
  assert (Hn' : n <> 0) by lra. inv_as_var Hn'. split; nsatz.
Qed.

(* ---- two hydrogens: a - L (kc u +/- ks zu), u and zu orthogonal unit vectors *)
Lemma two_h_unit (a u zu : vecR) (L kc ks : R) :
  unit u -> unit zu -> dot ROps u zu = 0 ->
  let h := vsub ROps a (vscale ROps L (vadd ROps (vscale ROps kc u) (vscale ROps ks zu))) in
  dist2 ROps h a = L * L * (kc * kc + ks * ks) /\ dot ROps (vsub ROps h a) u = - L * kc.
Proof.
  intros Hu Hz Ho. cbv zeta. unfold unit in *. vdestruct. f3_in Hu. f3_in Hz. f3_in Ho. f3. split; nsatz.
Qed.

Lemma dot_vdiv_l (x v : vecR) (n : R) : dot ROps (vdiv ROps v n) x = dot ROps v x / n.
Proof. vdestruct. f3. unfold Rdiv. ring. Qed.
Lemma dot_vscale_r (x v : vecR) (k : R) : dot ROps x (vscale ROps k v) = k * dot ROps x v.
Proof. vdestruct. f3. ring. Qed.
Lemma vscale_vdiv (v : vecR) (n : R) : n <> 0 -> vscale ROps n (vdiv ROps v n) = v.
Proof. intros H. vdestruct. f3. veq; field; exact H. Qed.

Lemma two_h_geom (a v z : vecR) (L n nz s : R) :
  0 < n -> n * n = norm2 ROps v -> 0 < nz -> nz * nz = norm2 ROps z -> dot ROps v z = 0 ->
  s = 1 \/ s = -1 ->
  let u := vdiv ROps v n in let zu := vdiv ROps z nz in
  let h := vsub ROps a (vscale ROps L (vadd ROps (vscale ROps (k_cos ROps) u) (vscale ROps (s * k_sin ROps) zu))) in
  dist2 ROps h a = L * L * (10001056 / 10000000) /\ dot ROps (vsub ROps h a) v = - L * (5736 / 10000) * n.
Proof.
  intros Hn E Hz Ez Ho Hs u zu h.
  pose proof (unit_vdiv v n Hn E) as Uu. pose proof (unit_vdiv z nz Hz Ez) as Uz.
  assert (Huz : dot ROps u zu = 0).
  { subst u zu. rewrite dot_vdiv_l, dot_vdiv_r, Ho. unfold Rdiv. ring. }
  destruct (two_h_unit a u zu L (k_cos ROps) (s * k_sin ROps) Uu Uz Huz) as [D A]. fold h in D, A.
  split.
  - rewrite D. unfold k_cos, k_sin. cbn [fdiv fofZ ROps]. destruct Hs as [-> | ->]; field.
  - assert (Hv : v = vscale ROps n u) by (subst u; rewrite vscale_vdiv; [reflexivity | lra]).
    transitivity (dot ROps (vsub ROps h a) (vscale ROps n u)); [f_equal; exact Hv|].
    rewrite dot_vscale_r, A. unfold k_cos. cbn [fdiv fofZ ROps]. field.
Qed.

(* ---- the second direction is orthogonal to the first *)
Lemma zdir_orth_two (a p1 p2 : vecR) (nrm : vecR) :
  dot ROps (hvec_raw ROps a [p1; p2] nrm) (cross ROps (vsub ROps p1 a) (vsub ROps p2 a)) = 0.
Proof. vdestruct. hadd_unfold. cbv [centroid vsum fold_right map length fnat]. f3. cbn [fofZ ROps Z.of_nat Pos.of_succ_nat Pos.succ]. field. Qed.

Lemma cross_orth_l (u x : vecR) : dot ROps u (cross ROps u x) = 0.
Proof. vdestruct. f3. ring. Qed.

(* the coordinate axis least aligned with a unit vector is never parallel to it (this is what the repaired
   code relies on; crossing with a FIXED axis gave the zero vector for a bond along that axis) *)
Lemma least_axis_cross_nonzero (u : vecR) : unit u -> 2 / 3 <= norm2 ROps (cross ROps u (least_axis ROps u)).
Proof.
  unfold unit. destruct u as [[x y] z]. intros Hu. f3_in Hu.
  unfold least_axis, fabs. cbn [fleb f0 f1 fopp ROps].
  destruct (Rleb 0 x) eqn:Ex; destruct (Rleb 0 y) eqn:Ey; destruct (Rleb 0 z) eqn:Ez;
  repeat match goal with
         | H : Rleb _ _ = true |- _ => apply Rleb_true in H
         | H : Rleb _ _ = false |- _ => apply Rleb_false in H
         end;
  match goal with |- context [if (Rleb ?p ?q && Rleb ?p ?r)%bool then _ else _] =>
    destruct (Rleb p q) eqn:E1; destruct (Rleb p r) eqn:E2; cbn [andb] end;
  try match goal with |- context [if Rleb ?p ?q then _ else _] => destruct (Rleb p q) eqn:E3 end;
  repeat match goal with
         | H : Rleb _ _ = true |- _ => apply Rleb_true in H
         | H : Rleb _ _ = false |- _ => apply Rleb_false in H
         end;
  f3; nra.
Qed.

(* ---- three / four hydrogens: rows of the tetrahedron, rotated so that row 0 points along v *)
Lemma tet_h_geom (a v ov t0 t : vecR) (L n : R) :
  0 < n -> n * n = norm2 ROps v -> norm2 ROps t0 = 1 ->
  unit ov -> dot ROps ov (vdiv ROps v n) = 0 ->
  let u := vdiv ROps v n in
  let M := rot_from_vectors ROps (rot_tol ROps) t0 1 u 1 ov in
  let h := vadd ROps (vscale ROps L (vm ROps t M)) a in
  proper M /\ vm ROps t0 M = u /\
  dist2 ROps h a = L * L * norm2 ROps t /\ dot ROps (vsub ROps h a) v = L * n * dot ROps t t0.
Proof.
  intros Hn E Ht0 Uo Hov u M h.
  pose proof (unit_vdiv v n Hn E) as Uu. fold u in Uu.
  assert (Htol : 0 <= rot_tol ROps < 1) by (unfold rot_tol; cbn [fdiv fofZ ROps]; lra).
  assert (E1 : 1 * 1 = norm2 ROps t0) by lra.
  assert (E2 : 1 * 1 = norm2 ROps u) by (unfold unit in Uu; unfold norm2; lra).
  destruct (rot_from_vectors_correct (rot_tol ROps) t0 u ov 1 1 Htol Rlt_0_1 E1 Rlt_0_1 E2 Uo Hov) as [P Mp].
  fold M in P, Mp. rewrite !vdiv_one in Mp.
  split; [exact P|]. split; [exact Mp|].
  destruct P as [Oo _].
  assert (Hha : vsub ROps h a = vscale ROps L (vm ROps t M)).
  { subst h. generalize (vm ROps t M). intros y. vdestruct. f3. veq; ring. }
  split.
  - unfold dist2. rewrite Hha.
    assert (Hs : forall k (y : vecR), norm2 ROps (vscale ROps k y) = k * k * norm2 ROps y) by (intros; vdestruct; f3; ring).
    rewrite Hs. unfold norm2. rewrite (orth_preserves_dot M t t Oo). reflexivity.
  - rewrite Hha.
    assert (Hv : v = vscale ROps n u) by (subst u; rewrite vscale_vdiv; [reflexivity | lra]).
    rewrite Hv at 1. rewrite <- Mp.
    assert (Hs : forall k j (x y : vecR), dot ROps (vscale ROps k x) (vscale ROps j y) = k * j * dot ROps x y) by (intros; vdestruct; f3; ring).
    rewrite Hs, (orth_preserves_dot M t t0 Oo). ring.
Qed.

(* ---- the centroid of the neighbours seen from the atom *)
Lemma vsum_shift (a : vecR) (nb : list vecR) :
  vsum ROps (map (fun p => vsub ROps p a) nb) = vsub ROps (vsum ROps nb) (vscale ROps (fnat ROps (length nb)) a).
Proof.
  induction nb as [|p nb IH].
  - destruct a as [[? ?] ?]. cbv [vsum fold_right map length fnat]. f3. cbn [fofZ ROps Z.of_nat]. veq; ring.
  - cbn [map length]. unfold vsum in *. cbn [fold_right]. rewrite IH.
    unfold fnat. rewrite Nat2Z.inj_succ. cbn [fofZ ROps]. rewrite succ_IZR.
    generalize (fold_right (vadd ROps) (vzero ROps) nb). intros sv.
    generalize (IZR (Z.of_nat (length nb))). intros r. vdestruct. f3. veq; ring.
Qed.
Lemma centroid_shift (a : vecR) (nb : list vecR) : nb <> [] ->
  centroid ROps (map (fun p => vsub ROps p a) nb) = vsub ROps (centroid ROps nb) a.
Proof.
  intros Hne. unfold centroid. rewrite vsum_shift, map_length.
  assert (Hl : fnat ROps (length nb) <> 0).
  { unfold fnat. cbn [fofZ ROps]. destruct nb; [contradiction|]. cbn [length]. rewrite Nat2Z.inj_succ, succ_IZR.
    pose proof (IZR_le 0 (Z.of_nat (length nb)) (Nat2Z.is_nonneg _)). lra. }
  generalize dependent (fnat ROps (length nb)). intros r Hr.
  generalize (vsum ROps nb). intros sv. vdestruct. f3. veq; field; exact Hr.
Qed.

(* hvec_raw "points towards the neighbours": v . (centroid - a) = |v|^2, in the averaging branch (1, 2, >= 4
   neighbours) and in the oriented-normal branch (3 neighbours off the atom's plane) *)
Definition avg_branch {A} (nb : list A) : Prop := nb <> [] /\ length nb <> 3%nat.

Lemma hvec_avg (a nrm : vecR) (nb : list vecR) : avg_branch nb ->
  hvec_raw ROps a nb nrm = vsub ROps (centroid ROps nb) a.
Proof.
  intros [Hne H3]. rewrite <- centroid_shift by exact Hne.
  destruct nb as [|p1 [|p2 [|p3 [|p4 r]]]]; try reflexivity; [contradiction | cbn in H3; lia].
Qed.

Lemma hvec_three (a nrm p1 p2 p3 : vecR) : unit nrm ->
  let c := vsub ROps (centroid ROps [p1; p2; p3]) a in
  abs_le ROps (dot ROps nrm c) (c_align ROps) = false ->
  let v := hvec_raw ROps a [p1; p2; p3] nrm in
  v = vscale ROps (dot ROps nrm c) nrm /\ dot ROps v c = norm2 ROps v.
Proof.
  intros Un c Hal v. subst v. unfold hvec_raw. fold c. rewrite Hal. split; [reflexivity|].
  clear Hal. revert Un. generalize c. clear c. intros c Un. unfold unit in Un.
  destruct nrm as [[n1 n2] n3]. destruct c as [[c1 c2] c3]. f3_in Un. f3. nsatz.
Qed.

(* ================================================================== the placement function, branch by branch *)
Definition towards (v c : vecR) : Prop := dot ROps v c = norm2 ROps v.

Theorem place_one (tet : list vecR) (a : vecR) (nb : list vecR) (L : R) (w : wit R) :
  let v := hvec_raw ROps a nb (w_nrm w) in
  0 < w_n w -> w_n w * w_n w = norm2 ROps v ->
  exists h, place ROps tet a nb L 1 w = [h] /\ dist2 ROps h a = L * L /\
            forall c, towards v c -> dot ROps (vsub ROps h a) c = - L * w_n w.
Proof.
  intros v Hn E. eexists. split; [apply place1_eq|]. fold v. split.
  - apply (one_h_geom a v v L (w_n w) Hn E eq_refl).
  - intros c Hc. apply (one_h_geom a v c L (w_n w) Hn E Hc).
Qed.

Lemma vsub_as_vadd (x y : vecR) (k : R) : vsub ROps x (vscale ROps k y) = vadd ROps x (vscale ROps (-1 * k) y).
Proof. vdestruct. f3. veq; ring. Qed.
Lemma vadd_one_k (x y : vecR) (k : R) : vadd ROps x (vscale ROps k y) = vadd ROps x (vscale ROps (1 * k) y).
Proof. vdestruct. f3. veq; ring. Qed.

Lemma zdir_orth (a : vecR) (nb : list vecR) (nrm : vecR) (n : R) : n <> 0 ->
  let v := hvec_raw ROps a nb nrm in
  dot ROps v (zdir ROps a nb (vdiv ROps v n)) = 0.
Proof.
  intros Hn v.
  assert (G : dot ROps v (cross ROps (vdiv ROps v n) (least_axis ROps (vdiv ROps v n))) = 0).
  { rewrite <- (vscale_vdiv v n Hn) at 1.
    assert (Hs : forall k (x y : vecR), dot ROps (vscale ROps k x) y = k * dot ROps x y) by (intros; vdestruct; f3; ring).
    rewrite Hs, cross_orth_l. ring. }
  destruct nb as [|p1 [|p2 [|p3 r]]]; try exact G.
  subst v. apply zdir_orth_two.
Qed.

Theorem place_two (tet : list vecR) (a : vecR) (nb : list vecR) (L : R) (w : wit R) :
  let v := hvec_raw ROps a nb (w_nrm w) in
  let z := zdir ROps a nb (vdiv ROps v (w_n w)) in
  0 < w_n w -> w_n w * w_n w = norm2 ROps v -> 0 < w_nz w -> w_nz w * w_nz w = norm2 ROps z ->
  exists h1 h2, place ROps tet a nb L 2 w = [h1; h2] /\
    forall h, h = h1 \/ h = h2 ->
      dist2 ROps h a = L * L * (10001056 / 10000000) /\ dot ROps (vsub ROps h a) v = - L * (5736 / 10000) * w_n w.
Proof.
  intros v z Hn E Hz Ez.
  assert (Ho : dot ROps v z = 0) by (apply zdir_orth; lra).
  do 2 eexists. split; [reflexivity|]. fold v. fold z. intros h [-> | ->].
  - rewrite (vadd_one_k _ _ (k_sin ROps)).
    apply (two_h_geom a v z L (w_n w) (w_nz w) 1 Hn E Hz Ez Ho). left; reflexivity.
  - rewrite (vsub_as_vadd _ _ (k_sin ROps)).
    apply (two_h_geom a v z L (w_n w) (w_nz w) (-1) Hn E Hz Ez Ho). right; reflexivity.
Qed.

Theorem place_tet (t0 t1 t2 t3 : vecR) (a : vecR) (nb : list vecR) (L : R) (hs : Z) (w : wit R) :
  let tet := [t0; t1; t2; t3] in
  let v := hvec_raw ROps a nb (w_nrm w) in
  (hs = 3 \/ hs = 4)%Z ->
  0 < w_n w -> w_n w * w_n w = norm2 ROps v -> norm2 ROps t0 = 1 ->
  unit (w_ov w) -> dot ROps (w_ov w) (vdiv ROps v (w_n w)) = 0 ->
  exists M, proper M /\ vm ROps t0 M = vdiv ROps v (w_n w) /\
    place ROps tet a nb L hs w = map (fun t => vadd ROps (vscale ROps L (vm ROps t M)) a) (skipn (Z.to_nat (4 - hs)) tet) /\
    forall t, In t tet ->
      let h := vadd ROps (vscale ROps L (vm ROps t M)) a in
      dist2 ROps h a = L * L * norm2 ROps t /\ dot ROps (vsub ROps h a) v = L * w_n w * dot ROps t t0.
Proof.
  intros tet v Hhs Hn E Ht0 Uo Hov.
  exists (rot_from_vectors ROps (rot_tol ROps) t0 1 (vdiv ROps v (w_n w)) 1 (w_ov w)).
  pose proof (fun t => tet_h_geom a v (w_ov w) t0 t L (w_n w) Hn E Ht0 Uo Hov) as G. cbv zeta in G.
  split; [apply (G t0)|]. split; [apply (G t0)|]. split.
  - destruct Hhs as [-> | ->]; reflexivity.
  - intros t _. split; apply (G t).
Qed.

(* ---- witnesses exist exactly when the geometry is not degenerate: nothing is divided by zero *)
Lemma norm2_nonneg (v : vecR) : 0 <= norm2 ROps v.
Proof. vdestruct. f3. nra. Qed.
Lemma witness_exists (v : vecR) : 0 < norm2 ROps v -> exists n, 0 < n /\ n * n = norm2 ROps v.
Proof.
  intros H. exists (sqrt (norm2 ROps v)). split; [apply sqrt_lt_R0; exact H | apply sqrt_sqrt; lra].
Qed.

Lemma sq3_zero (x y z : R) : 0 = x * x + y * y + z * z -> x = 0 /\ y = 0 /\ z = 0.
Proof.
  intros H. pose proof (Rle_0_sqr x). pose proof (Rle_0_sqr y). pose proof (Rle_0_sqr z). unfold Rsqr in *.
  assert (x * x = 0) by lra. assert (y * y = 0) by lra. assert (z * z = 0) by lra.
  repeat split; apply Rsqr_0_uniq; unfold Rsqr; assumption.
Qed.
Lemma norm2_zero_sub (c a : vecR) : 0 = norm2 ROps (vsub ROps c a) -> c = a.
Proof. vdestruct. intros G. f3_in G. apply sq3_zero in G. destruct G as [G1 [G2 G3]]. veq; lra. Qed.
Lemma norm2_zero (c : vecR) : 0 = norm2 ROps c -> c = vzero ROps.
Proof. vdestruct. intros G. f3_in G. apply sq3_zero in G. destruct G as [G1 [G2 G3]]. f3. veq; lra. Qed.

Lemma hvec_nonzero (a nrm : vecR) (nb : list vecR) : unit nrm ->
  (avg_branch nb -> centroid ROps nb <> a) ->
  0 < norm2 ROps (hvec_raw ROps a nb nrm).
Proof.
  intros Un Hc.
  destruct nb as [|p1 [|p2 [|p3 [|p4 r]]]].
  - hadd_unfold. f3. lra.
  - rewrite hvec_avg by (split; [discriminate | cbn; lia]).
    assert (Hne : centroid ROps [p1] <> a) by (apply Hc; split; [discriminate | cbn; lia]).
    revert Hne. generalize (centroid ROps [p1]). intros c Hne.
    destruct (Rle_lt_or_eq_dec 0 _ (norm2_nonneg (vsub ROps c a))) as [G|G]; [exact G|].
    exfalso. apply Hne. apply norm2_zero_sub. exact G.
  - rewrite hvec_avg by (split; [discriminate | cbn; lia]).
    assert (Hne : centroid ROps [p1; p2] <> a) by (apply Hc; split; [discriminate | cbn; lia]).
    revert Hne. generalize (centroid ROps [p1; p2]). intros c Hne.
    destruct (Rle_lt_or_eq_dec 0 _ (norm2_nonneg (vsub ROps c a))) as [G|G]; [exact G|].
    exfalso. apply Hne. apply norm2_zero_sub. exact G.
  - unfold hvec_raw. set (al := dot ROps nrm (vsub ROps (centroid ROps [p1; p2; p3]) a)).
    destruct (abs_le ROps al (c_align ROps)) eqn:Hal.
    + unfold unit in Un. unfold norm2. lra.
    + assert (Hs : norm2 ROps (vscale ROps al nrm) = al * al * dot ROps nrm nrm) by (clearbody al; vdestruct; f3; ring).
      rewrite Hs. unfold unit in Un. rewrite Un.
      unfold abs_le, c_align in Hal. cbn [fleb fopp fdiv fofZ ROps] in Hal.
      apply andb_false_iff in Hal. destruct Hal as [Hal|Hal]; apply Rleb_false in Hal; nra.
  - rewrite hvec_avg by (split; [discriminate | cbn; lia]).
    assert (Hne : centroid ROps (p1 :: p2 :: p3 :: p4 :: r) <> a) by (apply Hc; split; [discriminate | cbn; lia]).
    revert Hne. generalize (centroid ROps (p1 :: p2 :: p3 :: p4 :: r)). intros c Hne.
    destruct (Rle_lt_or_eq_dec 0 _ (norm2_nonneg (vsub ROps c a))) as [G|G]; [exact G|].
    exfalso. apply Hne. apply norm2_zero_sub. exact G.
Qed.

Lemma zdir_nonzero (a : vecR) (nb : list vecR) (u : vecR) : unit u ->
  (forall p1 p2, nb = [p1; p2] -> cross ROps (vsub ROps p1 a) (vsub ROps p2 a) <> vzero ROps) ->
  0 < norm2 ROps (zdir ROps a nb u).
Proof.
  intros Uu H2.
  assert (G : 0 < norm2 ROps (cross ROps u (least_axis ROps u))) by (pose proof (least_axis_cross_nonzero u Uu); lra).
  destruct nb as [|p1 [|p2 [|p3 r]]]; try exact G.
  specialize (H2 p1 p2 eq_refl). unfold zdir. revert H2. generalize (cross ROps (vsub ROps p1 a) (vsub ROps p2 a)). intros c Hne.
  destruct (Rle_lt_or_eq_dec 0 _ (norm2_nonneg c)) as [K|K]; [exact K|].
  exfalso. apply Hne. apply norm2_zero. exact K.
Qed.

(* ================================================================== from the rational table to the reals *)
From Coq Require Import Qreals.
Local Open Scope R_scope.

Lemma fofQ_R (q : Q) : fofQ ROps q = Q2R q.
Proof. unfold fofQ, Q2R. cbn [fdiv fofZ ROps]. reflexivity. Qed.
Definition vQ2R (v : vecQ) : vecR := vofQ ROps v.
Lemma dot_vQ2R (a b : vecQ) : dot ROps (vQ2R a) (vQ2R b) = Q2R (dotQ a b).
Proof.
  destruct a as [[a1 a2] a3]. destruct b as [[b1 b2] b3]. unfold vQ2R, vofQ, dotQ. rewrite !fofQ_R.
  f3. rewrite !Q2R_plus, !Q2R_mult. reflexivity.
Qed.
Lemma Qle_bool_R (x y : Q) : Qle_bool x y = true -> Q2R x <= Q2R y.
Proof. intros H. apply Qle_Rle. apply Qle_bool_iff. exact H. Qed.

(* rows of a table accepted by tet_ok, seen as real vectors *)
Lemma tet_ok_R (t0 t1 t2 t3 : vecQ) : tet_ok [t0; t1; t2; t3] = true ->
  norm2 ROps (vQ2R t0) = 1 /\
  forall t, In t [t1; t2; t3] ->
    1 - 1 / 100000000 <= norm2 ROps (vQ2R t) <= 1 + 1 / 100000000 /\
    - (34 / 100) <= dot ROps (vQ2R t) (vQ2R t0) <= - (33 / 100).
Proof.
  unfold tet_ok. rewrite andb_true_iff, forallb_forall. intros [H0 Hr]. split.
  - unfold norm2. rewrite dot_vQ2R. apply Qeq_bool_iff, Qeq_eqR in H0. rewrite H0. unfold Q2R. simpl. lra.
  - intros t Ht. specialize (Hr t Ht). rewrite !andb_true_iff in Hr. destruct Hr as [[[A B] C] D].
    apply Qle_bool_R in A, B, C, D. unfold norm2. rewrite !dot_vQ2R.
    assert (L1 : Q2R 1 = 1) by (unfold Q2R; simpl; lra).
    assert (L2 : Q2R tet_tol = 1 / 100000000) by (unfold Q2R, tet_tol; simpl; lra).
    assert (L3 : Q2R (34 # 100) = 34 / 100) by (unfold Q2R; simpl; lra).
    assert (L4 : Q2R (33 # 100) = 33 / 100) by (unfold Q2R; simpl; lra).
    rewrite Q2R_minus, L1, L2 in A. rewrite Q2R_plus, L1, L2 in B. rewrite Q2R_opp, L3 in C. rewrite Q2R_opp, L4 in D.
    repeat split; lra.
Qed.

(* the distance in the two-hydrogen branch, against the sum of covalent radii L *)
Lemma two_h_distance_tolerance (d2 L : R) : 0 < L -> d2 = L * L * (10001056 / 10000000) ->
  L * L < d2 /\ d2 < (L * (1 + 6 / 100000)) * (L * (1 + 6 / 100000)).
Proof. intros HL ->. split; nra. Qed.

(* ================================================================== three / four hydrogens on the tabulated tetrahedron *)
Lemma tetF_R : tetF ROps = map vQ2R tetrahedron.
Proof. reflexivity. Qed.

Theorem place_tet_table (a : vecR) (nb : list vecR) (L : R) (hs : Z) (w : wit R) :
  tet_ok tetrahedron = true ->
  let v := hvec_raw ROps a nb (w_nrm w) in
  (hs = 3 \/ hs = 4)%Z -> 0 <= L ->
  0 < w_n w -> w_n w * w_n w = norm2 ROps v ->
  unit (w_ov w) -> dot ROps (w_ov w) (vdiv ROps v (w_n w)) = 0 ->
  length (place ROps (tetF ROps) a nb L hs w) = Z.to_nat hs /\
  Forall (fun h => L * L * (1 - 1 / 100000000) <= dist2 ROps h a <= L * L * (1 + 1 / 100000000))
         (place ROps (tetF ROps) a nb L hs w) /\
  (hs = 3%Z -> Forall (fun h => dot ROps (vsub ROps h a) v <= - (33 / 100) * L * w_n w)
                      (place ROps (tetF ROps) a nb L hs w)).
Proof.
  intros Hok v Hhs HL Hn E Uo Hov. rewrite tetF_R.
  destruct tetrahedron as [|t0 [|t1 [|t2 [|t3 [|t4 r]]]]] eqn:Et; try discriminate.
  destruct (tet_ok_R t0 t1 t2 t3 Hok) as [N0 Nr]. cbn [map].
  destruct (place_tet (vQ2R t0) (vQ2R t1) (vQ2R t2) (vQ2R t3) a nb L hs w Hhs Hn E N0 Uo Hov) as [M [PM [M0 [Pl G]]]].
  fold v in G. rewrite Pl.
  assert (B : forall t, In t [t1; t2; t3] ->
            let h := vadd ROps (vscale ROps L (vm ROps (vQ2R t) M)) a in
            L * L * (1 - 1 / 100000000) <= dist2 ROps h a <= L * L * (1 + 1 / 100000000) /\
            dot ROps (vsub ROps h a) v <= - (33 / 100) * L * w_n w).
  { intros t Ht h. destruct (Nr t Ht) as [[R1 R2] [R3 R4]].
    destruct (G (vQ2R t)) as [D A].
    { cbn [In] in Ht |- *. destruct Ht as [<-|[<-|[<-|[]]]]; auto. }
    fold h in D, A. rewrite D, A.
    assert (HLL : 0 <= L * L) by nra. assert (HLn : 0 <= L * w_n w) by nra.
    unfold norm2 in R1, R2. set (q := dot ROps (vQ2R t) (vQ2R t)) in *. set (d := dot ROps (vQ2R t) (vQ2R t0)) in *.
    unfold norm2. fold q. split; [split; nra | nra]. }
  assert (B0 : let h := vadd ROps (vscale ROps L (vm ROps (vQ2R t0) M)) a in
               L * L * (1 - 1 / 100000000) <= dist2 ROps h a <= L * L * (1 + 1 / 100000000)).
  { intros h. destruct (G (vQ2R t0)) as [D _]; [left; reflexivity|]. fold h in D. rewrite D, N0. assert (HLL : 0 <= L * L) by nra. split; nra. }
  destruct (B t1 (or_introl eq_refl)) as [B1a B1b].
  destruct (B t2 (or_intror (or_introl eq_refl))) as [B2a B2b].
  destruct (B t3 (or_intror (or_intror (or_introl eq_refl)))) as [B3a B3b].
  cbv zeta in B0.
  destruct Hhs as [-> | ->]; cbn [Z.sub Z.to_nat Z.opp Z.add Z.pos_sub Pos.to_nat Pos.iter_op Nat.add skipn map length].
  - split; [reflexivity|]. split.
    + constructor; [exact B1a|]. constructor; [exact B2a|]. constructor; [exact B3a|]. constructor.
    + intros _. constructor; [exact B1b|]. constructor; [exact B2b|]. constructor; [exact B3b|]. constructor.
  - split; [reflexivity|]. split.
    + constructor; [exact B0|]. constructor; [exact B1a|]. constructor; [exact B2a|]. constructor; [exact B3a|]. constructor.
    + intros C. discriminate.
Qed.

(* ================================================================== "pointing away from the centroid of the existing neighbours" *)
(* averaging branch (1, 2 or >= 4 neighbours): 1, 2 or 3 hydrogens all have a negative dot product with the
   direction from the atom to the centroid of its neighbours *)
Theorem placement_away_avg (a : vecR) (nb : list vecR) (L : R) (k : Z) (w : wit R) :
  tet_ok tetrahedron = true -> avg_branch nb -> 0 < L -> (k = 1 \/ k = 2 \/ k = 3)%Z ->
  let c := vsub ROps (centroid ROps nb) a in
  0 < w_n w -> w_n w * w_n w = norm2 ROps c ->
  (k = 2%Z -> 0 < w_nz w /\ w_nz w * w_nz w = norm2 ROps (zdir ROps a nb (vdiv ROps c (w_n w)))) ->
  (k = 3%Z -> unit (w_ov w) /\ dot ROps (w_ov w) (vdiv ROps c (w_n w)) = 0) ->
  Forall (fun h => dot ROps (vsub ROps h a) c < 0) (place ROps (tetF ROps) a nb L k w).
Proof.
  intros Hok Hb HL Hk c Hn E H2 H3.
  assert (Hv : hvec_raw ROps a nb (w_nrm w) = c) by (apply hvec_avg; exact Hb).
  assert (HLn : 0 < L * w_n w) by nra.
  destruct Hk as [-> | [-> | ->]].
  - destruct (place_one (tetF ROps) a nb L w) as [h [P [_ A]]]; [exact Hn | rewrite Hv; exact E |].
    rewrite P. constructor; [|constructor]. rewrite Hv in A. rewrite (A c eq_refl). nra.
  - destruct (H2 eq_refl) as [Hz Ez].
    destruct (place_two (tetF ROps) a nb L w) as [h1 [h2 [P G]]];
      [exact Hn | rewrite Hv; exact E | exact Hz | rewrite Hv; exact Ez |].
    rewrite P. rewrite Hv in G.
    constructor; [|constructor; [|constructor]].
    + destruct (G h1 (or_introl eq_refl)) as [_ A]. rewrite A. nra.
    + destruct (G h2 (or_intror eq_refl)) as [_ A]. rewrite A. nra.
  - destruct (H3 eq_refl) as [Uo Hov].
    destruct (place_tet_table a nb L 3 w Hok) as [_ [_ A]]; auto; try lra; try (rewrite Hv; assumption).
    specialize (A eq_refl). rewrite Hv in A. eapply Forall_impl; [|exact A]. intros h Hh. cbv beta in Hh. nra.
Qed.

(* three neighbours, the atom off their plane (|align| > 0.05): one hydrogen, opposite to the centroid *)
Theorem placement_away_three (a p1 p2 p3 : vecR) (L : R) (w : wit R) :
  0 < L -> unit (w_nrm w) ->
  let c := vsub ROps (centroid ROps [p1; p2; p3]) a in
  abs_le ROps (dot ROps (w_nrm w) c) (c_align ROps) = false ->
  let v := hvec_raw ROps a [p1; p2; p3] (w_nrm w) in
  0 < w_n w -> w_n w * w_n w = norm2 ROps v ->
  forall tet, exists h, place ROps tet a [p1; p2; p3] L 1 w = [h] /\ dist2 ROps h a = L * L /\ dot ROps (vsub ROps h a) c < 0.
Proof.
  intros HL Un c Hal v Hn E tet.
  destruct (hvec_three a (w_nrm w) p1 p2 p3 Un Hal) as [_ T]. fold c in T. fold v in T.
  destruct (place_one tet a [p1; p2; p3] L w Hn E) as [h [P [D A]]].
  exists h. split; [exact P|]. split; [exact D|]. fold v in A. rewrite (A c T). nra.
Qed.

(* ================================================================== "only adds" on C05's model of the same routine *)
(* Model/MolEdit.v (C05) models add_implicit_hydrogens structurally, with the number and the coordinate rows of
   the hydrogens as arguments of the operation AddHs.  Its theorems (Inv preserved, every old atom keeps its row
   and charge) are REUSED in Props/C16.v; what they do not say -- the old atom, bond, coordinate and charge lists
   are PREFIXES of the new ones, the new atoms are hydrogens, every new bond joins a target to a new hydrogen --
   is proved here about the same definitions. *)
From Molli Require Model.MolEdit Proofs.MolEdit.
Module C05link.
Import Molli.Model.MolEdit Molli.Proofs.MolEdit.
Local Open Scope nat_scope.
Local Open Scope list_scope.

Definition OnlyAdds (targets : list positive) (s s' : st) : Prop :=
  exists na nb nc nq,
    MolEdit.atoms s' = MolEdit.atoms s ++ na /\ MolEdit.bonds s' = MolEdit.bonds s ++ nb /\
    coords s' = coords s ++ nc /\ charges s' = charges s ++ nq /\ has_q s' = has_q s /\
    (next_a s <= next_a s')%positive /\
    Forall (fun a => a_el a = el_H /\ (next_a s <= a_id a)%positive) na /\
    Forall (fun b => In (b_a1 b) targets /\ In (b_a2 b) (map a_id na)) nb /\
    length nc = length na /\ length nb <= length na /\ Forall (fun q => q = CNum 0) nq.

Lemma OnlyAdds_refl T s : OnlyAdds T s s.
Proof.
  exists [], [], [], []. rewrite !app_nil_r. repeat split; auto. apply Pos.le_refl.
Qed.

Lemma OnlyAdds_trans T s1 s2 s3 : OnlyAdds T s1 s2 -> OnlyAdds T s2 s3 -> OnlyAdds T s1 s3.
Proof.
  intros [na [nb [nc [nq [A1 [A2 [A3 [A4 [A5 [A6 [A7 [A8 [A9 [A10 A11]]]]]]]]]]]]]]
         [na' [nb' [nc' [nq' [B1 [B2 [B3 [B4 [B5 [B6 [B7 [B8 [B9 [B10 B11]]]]]]]]]]]]]].
  exists (na ++ na'), (nb ++ nb'), (nc ++ nc'), (nq ++ nq').
  rewrite B1, B2, B3, B4, A1, A2, A3, A4, <- !app_assoc, !app_length.
  repeat split; auto.
  - congruence.
  - eapply Pos.le_trans; eauto.
  - apply Forall_app. split; [exact A7|]. eapply Forall_impl; [|exact B7].
    intros a [E1 E2]. split; [exact E1 | eapply Pos.le_trans; eauto].
  - apply Forall_app. split; (eapply Forall_impl; [|eassumption]); intros b [E1 E2]; (split; [exact E1|]);
      rewrite map_app; apply in_or_app; [left|right]; exact E2.
  - apply Nat.add_le_mono; assumption.
  - apply Forall_app. split; assumption.
Qed.

(* one hydrogen: add_atom(H, c) then append_bond(Bond(x, h)) *)
Lemma one_h_only_adds T s x c r : In x T ->
  r = bind (add_atom s el_H None (Some c) None) (fun s'' => conn_append_bond s'' x (next_a s)) ->
  forall s', (r = Ok s' \/ r = Err s') -> OnlyAdds T s s'.
Proof.
  intros Hx -> s' H. rewrite add_atom_spec in H. cbn [bind] in H.
  unfold conn_append_bond in H.
  destruct (is_member (added s el_H None c 0) x && is_member (added s el_H None c 0) (next_a s))%bool;
    [|destruct H; discriminate].
  destruct H as [H|H]; [|discriminate]. inversion H; subst s'. clear H.
  unfold added. cbn [MolEdit.atoms MolEdit.bonds coords charges has_q next_a next_b].
  exists [mkAtom (next_a s) el_H None OThis], [mkBond (next_b s) x (next_a s) OThis], [c],
         (if has_q s then [CNum 0] else []).
  cbn [MolEdit.atoms MolEdit.bonds coords charges has_q next_a next_b].
  repeat split; auto.
  - destruct (has_q s); [reflexivity | rewrite app_nil_r; reflexivity].
  - lia.
  - constructor; [|constructor]. cbn. split; [reflexivity | apply Pos.le_refl].
  - constructor; [|constructor]. cbn. split; [exact Hx | left; reflexivity].
  - destruct (has_q s); repeat constructor.
Qed.

Lemma fold_only_adds {X} T (G : st -> X -> res) :
  (forall s x s', (G s x = Ok s' \/ G s x = Err s') -> OnlyAdds T s s') ->
  forall l s s', (fold_left (fun r x => bind r (fun s0 => G s0 x)) l (Ok s) = Ok s' \/
                  fold_left (fun r x => bind r (fun s0 => G s0 x)) l (Ok s) = Err s') -> OnlyAdds T s s'.
Proof.
  intros HG. induction l as [|x l IH]; intros s s' H.
  - cbn in H. destruct H as [H|H]; [inversion H; subst; apply OnlyAdds_refl | discriminate].
  - cbn [fold_left bind] in H. destruct (G s x) as [s1|s1| |] eqn:E.
    + eapply OnlyAdds_trans; [apply (HG s x s1); left; exact E | apply IH; exact H].
    + rewrite fold_bind_stuck in H by (intros; discriminate).
      destruct H as [H|H]; [discriminate|]. inversion H; subst. apply (HG s x s'). right. exact E.
    + rewrite fold_bind_stuck in H by (intros; discriminate). destruct H; discriminate.
    + rewrite fold_bind_stuck in H by (intros; discriminate). destruct H; discriminate.
Qed.

Lemma add_hs_one_only_adds T s x cs s' : In x T ->
  (add_hs_one s x cs = Ok s' \/ add_hs_one s x cs = Err s') -> OnlyAdds T s s'.
Proof.
  intros Hx H. unfold add_hs_one in H. destruct (is_member s x).
  - revert H. apply (fold_only_adds T (fun s0 c => bind (add_atom s0 el_H None (Some c) None)
                                                       (fun s'' => conn_append_bond s'' x (next_a s0)))).
    intros s0 c s1 H1. eapply one_h_only_adds; [exact Hx | reflexivity | exact H1].
  - destruct H as [H|H]; [discriminate|]. inversion H; subst. apply OnlyAdds_refl.
Qed.

Theorem add_hs_only_adds s l s' :
  (step s (AddHs l) = Ok s' \/ step s (AddHs l) = Err s') -> OnlyAdds (map fst l) s s'.
Proof.
  cbn [step]. unfold add_hs. intros H.
  assert (G : forall l0, (forall p, In p l0 -> In (fst p) (map fst l)) ->
            forall s0 s1, (fold_left (fun r p => bind r (fun s2 => add_hs_one s2 (fst p) (snd p))) l0 (Ok s0) = Ok s1 \/
                           fold_left (fun r p => bind r (fun s2 => add_hs_one s2 (fst p) (snd p))) l0 (Ok s0) = Err s1) ->
            OnlyAdds (map fst l) s0 s1).
  { induction l0 as [|p l0 IH]; intros Hin s0 s1 H0.
    - cbn in H0. destruct H0 as [H0|H0]; [inversion H0; subst; apply OnlyAdds_refl | discriminate].
    - cbn [fold_left bind] in H0. destruct (add_hs_one s0 (fst p) (snd p)) as [s2|s2| |] eqn:E.
      + eapply OnlyAdds_trans.
        * eapply add_hs_one_only_adds; [apply Hin; left; reflexivity | left; exact E].
        * apply IH; [intros q Hq; apply Hin; right; exact Hq | exact H0].
      + rewrite fold_bind_stuck in H0 by (intros; discriminate).
        destruct H0 as [H0|H0]; [discriminate|]. inversion H0; subst.
        eapply add_hs_one_only_adds; [apply Hin; left; reflexivity | right; exact E].
      + rewrite fold_bind_stuck in H0 by (intros; discriminate). destruct H0; discriminate.
      + rewrite fold_bind_stuck in H0 by (intros; discriminate). destruct H0; discriminate. }
  apply (G l); [|exact H]. intros p Hp. apply in_map. exact Hp.
Qed.

(* C05's own theorems, instantiated at AddHs: the invariant survives, every old atom keeps its row and charge *)
Theorem add_hs_c05_frame s l s' : Inv s ->
  (step s (AddHs l) = Ok s' \/ step s (AddHs l) = Err s') ->
  Inv s' /\
  (forall y, In y (ids s) -> In y (ids s') -> row_of s' y = row_of s y) /\
  (forall y, In y (ids s') -> In y (ids s) \/ (next_a s <= y)%positive).
Proof.
  intros HI H. split; [exact (inv_step s (AddHs l) s' HI H) | exact (keeps_step s (AddHs l) s' HI H)].
Qed.
End C05link.
