(* C16: lemmas about Model/Hadd.v. *)
From Coq Require Import List ZArith NArith QArith Qabs Qround Bool Lia.
From Molli Require Import Common.Field3 Common.HExpr Model.Rot Gen.Valence Gen.HaddExpr Model.Hadd.
Import ListNotations.

(* ================================================================== the count *)
(* the extracted expression (tie S) denotes the specification, for ALL integer attributes and ALL rational
   bonded valences: ceil(bv) is one opaque integer on both sides, the rest is linear arithmetic with abs/max *)
Lemma hs_expr_is_spec : forall v : henv, denote v hs_expr = count_spec v.
Proof.
  intros [ve fc spin bv]. unfold hs_expr, count_spec. cbn [denote v_ve v_fc v_spin v_bv].
  generalize (Qceiling bv) (Qfloor bv). intros c f. lia.
Qed.
