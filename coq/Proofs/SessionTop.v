(* C04 top level: every schedule of every number of processes refines the insert-only map (serialisability),
   mutual exclusion, and the lock can always be taken again once released. *)
From Coq Require Import NArith Arith PeanoNat List Bool Lia String.
Import ListNotations.
From Molli Require Import Common.Exc Model.UKV Proofs.UKVBase Proofs.UKV Model.Session Proofs.Session.
Local Notation length := List.length.

(* what a schedule's outcomes must be, in terms of the abstract map only *)
Fixpoint lrun_spec (rs : list kv) (s : lworld) (ls : list label) (outs : list outcome) (rs_final : list kv) : Prop :=
  match ls, outs with
  | [], [] => rs_final = rs
  | l :: ls', o :: outs' =>
      match lstep s l with
      | Some (s', r) =>
          o = Done r /\
          match label_op s l with
          | Some op => exists rs1, step_spec rs (hnth (snd (lw s)) (op_handle op)) op r rs1 /\
                                   lrun_spec rs1 s' ls' outs' rs_final
          | None => lrun_spec rs s' ls' outs' rs_final
          end
      | None => o = Refused /\ lrun_spec rs s ls' outs' rs_final
      end
  | _, _ => False
  end.

Theorem lrun_refines H : forall ls s rs,
  J s -> Inv H rs (lw s) ->
  exists rs', J (snd (lrun s ls)) /\ Inv H rs' (lw (snd (lrun s ls))) /\ lrun_spec rs s ls (fst (lrun s ls)) rs'.
Proof.
  induction ls as [|l ls IH]; intros s rs Js I.
  - exists rs. simpl. split; [exact Js|split; [exact I|reflexivity]].
  - simpl. destruct (lstep s l) as [[s' r]|] eqn:E.
    + destruct (lstep_sound s l s' r Js E) as [Js' Hop].
      destruct (label_op s l) as [op|] eqn:Eop.
      * destruct Hop as [Hok Hst].
        destruct (step_refines H rs (lw s) op I Hok) as [rs1 [I1 [S1 _]]]. rewrite Hst in I1, S1. simpl in I1, S1.
        destruct (IH s' rs1 Js' I1) as [rs2 [J2 [I2 R2]]].
        destruct (lrun s' ls) as [os sf] eqn:Er. simpl in *.
        exists rs2. split; [exact J2|split; [exact I2|]]. rewrite ?E. split; [reflexivity|]. rewrite ?Eop.
        exists rs1. split; assumption.
      * rewrite <- Hop in I. destruct (IH s' rs Js' I) as [rs2 [J2 [I2 R2]]].
        destruct (lrun s' ls) as [os sf] eqn:Er. simpl in *.
        exists rs2. split; [exact J2|split; [exact I2|]]. rewrite ?E. split; [reflexivity|]. rewrite ?Eop. exact R2.
    + destruct (IH s rs Js I) as [rs2 [J2 [I2 R2]]].
      destruct (lrun s ls) as [os sf] eqn:Er. simpl in *.
      exists rs2. split; [exact J2|split; [exact I2|]]. rewrite ?E. split; [reflexivity|exact R2].
Qed.

(* initial state: n never-opened handles with any ownership map, m processes holding nothing *)
Lemma J_init f n m ow : J (mkl (f, repeat h0 n) (repeat p0 m) ow).
Proof.
  assert (Hp : forall q, pnth (repeat p0 m) q = p0).
  { intros q. unfold pnth. destruct (Nat.lt_ge_cases q m) as [L|L]; [apply nth_repeat|].
    apply nth_overflow. rewrite repeat_length. exact L. }
  constructor; simpl.
  - intros p q _ Hw. rewrite Hp in Hw. discriminate.
  - intros i Hc. unfold hnth in Hc. exfalso.
    destruct (Nat.lt_ge_cases i n) as [L|L]; [rewrite nth_repeat in Hc|rewrite nth_overflow in Hc by (rewrite repeat_length; exact L)];
    discriminate.
  - intros p i Hc. rewrite Hp in Hc. discriminate.
Qed.

(* mutual exclusion in every reachable state *)
Theorem mutex_reachable ls s : J s ->
  forall p q, p <> q -> plock (pnth (procs (snd (lrun s ls))) p) = LWrite ->
              plock (pnth (procs (snd (lrun s ls))) q) = LFree.
Proof.
  revert s. induction ls as [|l ls IH]; intros s Js; [apply (j_mutex s Js)|].
  simpl. destruct (lstep s l) as [[s' r]|] eqn:E.
  - destruct (lstep_sound s l s' r Js E) as [Js' _]. specialize (IH s' Js').
    destruct (lrun s' ls) as [os sf]. exact IH.
  - specialize (IH s Js). destruct (lrun s ls) as [os sf]. exact IH.
Qed.

(* a writer inside its session excludes every other session: no other handle is open *)
Theorem writer_alone s i : J s -> closed (hnth (snd (lw s)) i) = false -> md (hnth (snd (lw s)) i) = MA ->
  forall j, j <> i -> closed (hnth (snd (lw s)) j) = true.
Proof.
  intros [Jm Jo Jc] Hc Hm j Hj. destruct (closed (hnth (snd (lw s)) j)) eqn:Hcj; [reflexivity|exfalso].
  destruct (Jo i Hc) as [A [B C]]. specialize (C Hm). destruct (Jo j Hcj) as [A' [B' C']].
  destruct (Nat.eq_dec (nth j (owner s) (length (procs s))) (nth i (owner s) (length (procs s)))) as [Ep|Np].
  - rewrite Ep in A'. congruence.
  - apply B'. apply (Jm _ _ (not_eq_sym Np) C).
Qed.

(* no lock leak in the model: when nobody holds the lock, any process can take it in either mode *)
Lemma others_ok_free l p f : (forall a, In a l -> f (plock a) = true) -> forall k, others_ok l p k f = true.
Proof.
  induction l as [|a l IH]; intros Hf k; [reflexivity|]. simpl.
  rewrite (Hf a (or_introl eq_refl)), orb_true_r. simpl. apply IH. intros b Hb. apply Hf. right. exact Hb.
Qed.

Theorem acquire_enabled_when_free s p w :
  (p < length (procs s))%nat -> (forall q, plock (pnth (procs s) q) = LFree) ->
  exists s', lstep s (LAcq p w) = Some (s', ROk) /\ plock (pnth (procs s') p) = (if w then LWrite else LRead).
Proof.
  intros Hp Hfree. simpl. apply Nat.ltb_lt in Hp. rewrite Hp, (Hfree p). simpl.
  rewrite (others_ok_free (procs s) p (fun k => if w then lk_eqb k LFree else negb (lk_eqb k LWrite))).
  2:{ intros a Ha. destruct (In_nth _ _ p0 Ha) as [q [_ Hq]]. pose proof (Hfree q) as Fq. unfold pnth in Fq.
      rewrite Hq in Fq. rewrite Fq. destruct w; reflexivity. }
  eexists. split; [reflexivity|]. simpl. apply Nat.ltb_lt in Hp. rewrite pnth_upd_same by exact Hp. reflexivity.
Qed.
