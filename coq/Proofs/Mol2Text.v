(* C07 -- lemmas about Model/Mol2Text.v.
   Part A: soundness of the boolean table checks (what `vm_compute` decides on Gen/Mol2Types.v really is the
           statement about get_tok / set_tok on the whole domain).
   Part B: the text codec: read (write m) = Some (norm m), text fixed point, ensembles -- for an arbitrary
           vocabulary satisfying the facts Part A establishes for the real one. *)
From Coq Require Import String Ascii.
From Coq Require Import List Bool NArith ZArith Lia.
From Molli Require Import Common.StrSplit Common.Dec6 Gen.Mol2Types Model.Mol2Text.
Import ListNotations.
Local Open Scope N_scope.

(* ================================================================== Part A *)
Lemma In_seqN n x : In x (seqN n) <-> x < n.
Proof.
  unfold seqN. rewrite in_map_iff. split.
  - intros [k [<- Hk]]. apply in_seq in Hk. lia.
  - intros H. exists (N.to_nat x). split; [apply N2Nat.id|]. apply in_seq. lia.
Qed.

Lemma all_triples_sound chk : all_triples chk = true ->
  forall e t g, e < n_elt -> t < n_atype -> g < n_geom -> chk (e, t, g) = true.
Proof.
  unfold all_triples. intros H e t g He Ht Hg.
  rewrite forallb_forall in H. specialize (H e (proj2 (In_seqN _ _) He)).
  rewrite forallb_forall in H. specialize (H t (proj2 (In_seqN _ _) Ht)).
  rewrite forallb_forall in H. exact (H g (proj2 (In_seqN _ _) Hg)).
Qed.

Lemma existsb_str_eqb_In x r : In x r -> existsb (str_eqb x) r = true.
Proof. intros H. apply existsb_exists. exists x. split; [exact H|apply str_eqb_refl]. Qed.

Lemma index_of_nth l : nodupb l = true -> forall k s i, nth_error l k = Some s -> index_of s l i = Some (i + N.of_nat k).
Proof.
  induction l as [|x r IH]; intros Hnd k s i Hk; [destruct k; discriminate|].
  simpl in Hnd. apply andb_prop in Hnd. destruct Hnd as [Hx Hr]. apply negb_true_iff in Hx.
  destruct k as [|k]; simpl in Hk.
  - injection Hk as ->. simpl. rewrite str_eqb_refl. f_equal. lia.
  - simpl. destruct (str_eqb s x) eqn:E.
    + apply str_eqb_eq in E. subst s. apply nth_error_In in Hk. apply existsb_str_eqb_In in Hk. congruence.
    + rewrite (IH Hr k s (N.succ i) Hk). f_equal. lia.
Qed.

Lemma index_of_nthN l k s : nodupb l = true -> nthN l k = Some s -> index_of s l 0 = Some k.
Proof. unfold nthN. intros Hnd H. rewrite (index_of_nth l Hnd _ _ 0 H). f_equal. rewrite N2Nat.id. lia. Qed.

Lemma nthN_In {A} (l : list A) k x : nthN l k = Some x -> In x l.
Proof. apply nth_error_In. Qed.

Lemma nthN_lt {A} (l : list A) k : k < lenN l -> exists x, nthN l k = Some x.
Proof.
  unfold nthN, lenN. intros H. destruct (nth_error l (N.to_nat k)) eqn:E; [eauto|].
  apply nth_error_None in E. lia.
Qed.

Record vocab_wf : Prop := {
  vw_nodup : nodupb tokens_s = true; vw_tok : forallb (tokb pyws) tokens_s = true;
  vw_sym : forallb (tokb pyws) symbols_s = true;
  vw_bnodup : nodupb bond_tokens_s = true; vw_btok : forallb (tokb pyws) bond_tokens_s = true }.
Lemma vocab_wfb_sound : vocab_wfb = true -> vocab_wf.
Proof.
  unfold vocab_wfb. intros H. apply andb_prop in H. destruct H as [H H5]. apply andb_prop in H. destruct H as [H H4].
  apply andb_prop in H. destruct H as [H H3]. apply andb_prop in H. destruct H as [H1 H2]. constructor; assumption.
Qed.

(* what the acceptance check gives for one triple *)
Lemma triple_acc_sound a : vocab_wf -> triple_accb a = true ->
  exists k a', get_tokidx a = Some k /\ nthN tokens_s k = Some (get_tok a) /\ nthN set_tbl k = Some (Some a')
               /\ set_tok (get_tok a) = Some a' /\ elt_of a' = elt_of a /\ in_dom a' = true /\ tok pyws (get_tok a).
Proof.
  intros W H. unfold triple_accb in H. destruct (get_tokidx a) as [k|] eqn:Ek; [|discriminate].
  apply andb_prop in H. destruct H as [Hk H]. apply N.ltb_lt in Hk.
  destruct (nthN set_tbl k) as [[a'|]|] eqn:Es; try discriminate.
  apply andb_prop in H. destruct H as [He Hd]. apply N.eqb_eq in He.
  destruct (nthN_lt _ _ Hk) as [s Hs].
  assert (Hg : get_tok a = s) by (unfold get_tok; now rewrite Ek, Hs).
  exists k, a'. rewrite Hg. split; [reflexivity|]. split; [exact Hs|]. split; [exact Es|].
  split; [|split; [exact He|split; [exact Hd|]]].
  - unfold set_tok. rewrite (index_of_nthN _ _ _ (vw_nodup W) Hs). now rewrite Es.
  - apply tokb_tok. pose proof (vw_tok W) as Ht. rewrite forallb_forall in Ht. apply Ht. eapply nthN_In; eauto.
Qed.

Lemma triple_okb_accb a : triple_okb a = true -> triple_accb a = true.
Proof.
  unfold triple_okb, triple_accb. destruct (get_tokidx a) as [k|]; [|discriminate].
  intros H. apply andb_prop in H. destruct H as [Hk H]. rewrite Hk. simpl.
  destruct (nthN set_tbl k) as [[a'|]|]; try discriminate.
  apply andb_prop in H. destruct H as [H _]. exact H.
Qed.

Lemma triple_ok_sound a : vocab_wf -> triple_okb a = true ->
  forall a', set_tok (get_tok a) = Some a' -> get_tok a' = get_tok a.
Proof.
  intros W H a' Hs. destruct (triple_acc_sound a W (triple_okb_accb a H)) as [k [a1 [Ek [Hn [Es [Hs1 _]]]]]].
  rewrite Hs in Hs1. injection Hs1 as <-.
  unfold triple_okb in H. rewrite Ek, Es in H. apply andb_prop in H. destruct H as [_ H].
  apply andb_prop in H. destruct H as [_ H]. destruct (get_tokidx a') as [k'|] eqn:Ek'; [|discriminate].
  apply N.eqb_eq in H. subst k'. unfold get_tok at 1. rewrite Ek'. now rewrite Hn.
Qed.

Theorem types_acc_sound : types_accb = true ->
  forall e t g, e < n_elt -> t < n_atype -> g < n_geom ->
  exists a', set_tok (get_tok (e, t, g)) = Some a' /\ elt_of a' = e /\ in_dom a' = true /\ tok pyws (get_tok (e, t, g)).
Proof.
  unfold types_accb. intros H e t g He Ht Hg. apply andb_prop in H. destruct H as [W H].
  apply vocab_wfb_sound in W. pose proof (all_triples_sound _ H e t g He Ht Hg) as Hc.
  destruct (triple_acc_sound _ W Hc) as [k [a' [_ [_ [_ [Hs [Hel [Hd Htok]]]]]]]]. exists a'. auto.
Qed.

Theorem types_ok_sound : types_okb = true ->
  forall e t g, e < n_elt -> t < n_atype -> g < n_geom ->
  forall a', set_tok (get_tok (e, t, g)) = Some a' -> get_tok a' = get_tok (e, t, g).
Proof.
  unfold types_okb. intros H e t g He Ht Hg. apply andb_prop in H. destruct H as [W H].
  apply vocab_wfb_sound in W. apply triple_ok_sound; [exact W|]. now apply all_triples_sound.
Qed.

Lemma sym_tok a : vocab_wf -> in_dom a = true -> tok pyws (sym a).
Proof.
  intros W H. destruct a as [[e t] g]. unfold in_dom in H. apply andb_prop in H. destruct H as [H _].
  apply andb_prop in H. destruct H as [He _]. apply N.ltb_lt in He. unfold sym. simpl fst.
  assert (He' : e < lenN symbols_s).
  { unfold symbols_s, lenN. rewrite map_length. exact He. }
  destruct (nthN_lt _ _ He') as [s Hs]. rewrite Hs. apply tokb_tok.
  pose proof (vw_sym W) as Ht. rewrite forallb_forall in Ht. apply Ht. eapply nthN_In; eauto.
Qed.

(* bonds *)
Theorem bonds_ok_sound : bonds_okb = true ->
  forall b, b < n_btype ->
  exists b', bset_tok (bget_tok b) = Some b' /\ b' < n_btype /\ bget_tok b' = bget_tok b /\ tok pyws (bget_tok b).
Proof.
  unfold bonds_okb. intros H b Hb. apply andb_prop in H. destruct H as [W H]. apply vocab_wfb_sound in W.
  rewrite forallb_forall in H. specialize (H b (proj2 (In_seqN _ _) Hb)). unfold bond_okb in H.
  destruct (nthN bond_get b) as [k|] eqn:Ek; [|discriminate].
  apply andb_prop in H. destruct H as [Hk H]. apply N.ltb_lt in Hk.
  destruct (nthN bond_set k) as [[b'|]|] eqn:Es; try discriminate.
  apply andb_prop in H. destruct H as [Hb' H]. apply N.ltb_lt in Hb'.
  destruct (nthN bond_get b') as [k'|] eqn:Ek'; [|discriminate]. apply N.eqb_eq in H. subst k'.
  destruct (nthN_lt _ _ Hk) as [s Hs].
  assert (Hg : bget_tok b = s) by (unfold bget_tok; now rewrite Ek, Hs).
  exists b'. rewrite Hg. split; [|split; [exact Hb'|split]].
  - unfold bset_tok. rewrite (index_of_nthN _ _ _ (vw_bnodup W) Hs). now rewrite Es.
  - unfold bget_tok. now rewrite Ek', Hs.
  - apply tokb_tok. pose proof (vw_btok W) as Ht. rewrite forallb_forall in Ht. apply Ht. eapply nthN_In; eauto.
Qed.

Theorem bond_spec_sound : bond_spec_okb = true ->
  forall name tk, In (name, tk) bond_spec ->
  exists b, pos_of name btype_names 0 = Some b /\ bget_tok b = u8 tk /\ bset_tok (u8 tk) = Some b.
Proof.
  unfold bond_spec_okb. intros H name tk Hin. rewrite forallb_forall in H. specialize (H _ Hin). cbv beta in H. cbn [fst snd] in H.
  destruct (pos_of name btype_names 0) as [b|]; [|discriminate]. exists b.
  apply andb_prop in H. destruct H as [H1 H2]. apply str_eqb_eq in H1.
  destruct (bset_tok (u8 tk)) as [b'|]; [|discriminate]. apply N.eqb_eq in H2. subst b'. auto.
Qed.

Lemma N_list_eqb_eq a : forall b, N_list_eqb a b = true -> a = b.
Proof.
  induction a as [|x a IH]; intros [|y b] H; simpl in H; try discriminate H; try reflexivity.
  apply andb_prop in H. destruct H as [H1 H2]. apply N.eqb_eq in H1. subst. f_equal. now apply IH.
Qed.
Lemma optN_list_eqb_eq a : forall b, optN_list_eqb a b = true -> a = b.
Proof.
  induction a as [|x a IH]; intros [|y b] H; simpl in H; try discriminate H; try reflexivity.
  - destruct x; discriminate H.
  - destruct x as [x|], y as [y|]; try discriminate H.
    + apply andb_prop in H. destruct H as [H1 H2]. apply N.eqb_eq in H1. subst. f_equal. now apply IH.
    + f_equal. now apply IH.
Qed.
Theorem stateless_sound : stateless_okb = true ->
  get_after = seqN (lenN tokens) /\ bond_get_after = bond_get /\ bond_set_after = bond_set.
Proof.
  unfold stateless_okb. intros H. apply andb_prop in H. destruct H as [H H3]. apply andb_prop in H. destruct H as [H1 H2].
  split; [now apply N_list_eqb_eq|]. split; [now apply N_list_eqb_eq|now apply optN_list_eqb_eq].
Qed.

Lemma triple_eqb_eq a b : triple_eqb a b = true -> a = b.
Proof.
  destruct a as [[e t] g], b as [[e' t'] g']. unfold triple_eqb. intros H.
  apply andb_prop in H. destruct H as [H Hg]. apply andb_prop in H. destruct H as [He Ht].
  apply N.eqb_eq in He, Ht, Hg. now subst.
Qed.

Theorem sybyl_spec_sound : sybyl_spec_okb = true ->
  forall e t g k, In (e, t, g, k) sybyl_spec ->
  exists a, triple_of e t g = Some a /\ get_tok a = u8 k /\ set_tok (u8 k) = Some a.
Proof.
  unfold sybyl_spec_okb. intros H e t g k Hin. rewrite forallb_forall in H. specialize (H _ Hin). cbv beta iota in H.
  destruct (triple_of e t g) as [a|]; [|discriminate]. exists a.
  apply andb_prop in H. destruct H as [H1 H2]. apply str_eqb_eq in H1.
  destruct (set_tok (u8 k)) as [a'|]; [|discriminate]. apply triple_eqb_eq in H2. subst a'. auto.
Qed.

(* ================================================================== Part B: the text codec *)
Local Open Scope list_scope.

(* ---------------------------------------------------------------- formatted lines split back into their fields *)
Lemma split_tok_ws t w rest : tok pyws t -> all_ws pyws w -> w <> [] ->
  split pyws (t ++ w ++ rest) = t :: split pyws rest.
Proof.
  intros Ht Hw Hne. destruct w as [|c w]; [now elim Hne|]. unfold all_ws in Hw. simpl in Hw.
  apply andb_prop in Hw. destruct Hw as [Hc Hw]. simpl. rewrite split_tok_sep by assumption. f_equal. now apply split_ws.
Qed.

Lemma all_ws_app a b : all_ws pyws a -> all_ws pyws b -> all_ws pyws (a ++ b).
Proof. unfold all_ws. intros. rewrite forallb_app. now apply andb_true_intro. Qed.

Lemma split_fld_sep f rest : tok pyws (fld_tok f) ->
  split pyws (fld_text f ++ SP :: rest) = fld_tok f :: split pyws rest.
Proof.
  intros Ht. destruct f as [w t|w t]; simpl in *.
  - unfold rpad. rewrite <- app_assoc. change (SP :: rest) with ([SP] ++ rest). rewrite app_assoc with (n := rest).
    apply split_tok_ws; [exact Ht| |].
    + apply all_ws_app; [apply spaces_ws|reflexivity].
    + destruct (spaces _); discriminate.
  - unfold lpad. rewrite <- app_assoc. rewrite split_ws by apply spaces_ws. now apply split_tok_sep.
Qed.

Lemma split_fld_last f : tok pyws (fld_tok f) -> split pyws (fld_text f) = [fld_tok f].
Proof.
  intros Ht. destruct f as [w t|w t]; simpl in *.
  - unfold rpad, split. rewrite split_aux_app_ws by apply spaces_ws. now apply split_tok_end.
  - unfold lpad. rewrite split_ws by apply spaces_ws. now apply split_tok_end.
Qed.

Lemma split_join_sp fs : Forall (fun f => tok pyws (fld_tok f)) fs -> split pyws (join_sp fs) = map fld_tok fs.
Proof.
  induction 1 as [|f fs Hf Hfs IH]; [reflexivity|]. destruct fs as [|g fs].
  - simpl. now apply split_fld_last.
  - change (join_sp (f :: g :: fs)) with (fld_text f ++ SP :: join_sp (g :: fs)).
    rewrite split_fld_sep by exact Hf. rewrite IH. reflexivity.
Qed.

Lemma split_strip_join_sp fs : Forall (fun f => tok pyws (fld_tok f)) fs ->
  split pyws (strip pyws (join_sp fs)) = map fld_tok fs.
Proof. intros H. rewrite strip_split. now apply split_join_sp. Qed.

Lemma nl_free_cons c l : c <> NL -> nl_free l -> nl_free (c :: l).
Proof. unfold nl_free. intros Hc Hl. simpl. rewrite Hl. apply N.eqb_neq in Hc. now rewrite Hc. Qed.

Lemma nl_free_fld f : tok pyws (fld_tok f) -> nl_free (fld_text f).
Proof.
  intros [_ Ht]. destruct f as [w t|w t]; simpl in *; unfold rpad, lpad;
  apply nl_free_app; auto using spaces_nl_free, tok_nl_free.
Qed.

Lemma nl_free_join_sp fs : Forall (fun f => tok pyws (fld_tok f)) fs -> nl_free (join_sp fs).
Proof.
  induction 1 as [|f fs Hf Hfs IH]; [reflexivity|]. destruct fs as [|g fs].
  - simpl. now apply nl_free_fld.
  - change (join_sp (f :: g :: fs)) with (fld_text f ++ SP :: join_sp (g :: fs)).
    apply nl_free_app; [now apply nl_free_fld|]. apply nl_free_cons; [discriminate|exact IH].
Qed.

Lemma u8_tok_by_compute s : tokb pyws (u8 s) = true -> tok pyws (u8 s).
Proof. apply tokb_tok. Qed.

Lemma all_some_map {A B} (f : A -> option B) (g : A -> B) l :
  Forall (fun x => f x = Some (g x)) l -> all_some (map f l) = Some (map g l).
Proof. induction 1 as [|x l Hx _ IH]; [reflexivity|]. simpl. now rewrite Hx, IH. Qed.

(* ---------------------------------------------------------------- single steps of the reader *)
Section Steps.
Variables (sk : bool) (dn : list rawblock) (hd : option rawhdr) (at_ bd : list (list str)) (na nb : option N).

Lemma step_produced : step (mk_st Top sk dn hd at_ bd na nb) L_PRODUCED = Some (mk_st Top sk dn hd at_ bd na nb).
Proof. reflexivity. Qed.

Lemma step_molecule_none :
  step (mk_st Top sk dn None at_ bd na nb) L_MOLECULE = Some (mk_st HName false dn None [] [] na nb).
Proof. reflexivity. Qed.

Lemma step_molecule_some h : complete h at_ bd = true ->
  step (mk_st Top sk dn (Some h) at_ bd na nb) L_MOLECULE = Some (mk_st HName false ((h, at_, bd) :: dn) None [] [] na nb).
Proof.
  intros H. change (step (mk_st Top sk dn (Some h) at_ bd na nb) L_MOLECULE)
    with (if complete h at_ bd then Some (mk_st HName false ((h, at_, bd) :: dn) None [] [] na nb) else None).
  now rewrite H.
Qed.

Lemma step_hname l : step (mk_st HName sk dn hd at_ bd na nb) l = Some (mk_st (HCounts (strip pyws l)) sk dn hd at_ bd na nb).
Proof. reflexivity. Qed.
Lemma step_hcounts nm l :
  step (mk_st (HCounts nm) sk dn hd at_ bd na nb) l = Some (mk_st (HMolType nm (strip pyws l)) sk dn hd at_ bd na nb).
Proof. reflexivity. Qed.
Lemma step_hmoltype nm cn l :
  step (mk_st (HMolType nm cn) sk dn hd at_ bd na nb) l = Some (mk_st (HChrg nm cn) sk dn hd at_ bd na nb).
Proof. reflexivity. Qed.
Lemma step_hchrg nm cn l :
  step (mk_st (HChrg nm cn) sk dn hd at_ bd na nb) l = Some (mk_st (HStatus nm cn (strip pyws l)) sk dn hd at_ bd na nb).
Proof. reflexivity. Qed.

Lemma step_hstatus_blank nm cn ch a b r :
  all_some (map parse_nat (split pyws cn)) = Some (a :: b :: r) ->
  step (mk_st (HStatus nm cn ch) sk dn hd at_ bd na nb) []
  = Some (mk_st Top sk dn (Some (mk_hdr nm a (Some b) ch)) at_ bd (Some a) (Some b)).
Proof.
  intros H. unfold step. cbn [s_mode]. unfold finish_header. rewrite H. reflexivity.
Qed.

Lemma step_atom_tag n :
  step (mk_st Top sk dn hd at_ bd (Some n) nb) L_ATOM
  = Some (mk_st (if n =? 0 then Top else Atoms n) false dn hd [] bd (Some n) nb).
Proof. reflexivity. Qed.

Lemma step_bond_tag n :
  step (mk_st Top sk dn hd at_ bd na (Some n)) L_BOND
  = Some (mk_st (if n =? 0 then Top else Bonds n) false dn hd at_ [] na (Some n)).
Proof. reflexivity. Qed.

Lemma step_atoms k l toks : split pyws (strip pyws l) = toks -> (5 <= length toks)%nat ->
  step (mk_st (Atoms k) sk dn hd at_ bd na nb) l
  = Some (mk_st (if k =? 1 then Top else Atoms (k - 1)) sk dn hd (toks :: at_) bd na nb).
Proof.
  intros H Hl. unfold step. cbn [s_mode s_skip s_done s_hdr s_atoms s_bonds s_na s_nb]. rewrite H.
  destruct (Nat.ltb_spec (length toks) 5); [lia|reflexivity].
Qed.

Lemma step_bonds k l toks : split pyws (strip pyws l) = toks -> (4 <= length toks)%nat ->
  step (mk_st (Bonds k) sk dn hd at_ bd na nb) l
  = Some (mk_st (if k =? 1 then Top else Bonds (k - 1)) sk dn hd at_ (toks :: bd) na nb).
Proof.
  intros H Hl. unfold step. cbn [s_mode s_skip s_done s_hdr s_atoms s_bonds s_na s_nb]. rewrite H.
  destruct (Nat.ltb_spec (length toks) 4); [lia|reflexivity].
Qed.
End Steps.

(* ---------------------------------------------------------------- one molecule through the reader *)
Section Roundtrip.
Variable V : vocab.

(* what the vocabulary must provide for the atoms / bonds of a molecule (Part A proves it for every atom and
   bond type of the real vocabulary) *)
Definition good_atom (a : atom V) : Prop :=
  wf_label (a_label a) = true /\ tok pyws (V_get V (a_ty a)) /\ tok pyws (V_sym V (a_ty a))
  /\ exists t', V_set V (V_get V (a_ty a)) = Some t'.
Definition good_bond (na : N) (b : bond V) : Prop :=
  wf_bond V na b = true /\ tok pyws (V_bget V (b_ty b)) /\ exists t', V_bset V (V_bget V (b_ty b)) = Some t'.
Definition good_mol (m : mol V) : Prop :=
  wf_name (m_name m) = true /\ Forall good_atom (m_atoms m) /\ Forall (good_bond (lenN (m_atoms m))) (m_bonds m).

Variable wq : bool.

Fixpoint atom_toks_list (i : N) (l : list (atom V)) : list (list str) :=
  match l with [] => [] | a :: r => map fld_tok (atom_fields V wq i a) :: atom_toks_list (N.succ i) r end.
Fixpoint bond_toks_list (i : N) (l : list (bond V)) : list (list str) :=
  match l with [] => [] | b :: r => map fld_tok (bond_fields V wq i b) :: bond_toks_list (N.succ i) r end.
Definition hdr_of (m : mol V) : rawhdr :=
  mk_hdr (m_name m) (lenN (m_atoms m)) (Some (lenN (m_bonds m))) (u8 "USER_CHARGES").
Definition block_of (m : mol V) : rawblock :=
  (hdr_of m, rev (atom_toks_list 0 (m_atoms m)), rev (bond_toks_list 0 (m_bonds m))).

Lemma or_sym_nonempty s a : s <> [] -> or_sym V s a = s.
Proof. destruct s; [intros H; now elim H|reflexivity]. Qed.

Lemma label_of_tok a : good_atom a -> tok pyws (label_of V a).
Proof.
  intros [Hl [_ [Hs _]]]. unfold label_of, or_sym, wf_label in *. destruct (a_label a) as [|c l]; [exact Hs|].
  now apply tokb_tok.
Qed.
Lemma type_of_eq a : good_atom a -> type_of V a = V_get V (a_ty a).
Proof. intros [_ [[Hne _] _]]. unfold type_of. now apply or_sym_nonempty. Qed.

Lemma atom_fields_tok i a : good_atom a -> Forall (fun f => tok pyws (fld_tok f)) (atom_fields V wq i a).
Proof.
  intros G. unfold atom_fields. repeat apply Forall_cons; try apply Forall_nil; cbn [fld_tok];
  try apply print_nat_tok; try apply print_fixed_tok; try (apply tokb_tok; reflexivity).
  - now apply label_of_tok.
  - rewrite type_of_eq by exact G. now destruct G as [_ [H _]].
  - destruct wq; [apply print_fixed_tok|apply tokb_tok; reflexivity].
Qed.
Lemma bond_fields_tok na i b : good_bond na b -> Forall (fun f => tok pyws (fld_tok f)) (bond_fields V wq i b).
Proof.
  intros [_ [Ht _]]. unfold bond_fields. repeat apply Forall_cons; try apply Forall_nil; cbn [fld_tok];
  try apply print_nat_tok. exact Ht.
Qed.

Lemma lenN_cons {A} (x : A) l : lenN (x :: l) = N.succ (lenN l).
Proof. unfold lenN. simpl length. now rewrite Nat2N.inj_succ. Qed.
Lemma lenN_rev {A} (l : list A) : lenN (rev l) = lenN l.
Proof. unfold lenN. now rewrite rev_length. Qed.
Lemma lenN_map {A B} (f : A -> B) l : lenN (map f l) = lenN l.
Proof. unfold lenN. now rewrite map_length. Qed.

Lemma count_down (mk : N -> mode) n :
  (if N.succ n =? 1 then Top else mk (N.succ n - 1)) = (if n =? 0 then Top else mk n).
Proof.
  destruct (n =? 0) eqn:E.
  - apply N.eqb_eq in E. subst n. reflexivity.
  - apply N.eqb_neq in E. assert (E1 : N.succ n =? 1 = false) by (apply N.eqb_neq; lia). rewrite E1.
    f_equal. lia.
Qed.

Lemma run_atom_lines l : forall i sk dn hd acc bd na nb rest, Forall good_atom l ->
  run (mk_st (if lenN l =? 0 then Top else Atoms (lenN l)) sk dn hd acc bd na nb) (atom_lines V wq i l ++ rest)
  = run (mk_st Top sk dn hd (rev (atom_toks_list i l) ++ acc) bd na nb) rest.
Proof.
  induction l as [|a l IH]; intros i sk dn hd acc bd na nb rest G; [reflexivity|].
  inversion G as [|x y Ga Gl]; subst. rewrite lenN_cons.
  assert (E0 : N.succ (lenN l) =? 0 = false) by (apply N.eqb_neq; lia). rewrite E0.
  cbn [atom_lines app run].
  rewrite (step_atoms _ _ _ _ _ _ _ _ _ (map fld_tok (atom_fields V wq i a)));
    [|apply split_strip_join_sp, atom_fields_tok; exact Ga|cbn; lia].
  rewrite (count_down Atoms). rewrite IH by exact Gl. cbn [atom_toks_list rev]. now rewrite <- app_assoc.
Qed.

Lemma run_bond_lines nat_ l : forall i sk dn hd at_ acc na nb rest, Forall (good_bond nat_) l ->
  run (mk_st (if lenN l =? 0 then Top else Bonds (lenN l)) sk dn hd at_ acc na nb) (bond_lines V wq i l ++ rest)
  = run (mk_st Top sk dn hd at_ (rev (bond_toks_list i l) ++ acc) na nb) rest.
Proof.
  induction l as [|b l IH]; intros i sk dn hd at_ acc na nb rest G; [reflexivity|].
  inversion G as [|x y Gb Gl]; subst. rewrite lenN_cons.
  assert (E0 : N.succ (lenN l) =? 0 = false) by (apply N.eqb_neq; lia). rewrite E0.
  cbn [bond_lines app run].
  rewrite (step_bonds _ _ _ _ _ _ _ _ _ (map fld_tok (bond_fields V wq i b)));
    [|apply split_strip_join_sp; eapply bond_fields_tok; exact Gb|cbn; lia].
  rewrite (count_down Bonds). rewrite IH by exact Gl. cbn [bond_toks_list rev]. now rewrite <- app_assoc.
Qed.

Lemma wf_name_strip n : wf_name n = true -> strip pyws n = n /\ nl_free n.
Proof.
  unfold wf_name. intros H. apply andb_prop in H. destruct H as [H1 H2]. apply str_eqb_eq in H2. split; assumption.
Qed.

Lemma counts_parse a b :
  all_some (map parse_nat (split pyws (strip pyws (counts_line a b)))) = Some [a; b; 0; 0; 0].
Proof.
  unfold counts_line. rewrite split_strip_join_sp.
  - cbn [map fld_tok]. rewrite !parse_print_nat. reflexivity.
  - repeat apply Forall_cons; try apply Forall_nil; cbn [fld_tok]; try apply print_nat_tok; apply tokb_tok; reflexivity.
Qed.

Definition push (hd : option rawhdr) (at_ bd : list (list str)) (dn : list rawblock) : list rawblock :=
  match hd with Some h => (h, at_, bd) :: dn | None => dn end.
Definition hd_complete (hd : option rawhdr) (at_ bd : list (list str)) : Prop :=
  match hd with Some h => complete h at_ bd = true | None => True end.

Lemma run_mol m sk dn hd at_ bd na nb rest : good_mol m -> hd_complete hd at_ bd ->
  run (mk_st Top sk dn hd at_ bd na nb) (mol_lines V wq m ++ rest)
  = run (mk_st Top false (push hd at_ bd dn) (Some (hdr_of m)) (rev (atom_toks_list 0 (m_atoms m)))
               (rev (bond_toks_list 0 (m_bonds m))) (Some (lenN (m_atoms m))) (Some (lenN (m_bonds m)))) rest.
Proof.
  intros [Hn [Ga Gb]] Hc. destruct (wf_name_strip _ Hn) as [Hs _].
  unfold mol_lines, header_lines. rewrite <- app_assoc. cbn [app run]. rewrite step_produced.
  assert (E : step (mk_st Top sk dn hd at_ bd na nb) L_MOLECULE = Some (mk_st HName false (push hd at_ bd dn) None [] [] na nb)).
  { destruct hd as [h|]; [apply step_molecule_some; exact Hc|apply step_molecule_none]. }
  rewrite E. rewrite step_hname, Hs. rewrite step_hcounts. rewrite step_hmoltype. rewrite step_hchrg.
  change (strip pyws (u8 "USER_CHARGES")) with (u8 "USER_CHARGES").
  rewrite (step_hstatus_blank _ _ _ _ _ _ _ _ _ _ _ _ _ (counts_parse _ _)).
  rewrite step_atom_tag. rewrite <- app_assoc. rewrite run_atom_lines by exact Ga. rewrite app_nil_r.
  cbn [app run]. rewrite step_bond_tag. rewrite (run_bond_lines _ _ _ _ _ _ _ _ _ _ _ Gb). now rewrite app_nil_r.
Qed.

Lemma atom_toks_length l : forall i, length (atom_toks_list i l) = length l.
Proof. induction l; intros i; simpl; auto. Qed.
Lemma bond_toks_length l : forall i, length (bond_toks_list i l) = length l.
Proof. induction l; intros i; simpl; auto. Qed.

Lemma block_complete m : complete (hdr_of m) (rev (atom_toks_list 0 (m_atoms m))) (rev (bond_toks_list 0 (m_bonds m))) = true.
Proof.
  unfold complete, hdr_of. cbn [h_na h_nb]. rewrite !lenN_rev. unfold lenN.
  rewrite atom_toks_length, bond_toks_length. now rewrite !N.eqb_refl.
Qed.

Lemma run_mols ms : forall sk dn hd at_ bd na nb, ms <> [] -> Forall good_mol ms -> hd_complete hd at_ bd ->
  match run (mk_st Top sk dn hd at_ bd na nb) (concat (map (mol_lines V wq) ms)) with
  | Some s => finish s | None => None end
  = Some (rev (push hd at_ bd dn) ++ map block_of ms).
Proof.
  induction ms as [|m ms IH]; intros sk dn hd at_ bd na nb Hne G Hc; [now elim Hne|].
  inversion G as [|x y Gm Gms]; subst. cbn [map concat]. rewrite run_mol by assumption.
  destruct ms as [|m' ms'].
  - cbn [map concat run]. unfold finish. cbn [s_mode s_hdr s_atoms s_bonds s_done]. rewrite block_complete.
    reflexivity.
  - rewrite IH; [|discriminate|exact Gms|apply block_complete]. cbn [push rev map]. now rewrite <- app_assoc.
Qed.

Lemma fields_nl_free fs : Forall (fun f => tok pyws (fld_tok f)) fs -> nl_free (join_sp fs).
Proof. apply nl_free_join_sp. Qed.

Lemma atom_lines_nl_free l : forall i, Forall good_atom l -> Forall nl_free (atom_lines V wq i l).
Proof.
  induction l as [|a l IH]; intros i G; [constructor|]. inversion G; subst. cbn [atom_lines]. constructor.
  - now apply nl_free_join_sp, atom_fields_tok.
  - now apply IH.
Qed.
Lemma bond_lines_nl_free na l : forall i, Forall (good_bond na) l -> Forall nl_free (bond_lines V wq i l).
Proof.
  induction l as [|b l IH]; intros i G; [constructor|]. inversion G; subst. cbn [bond_lines]. constructor.
  - eapply nl_free_join_sp, bond_fields_tok; eauto.
  - now apply IH.
Qed.

Lemma mol_lines_nl_free m : good_mol m -> Forall nl_free (mol_lines V wq m).
Proof.
  intros [Hn [Ga Gb]]. destruct (wf_name_strip _ Hn) as [_ Hnl]. unfold mol_lines, header_lines.
  apply Forall_app. split.
  - repeat constructor; try reflexivity; [exact Hnl|].
    unfold counts_line. apply nl_free_join_sp.
    repeat apply Forall_cons; try apply Forall_nil; cbn [fld_tok]; try apply print_nat_tok; apply tokb_tok; reflexivity.
  - constructor; [reflexivity|]. apply Forall_app. split; [now apply atom_lines_nl_free|].
    constructor; [reflexivity|]. eapply bond_lines_nl_free; eauto.
Qed.

Lemma concat_nl_free ms : Forall good_mol ms -> Forall nl_free (concat (map (mol_lines V wq) ms)).
Proof.
  induction 1 as [|m ms Gm _ IH]; [constructor|]. cbn [map concat]. apply Forall_app. split; [|exact IH].
  now apply mol_lines_nl_free.
Qed.

Theorem read_blocks_write_all ms : ms <> [] -> Forall good_mol ms ->
  read_blocks (write_all V wq ms) = Some (map block_of ms).
Proof.
  intros Hne G. unfold read_blocks, write_all. rewrite lines_of_text by now apply concat_nl_free.
  unfold init_st. rewrite run_mols; [reflexivity|exact Hne|exact G|exact I].
Qed.

(* ---------------------------------------------------------------- blocks back to molecules *)
Lemma conv_atom_toks i a : good_atom a ->
  conv_atom V wq true (map fld_tok (atom_fields V wq i a)) = Some (norm_atom V wq a).
Proof.
  intros G. pose proof (type_of_eq a G) as Et. destruct G as [_ [_ [_ [t' Hs]]]].
  unfold atom_fields. cbn [map fld_tok]. unfold conv_atom. rewrite !parse_print_fixed. rewrite Et, Hs.
  unfold norm_atom. rewrite Et, Hs. destruct wq; cbn [andb].
  - rewrite parse_print_fixed. reflexivity.
  - reflexivity.
Qed.

Lemma conv_atoms l : forall i, Forall good_atom l ->
  all_some (map (conv_atom V wq true) (atom_toks_list i l)) = Some (map (norm_atom V wq) l).
Proof.
  induction l as [|a l IH]; intros i G; [reflexivity|]. inversion G; subst. cbn [atom_toks_list map all_some].
  rewrite conv_atom_toks by assumption. now rewrite IH.
Qed.

Lemma conv_bond_toks na i b : good_bond na b ->
  conv_bond V na (map fld_tok (bond_fields V wq i b)) = Some (norm_bond V b).
Proof.
  intros [Hw [_ [t' Hs]]]. unfold bond_fields. cbn [map fld_tok]. unfold conv_bond. rewrite !parse_print_nat, Hs.
  unfold wf_bond in Hw. apply andb_prop in Hw. destruct Hw as [H1 H2]. apply N.ltb_lt in H1, H2.
  assert (E : (1 <=? b_a1 b + 1) && (b_a1 b + 1 <=? na) && (1 <=? b_a2 b + 1) && (b_a2 b + 1 <=? na) = true).
  { repeat (apply andb_true_intro; split); apply N.leb_le; lia. }
  rewrite E. unfold norm_bond. rewrite Hs. now rewrite !N.add_sub.
Qed.

Lemma conv_bonds na l : forall i, Forall (good_bond na) l ->
  all_some (map (conv_bond V na) (bond_toks_list i l)) = Some (map (norm_bond V) l).
Proof.
  induction l as [|b l IH]; intros i G; [reflexivity|]. inversion G; subst. cbn [bond_toks_list map all_some].
  rewrite (conv_bond_toks na) by assumption. now rewrite IH.
Qed.

Lemma conv_block_of m : good_mol m -> conv_block V wq (block_of m) = Some (norm V wq m).
Proof.
  intros [_ [Ga Gb]]. unfold conv_block, block_of. rewrite !rev_involutive.
  change (negb (str_eqb (h_chrg (hdr_of m)) (u8 "NO_CHARGES"))) with true.
  rewrite conv_atoms by exact Ga. cbn [h_na hdr_of]. rewrite (conv_bonds _ _ _ Gb). reflexivity.
Qed.

(* loads_all_mol2 (concatenation of dumps_mol2) *)
Theorem read_all_write_all ms : ms <> [] -> Forall good_mol ms ->
  read_all V wq (write_all V wq ms) = Some (map (norm V wq) ms).
Proof.
  intros Hne G. unfold read_all. rewrite read_blocks_write_all by assumption. rewrite map_map.
  apply all_some_map. eapply Forall_impl; [|exact G]. intros m Gm. now apply conv_block_of.
Qed.

(* loads_mol2 (dumps_mol2 m) *)
Theorem read_write m : good_mol m -> read V wq (write V wq m) = Some (norm V wq m).
Proof.
  intros G. unfold read. change (write V wq m) with (text_of (mol_lines V wq m)).
  replace (text_of (mol_lines V wq m)) with (write_all V wq [m]) by (unfold write_all; cbn [map concat]; now rewrite app_nil_r).
  rewrite read_all_write_all; [reflexivity|discriminate|now constructor].
Qed.
End Roundtrip.

(* ---------------------------------------------------------------- the written text is a fixed point *)
Section FixedPoint.
Variable V : vocab.
Variable wq : bool.

Definition fix_atom (a : atom V) : Prop :=
  forall t', V_set V (V_get V (a_ty a)) = Some t' -> V_get V t' = V_get V (a_ty a).
Definition fix_bond (b : bond V) : Prop :=
  forall t', V_bset V (V_bget V (b_ty b)) = Some t' -> V_bget V t' = V_bget V (b_ty b).
(* the recorded exception: a charge that is written "-0.000" *)
Definition neg_zero (q : fx) : bool := fneg q && (fmag q =? 0).

Lemma canon_q_id q : neg_zero q = false -> canon_q q = q.
Proof.
  destruct q as [n m]. unfold neg_zero, canon_q. cbn [fneg fmag]. destruct (m =? 0) eqn:E; [|reflexivity].
  apply N.eqb_eq in E. subst m. destruct n; [discriminate|reflexivity].
Qed.

Lemma atom_fields_norm i a : good_atom V a -> fix_atom a -> (wq = true -> neg_zero (a_q a) = false) ->
  atom_fields V wq i (norm_atom V wq a) = atom_fields V wq i a.
Proof.
  intros G F Hq. pose proof (label_of_tok V a G) as [Hl _]. pose proof (type_of_eq V a G) as Et.
  destruct G as [_ [[Hg _] [_ [t' Hs]]]]. specialize (F t' Hs).
  unfold atom_fields, norm_atom. rewrite Et, Hs. cbn [a_x a_y a_z a_q].
  assert (E1 : label_of V (mk_atom t' (label_of V a) (a_x a) (a_y a) (a_z a) (if wq then canon_q (a_q a) else fx0)) = label_of V a).
  { unfold label_of at 1. cbn [a_label a_ty]. now apply or_sym_nonempty. }
  assert (E2 : type_of V (mk_atom t' (label_of V a) (a_x a) (a_y a) (a_z a) (if wq then canon_q (a_q a) else fx0)) = type_of V a).
  { unfold type_of at 1. cbn [a_ty]. rewrite F, Et. apply or_sym_nonempty. exact Hg. }
  rewrite E1, E2, ?Et. destruct wq; [|reflexivity]. now rewrite canon_q_id by (now apply Hq).
Qed.

Lemma atom_lines_norm l : forall i, Forall (good_atom V) l -> Forall fix_atom l ->
  (wq = true -> forallb (fun a => negb (neg_zero (a_q a))) l = true) ->
  atom_lines V wq i (map (norm_atom V wq) l) = atom_lines V wq i l.
Proof.
  induction l as [|a l IH]; intros i G F Hq; [reflexivity|]. inversion G; inversion F; subst.
  cbn [map atom_lines]. rewrite atom_fields_norm; auto.
  - rewrite IH; auto. intros Hw. specialize (Hq Hw). cbn [forallb] in Hq. apply andb_prop in Hq. tauto.
  - intros Hw. specialize (Hq Hw). cbn [forallb] in Hq. apply andb_prop in Hq. destruct Hq as [Hq _].
    now apply negb_true_iff in Hq.
Qed.

Lemma bond_fields_norm na i b : good_bond V na b -> fix_bond b -> bond_fields V wq i (norm_bond V b) = bond_fields V wq i b.
Proof.
  intros [_ [_ [t' Hs]]] F. specialize (F t' Hs). unfold bond_fields, norm_bond. rewrite Hs. cbn [b_a1 b_a2 b_ty].
  now rewrite F.
Qed.

Lemma bond_lines_norm na l : forall i, Forall (good_bond V na) l -> Forall fix_bond l ->
  bond_lines V wq i (map (norm_bond V) l) = bond_lines V wq i l.
Proof.
  induction l as [|b l IH]; intros i G F; [reflexivity|]. inversion G; inversion F; subst.
  cbn [map bond_lines]. erewrite bond_fields_norm by eauto. now rewrite IH.
Qed.

Theorem text_fixed_point m : good_mol V m -> Forall fix_atom (m_atoms m) -> Forall fix_bond (m_bonds m) ->
  (wq = true -> forallb (fun a => negb (neg_zero (a_q a))) (m_atoms m) = true) ->
  write V wq (norm V wq m) = write V wq m.
Proof.
  intros [_ [Ga Gb]] Fa Fb Hq. unfold write, mol_lines, norm. cbn [m_name m_atoms m_bonds].
  rewrite !lenN_map. rewrite atom_lines_norm by assumption. erewrite bond_lines_norm by eauto. reflexivity.
Qed.
End FixedPoint.

(* ---------------------------------------------------------------- ensembles: conformer count and order *)
Section Ensemble.
Variable V : vocab.

Definition al_atom (p : V_atom V * str) : atom V := mk_atom (fst p) (snd p) fx0 fx0 fx0 fx0.
Definition good_ens (e : ens V) : Prop :=
  wf_name (e_name e) = true /\ Forall (fun p => good_atom V (al_atom p)) (e_atoms e)
  /\ Forall (good_bond V (lenN (e_atoms e))) (e_bonds e)
  /\ e_confs e <> [] /\ Forall (fun c => length c = length (e_atoms e)) (e_confs e).

Definition cf (p : (V_atom V * str) * cpos) : atom V := conf_atom V (fst p) (snd p).

Lemma good_atom_conf al c : good_atom V (al_atom al) -> good_atom V (conf_atom V al c).
Proof. intros G. exact G. Qed.

Lemma conformer_atoms_good A : forall c, Forall (fun p => good_atom V (al_atom p)) A ->
  Forall (good_atom V) (map cf (combine A c)).
Proof.
  induction A as [|al A IH]; intros c G; [constructor|]. destruct c as [|x c]; [constructor|].
  inversion G; subst. cbn [combine map]. constructor; [now apply good_atom_conf|now apply IH].
Qed.

Lemma combine_length_eq {X Y} (A : list X) (c : list Y) : length c = length A -> length (combine A c) = length A.
Proof. intros H. rewrite combine_length. lia. Qed.

Lemma good_conformer e c : good_ens e -> length c = length (e_atoms e) -> good_mol V (conformer_mol V e c).
Proof.
  intros [Hn [Ga [Gb _]]] Hl. unfold good_mol, conformer_mol. cbn [m_name m_atoms m_bonds].
  split; [exact Hn|]. split; [now apply conformer_atoms_good|].
  unfold lenN. rewrite map_length, (combine_length_eq _ _ Hl). exact Gb.
Qed.

Definition canon_cpos (c : cpos) : cpos := mk_cpos (c_x c) (c_y c) (c_z c) (canon_q (c_q c)).

Lemma conf_topology A : forall c, length c = length A ->
  map (fun a => (a_ty a, a_label a)) (map (norm_atom V true) (map cf (combine A c)))
  = map (fun p => (a_ty (norm_atom V true (al_atom p)), label_of V (al_atom p))) A.
Proof.
  induction A as [|al A IH]; intros c H; [reflexivity|]. destruct c as [|x c]; [discriminate|].
  cbn [combine map]. rewrite IH by (simpl in H; lia). reflexivity.
Qed.

Lemma conf_positions A : forall c, length c = length A ->
  map (@cpos_of V) (map (norm_atom V true) (map cf (combine A c))) = map canon_cpos c.
Proof.
  induction A as [|al A IH]; intros c H; destruct c as [|x c]; try discriminate; [reflexivity|].
  cbn [combine map]. rewrite IH by (simpl in H; lia). destruct x. reflexivity.
Qed.

Theorem read_ens_write_ens e : good_ens e -> read_ens V (write_ens V e) = Some (norm_ens V e).
Proof.
  intros G. pose proof G as [Hn [Ga [Gb [Hne Hl]]]]. unfold read_ens, write_ens.
  rewrite read_all_write_all.
  - destruct (e_confs e) as [|c0 cs] eqn:Ec; [now elim Hne|]. inversion Hl as [|x y Hc0 Hcs]; subst.
    unfold ens_of_mols. cbn [map].
    assert (Hlen : forallb (fun m : mol V => Nat.eqb (length (m_atoms m))
                     (length (m_atoms (norm V true (conformer_mol V e c0)))))
                   (norm V true (conformer_mol V e c0) :: map (norm V true) (map (conformer_mol V e) cs)) = true).
    { apply forallb_forall. intros m Hm. apply Nat.eqb_eq.
      assert (Hall : forall c, length c = length (e_atoms e) ->
                length (m_atoms (norm V true (conformer_mol V e c))) = length (e_atoms e)).
      { intros c Hc. unfold norm, conformer_mol. cbn [m_atoms]. now rewrite !map_length, combine_length_eq. }
      rewrite (Hall c0 Hc0). destruct Hm as [<-|Hm]; [now apply Hall|].
      rewrite map_map in Hm. apply in_map_iff in Hm. destruct Hm as [c [<- Hc]]. apply Hall.
      rewrite Forall_forall in Hcs. now apply Hcs. }
    rewrite Hlen. unfold norm_ens. rewrite Ec. f_equal. f_equal.
    + unfold norm at 1, conformer_mol at 1. cbn [m_atoms]. now apply conf_topology.
    + cbn [map]. f_equal.
      * unfold norm, conformer_mol. cbn [m_atoms]. now apply conf_positions.
      * rewrite !map_map. apply map_ext_in. intros c Hc. unfold norm, conformer_mol. cbn [m_atoms].
        apply conf_positions. rewrite Forall_forall in Hcs. now apply Hcs.
  - destruct (e_confs e); [now elim Hne|discriminate].
  - apply Forall_forall. intros m Hm. apply in_map_iff in Hm. destruct Hm as [c [<- Hc]].
    apply good_conformer; [exact G|]. rewrite Forall_forall in Hl. now apply Hl.
Qed.

(* the count and the order of the conformers, spelled out *)
Corollary ensemble_count_order e e' : good_ens e -> read_ens V (write_ens V e) = Some e' ->
  length (e_confs e') = length (e_confs e) /\
  forall k c, nth_error (e_confs e) k = Some c -> nth_error (e_confs e') k = Some (map canon_cpos c).
Proof.
  intros G H. rewrite read_ens_write_ens in H by exact G. injection H as <-. unfold norm_ens. cbn [e_confs].
  split; [now rewrite map_length|]. intros k c Hk. change (fun c0 : cpos => mk_cpos (c_x c0) (c_y c0) (c_z c0) (canon_q (c_q c0))) with canon_cpos.
  now rewrite nth_error_map, Hk.
Qed.
End Ensemble.

(* ---------------------------------------------------------------- views: the written object need not own its atoms *)
Section View.
Variable V : vocab.

(* pos_in is list.index: the position it returns holds the atom asked for, and lies inside the selection *)
Lemma pos_in_spec sel : forall i k0 k, pos_in i sel k0 = Some k ->
  k0 <= k /\ k < k0 + lenN sel /\ nth_error sel (N.to_nat (k - k0)) = Some i.
Proof.
  induction sel as [|j r IH]; intros i k0 k H; simpl in H; [discriminate|].
  rewrite lenN_cons. destruct (i =? j) eqn:E.
  - injection H as <-. apply N.eqb_eq in E. subst j. split; [lia|]. split; [lia|]. rewrite N.sub_diag. reflexivity.
  - destruct (IH _ _ _ H) as [H1 [H2 H3]]. split; [lia|]. split; [lia|].
    replace (N.to_nat (k - k0)) with (S (N.to_nat (k - N.succ k0))) by lia. exact H3.
Qed.

Lemma pos_in_nthN sel i k : pos_in i sel 0 = Some k -> k < lenN sel /\ nthN sel k = Some i.
Proof.
  intros H. destruct (pos_in_spec sel i 0 k H) as [_ [H2 H3]]. split; [lia|]. unfold nthN.
  now rewrite N.sub_0_r in H3.
Qed.

Lemma pos_in_complete sel : forall i k0, In i sel -> exists k, pos_in i sel k0 = Some k.
Proof.
  induction sel as [|j r IH]; intros i k0 Hin; [destruct Hin|]. simpl. destruct (i =? j) eqn:E; [eauto|].
  destruct Hin as [->|Hin]; [rewrite N.eqb_refl in E; discriminate|]. now apply IH.
Qed.

(* ... the FIRST such position *)
Lemma pos_in_first sel : forall i k0 k, pos_in i sel k0 = Some k ->
  forall n, (n < N.to_nat (k - k0))%nat -> nth_error sel n <> Some i.
Proof.
  induction sel as [|j r IH]; intros i k0 k H n Hn; simpl in H; [discriminate|].
  destruct (i =? j) eqn:E.
  - injection H as <-. lia.
  - destruct n as [|n]; simpl.
    + intros Hj. injection Hj as ->. rewrite N.eqb_refl in E. discriminate.
    + apply (IH _ _ _ H). destruct (pos_in_spec r i (N.succ k0) k H) as [H1 _]. lia.
Qed.

Lemma pick_spec {A} (l : list A) sel : wf_sel (lenN l) sel = true ->
  length (pick l sel) = length sel /\ forall k i, nth_error sel k = Some i -> nth_error (pick l sel) k = nthN l i.
Proof.
  unfold wf_sel. induction sel as [|j r IH]; intros H; [split; [reflexivity|intros [|k] i Hk; discriminate]|].
  simpl in H. apply andb_prop in H. destruct H as [Hj Hr]. apply N.ltb_lt in Hj.
  destruct (nthN_lt l j Hj) as [a Ha]. destruct (IH Hr) as [IH1 IH2]. simpl. rewrite Ha. split; [simpl; now rewrite IH1|].
  intros [|k] i Hk; simpl in Hk |- *; [injection Hk as <-; now rewrite Ha|now apply IH2].
Qed.

Lemma pick_Forall {A} (P : A -> Prop) (l : list A) sel : Forall P l -> Forall P (pick l sel).
Proof.
  intros H. induction sel as [|j r IH]; [constructor|]. simpl. destruct (nthN l j) eqn:E; [|exact IH].
  constructor; [|exact IH]. rewrite Forall_forall in H. apply H. now apply nthN_In in E.
Qed.

Lemma view_bonds_In sel (bs : list (bond V)) b' : In b' (view_bonds V sel bs) <-> exists b, In b bs /\ view_bond V sel b = Some b'.
Proof.
  induction bs as [|b r IH]; simpl; [split; [tauto|intros [b [[] _]]]|].
  destruct (view_bond V sel b) as [b1|] eqn:E.
  - simpl. rewrite IH. split.
    + intros [<-|[b0 [Hin Hv]]]; [exists b; auto|exists b0; auto].
    + intros [b0 [[<-|Hin] Hv]]; [left; congruence|right; eauto].
  - rewrite IH. split.
    + intros [b0 [Hin Hv]]. exists b0. auto.
    + intros [b0 [[<-|Hin] Hv]]; [congruence|eauto].
Qed.

(* the ends of a bond of the view are positions of the view, holding the very atoms the parent's bond joins *)
Lemma view_bond_spec sel (b b' : bond V) : view_bond V sel b = Some b' ->
  b_a1 b' < lenN sel /\ b_a2 b' < lenN sel /\ nthN sel (b_a1 b') = Some (b_a1 b) /\ nthN sel (b_a2 b') = Some (b_a2 b)
  /\ b_ty b' = b_ty b.
Proof.
  unfold view_bond. destruct (pos_in (b_a1 b) sel 0) as [i|] eqn:E1; [|discriminate].
  destruct (pos_in (b_a2 b) sel 0) as [j|] eqn:E2; [|discriminate]. intros H. injection H as <-. cbn [b_a1 b_a2 b_ty].
  destruct (pos_in_nthN _ _ _ E1) as [L1 N1]. destruct (pos_in_nthN _ _ _ E2) as [L2 N2]. auto.
Qed.

Lemma view_bond_complete sel (b : bond V) : In (b_a1 b) sel -> In (b_a2 b) sel -> exists b', view_bond V sel b = Some b'.
Proof.
  intros H1 H2. unfold view_bond. destruct (pos_in_complete sel _ 0 H1) as [i ->]. destruct (pos_in_complete sel _ 0 H2) as [j ->]. eauto.
Qed.

(* a view of a well-formed molecule is a well-formed molecule: whatever subset, whatever order *)
Lemma good_view nm (m : mol V) sel : good_mol V m -> wf_name nm = true -> wf_sel (lenN (m_atoms m)) sel = true ->
  good_mol V (sub_view V nm m sel).
Proof.
  intros [_ [Ga Gb]] Hn Hs. unfold good_mol, sub_view. cbn [m_name m_atoms m_bonds]. split; [exact Hn|]. split; [now apply pick_Forall|].
  destruct (pick_spec (m_atoms m) sel Hs) as [Hlen _].
  apply Forall_forall. intros b' Hb'. apply view_bonds_In in Hb'. destruct Hb' as [b [Hin Hv]].
  rewrite Forall_forall in Gb. destruct (Gb b Hin) as [_ [Gt Gs]].
  destruct (view_bond_spec sel b b' Hv) as [L1 [L2 [_ [_ Ety]]]].
  unfold good_bond. rewrite Ety. split; [|split; [exact Gt|exact Gs]].
  unfold wf_bond, lenN. rewrite Hlen. apply andb_true_intro. split; apply N.ltb_lt; [exact L1|exact L2].
Qed.

Variable wq : bool.

Theorem view_roundtrip nm m sel : good_mol V m -> wf_name nm = true -> wf_sel (lenN (m_atoms m)) sel = true ->
  read V wq (write V wq (sub_view V nm m sel)) = Some (norm V wq (sub_view V nm m sel)).
Proof. intros G Hn Hs. apply read_write. now apply good_view. Qed.

(* in the words of the property, for the object that was written: the atoms read back are the picked atoms in the
   order picked; every bond read back joins the positions (in the view) of the two atoms the parent's bond
   joins; no bond of the parent between two picked atoms is lost *)
Theorem view_preserved nm m sel m' : good_mol V m -> wf_name nm = true -> wf_sel (lenN (m_atoms m)) sel = true ->
  read V wq (write V wq (sub_view V nm m sel)) = Some m' ->
  m_name m' = nm
  /\ length (m_atoms m') = length sel
  /\ (forall k i, nth_error sel k = Some i -> nth_error (m_atoms m') k = option_map (norm_atom V wq) (nthN (m_atoms m) i))
  /\ m_bonds m' = map (norm_bond V) (view_bonds V sel (m_bonds m))
  /\ (forall b', In b' (m_bonds m') -> exists b, In b (m_bonds m)
        /\ nthN sel (b_a1 b') = Some (b_a1 b) /\ nthN sel (b_a2 b') = Some (b_a2 b))
  /\ (forall b, In b (m_bonds m) -> In (b_a1 b) sel -> In (b_a2 b) sel -> exists b', In b' (m_bonds m')
        /\ nthN sel (b_a1 b') = Some (b_a1 b) /\ nthN sel (b_a2 b') = Some (b_a2 b)).
Proof.
  intros G Hn Hs Hr. rewrite (view_roundtrip nm m sel G Hn Hs) in Hr. injection Hr as <-.
  destruct (pick_spec (m_atoms m) sel Hs) as [Hlen Hnth].
  unfold norm, sub_view. cbn [m_name m_atoms m_bonds]. split; [reflexivity|]. split; [now rewrite map_length|].
  split; [|split; [reflexivity|split]].
  - intros k i Hk. rewrite nth_error_map, (Hnth k i Hk). reflexivity.
  - intros b' Hb'. apply in_map_iff in Hb'. destruct Hb' as [b1 [<- Hb1]]. apply view_bonds_In in Hb1.
    destruct Hb1 as [b [Hin Hv]]. destruct (view_bond_spec sel b b1 Hv) as [_ [_ [N1 [N2 _]]]].
    exists b. unfold norm_bond. cbn [b_a1 b_a2]. auto.
  - intros b Hin H1 H2. destruct (view_bond_complete sel b H1 H2) as [b1 Hv].
    exists (norm_bond V b1). split; [apply in_map; apply view_bonds_In; eauto|].
    destruct (view_bond_spec sel b b1 Hv) as [_ [_ [N1 [N2 _]]]]. unfold norm_bond. cbn [b_a1 b_a2]. auto.
Qed.

End View.

(* ================================================================== Part C: the real vocabulary *)
Definition wf_real_mol (m : mol RV) : bool :=
  wf_mol RV m && forallb (fun a : atom RV => in_dom (a_ty a)) (m_atoms m)
  && forallb (fun b : bond RV => b_ty b <? n_btype) (m_bonds m).
Definition wf_real_ens (e : ens RV) : bool :=
  wf_ens RV e && forallb (fun p : triple * str => in_dom (fst p)) (e_atoms e)
  && forallb (fun b : bond RV => b_ty b <? n_btype) (e_bonds e).

Lemma in_dom_lt e t g : in_dom (e, t, g) = true -> e < n_elt /\ t < n_atype /\ g < n_geom.
Proof.
  unfold in_dom. intros H. apply andb_prop in H. destruct H as [H Hg]. apply andb_prop in H. destruct H as [He Ht].
  apply N.ltb_lt in He, Ht, Hg. auto.
Qed.

Lemma types_accb_wf : types_accb = true -> vocab_wf.
Proof. unfold types_accb. intros H. apply andb_prop in H. destruct H as [W _]. now apply vocab_wfb_sound. Qed.

Lemma pyws_bound c : pyws c = true -> c <= 12288.
Proof.
  unfold pyws. intros H. repeat (apply orb_prop in H; destruct H as [H|H]);
  repeat (apply andb_prop in H; destruct H as [H ?]);
  repeat match goal with X : (_ <=? _) = true |- _ => apply N.leb_le in X | X : (_ =? _) = true |- _ => apply N.eqb_eq in X end; lia.
Qed.

Section Real.
Hypothesis Hacc : types_accb = true.
Hypothesis Hbond : bonds_okb = true.
Hypothesis Hspec : bond_spec_okb = true.

Lemma real_vocab_wf : vocab_wf.
Proof. exact (types_accb_wf Hacc). Qed.

Lemma real_good_atom (a : atom RV) : wf_label (a_label a) = true -> in_dom (a_ty a) = true -> good_atom RV a.
Proof.
  intros Hl Hd. destruct (a_ty a) as [[e t] g] eqn:Ety. destruct (in_dom_lt _ _ _ Hd) as [He [Ht Hg]].
  destruct (types_acc_sound Hacc e t g He Ht Hg) as [a' [Hs [_ [_ Htok]]]].
  unfold good_atom. rewrite Ety. cbn [V_get V_set V_sym RV real_vocab]. split; [exact Hl|]. split; [exact Htok|].
  split; [apply sym_tok; [exact real_vocab_wf|exact Hd]|]. exists a'. exact Hs.
Qed.

Lemma real_good_bond na (b : bond RV) : wf_bond RV na b = true -> b_ty b < n_btype -> good_bond RV na b.
Proof.
  intros Hw Hb. destruct (bonds_ok_sound Hbond _ Hb) as [b' [Hs [_ [_ Htok]]]].
  unfold good_bond. cbn [V_bget V_bset RV real_vocab]. split; [exact Hw|]. split; [exact Htok|]. exists b'. exact Hs.
Qed.

Lemma real_good_mol m : wf_real_mol m = true -> good_mol RV m.
Proof.
  unfold wf_real_mol, wf_mol. intros H. apply andb_prop in H. destruct H as [H Hb]. apply andb_prop in H.
  destruct H as [H Hd]. apply andb_prop in H. destruct H as [H Hwb]. apply andb_prop in H. destruct H as [Hn Hl].
  rewrite forallb_forall in Hb, Hd, Hwb, Hl. split; [exact Hn|]. split.
  - apply Forall_forall. intros a Ha. apply real_good_atom; [exact (Hl a Ha)|exact (Hd a Ha)].
  - apply Forall_forall. intros b Hin. apply real_good_bond; [exact (Hwb b Hin)|]. apply N.ltb_lt. exact (Hb b Hin).
Qed.

Lemma real_good_ens e : wf_real_ens e = true -> good_ens RV e.
Proof.
  unfold wf_real_ens, wf_ens. intros H. apply andb_prop in H. destruct H as [H Hb]. apply andb_prop in H.
  destruct H as [H Hd]. apply andb_prop in H. destruct H as [H Hlen]. apply andb_prop in H. destruct H as [H Hne].
  apply andb_prop in H. destruct H as [H Hwb]. apply andb_prop in H. destruct H as [Hn Hl].
  rewrite forallb_forall in Hb, Hd, Hwb, Hl, Hlen. split; [exact Hn|]. split; [|split; [|split]].
  - apply Forall_forall. intros p Hp. apply real_good_atom; cbn [al_atom a_label a_ty]; [exact (Hl p Hp)|exact (Hd p Hp)].
  - apply Forall_forall. intros b Hin. apply real_good_bond; [exact (Hwb b Hin)|]. apply N.ltb_lt. exact (Hb b Hin).
  - destruct (e_confs e); [discriminate Hne|discriminate].
  - apply Forall_forall. intros c Hc. apply Nat.eqb_eq. exact (Hlen c Hc).
Qed.

Theorem real_roundtrip wq m : wf_real_mol m = true -> read RV wq (write RV wq m) = Some (norm RV wq m).
Proof. intros H. apply read_write. now apply real_good_mol. Qed.

Theorem real_roundtrip_all wq ms : ms <> [] -> Forall (fun m => wf_real_mol m = true) ms ->
  read_all RV wq (write_all RV wq ms) = Some (map (norm RV wq) ms).
Proof.
  intros Hne H. apply read_all_write_all; [exact Hne|]. eapply Forall_impl; [|exact H]. apply real_good_mol.
Qed.

Theorem real_ensemble e : wf_real_ens e = true -> read_ens RV (write_ens RV e) = Some (norm_ens RV e).
Proof. intros H. apply read_ens_write_ens. now apply real_good_ens. Qed.

(* what `norm` keeps, spelled out in the words of the property *)
Lemma fx_val_canon q : fx_val (canon_q q) = fx_val q.
Proof.
  destruct q as [n m]. unfold canon_q, fx_val. cbn [fneg fmag]. destruct (m =? 0) eqn:E; [|reflexivity].
  apply N.eqb_eq in E. subst m. destruct n; reflexivity.
Qed.

Theorem real_preserved wq m m' : wf_real_mol m = true -> read RV wq (write RV wq m) = Some m' ->
  m_name m' = m_name m
  /\ length (m_atoms m') = length (m_atoms m)
  /\ (forall i a, nth_error (m_atoms m) i = Some a ->
        exists a', nth_error (m_atoms m') i = Some a'
          /\ elt_of (a_ty a') = elt_of (a_ty a)
          /\ (a_label a <> [] -> a_label a' = a_label a)
          /\ a_x a' = a_x a /\ a_y a' = a_y a /\ a_z a' = a_z a
          /\ (wq = true -> fx_val (a_q a') = fx_val (a_q a)))
  /\ length (m_bonds m') = length (m_bonds m)
  /\ (forall k b, nth_error (m_bonds m) k = Some b ->
        exists b', nth_error (m_bonds m') k = Some b' /\ b_a1 b' = b_a1 b /\ b_a2 b' = b_a2 b
          /\ (forall name tk, In (name, tk) bond_spec ->
                pos_of name btype_names 0 = Some (b_ty b) -> b_ty b' = b_ty b)).
Proof.
  intros Hwf Hr. rewrite (real_roundtrip wq m Hwf) in Hr. injection Hr as <-.
  pose proof (real_good_mol m Hwf) as [_ [Ga _]].
  unfold norm. cbn [m_name m_atoms m_bonds]. split; [reflexivity|]. split; [now rewrite map_length|].
  split; [|split; [now rewrite map_length|]].
  - intros i a Hi. exists (norm_atom RV wq a). split; [now rewrite nth_error_map, Hi|].
    assert (G : good_atom RV a) by (rewrite Forall_forall in Ga; apply Ga; eapply nth_error_In; eauto).
    pose proof (type_of_eq RV a G) as Et.
    unfold wf_real_mol in Hwf. apply andb_prop in Hwf. destruct Hwf as [Hwf _]. apply andb_prop in Hwf.
    destruct Hwf as [_ Hd]. rewrite forallb_forall in Hd. specialize (Hd a (nth_error_In _ _ Hi)).
    unfold norm_atom. cbn [a_ty a_label a_x a_y a_z a_q]. rewrite Et. cbn [V_get V_set RV real_vocab].
    destruct (a_ty a) as [[e t] g] eqn:Ety. destruct (in_dom_lt _ _ _ Hd) as [He [Ht Hg]].
    destruct (types_acc_sound Hacc e t g He Ht Hg) as [a1 [Hs [Hel _]]]. rewrite Hs.
    split; [exact Hel|]. split.
    + intros Hne. unfold label_of. now apply or_sym_nonempty.
    + repeat split; try reflexivity. intros ->. apply fx_val_canon.
  - intros k b Hk. exists (norm_bond RV b). split; [now rewrite nth_error_map, Hk|].
    unfold norm_bond. cbn [b_a1 b_a2 b_ty]. repeat split; try reflexivity.
    intros name tk Hin Hpos. destruct (bond_spec_sound Hspec name tk Hin) as [b0 [Hp [Hg Hs]]].
    rewrite Hpos in Hp. injection Hp as <-. cbn [V_bget V_bset RV real_vocab]. now rewrite Hg, Hs.
Qed.
(* views (Substructure, a conformer taken out of its ensemble): the written object need not own its atoms *)
Theorem real_view_roundtrip wq nm m sel : wf_real_mol m = true -> wf_name nm = true -> wf_sel (lenN (m_atoms m)) sel = true ->
  read RV wq (write RV wq (sub_view RV nm m sel)) = Some (norm RV wq (sub_view RV nm m sel)).
Proof. intros H Hn Hs. apply view_roundtrip; [now apply real_good_mol|exact Hn|exact Hs]. Qed.

Theorem real_view_preserved wq nm m sel m' : wf_real_mol m = true -> wf_name nm = true -> wf_sel (lenN (m_atoms m)) sel = true ->
  read RV wq (write RV wq (sub_view RV nm m sel)) = Some m' ->
  m_name m' = nm
  /\ length (m_atoms m') = length sel
  /\ (forall k i, nth_error sel k = Some i -> nth_error (m_atoms m') k = option_map (norm_atom RV wq) (nthN (m_atoms m) i))
  /\ m_bonds m' = map (norm_bond RV) (view_bonds RV sel (m_bonds m))
  /\ (forall b', In b' (m_bonds m') -> exists b, In b (m_bonds m)
        /\ nthN sel (b_a1 b') = Some (b_a1 b) /\ nthN sel (b_a2 b') = Some (b_a2 b))
  /\ (forall b, In b (m_bonds m) -> In (b_a1 b) sel -> In (b_a2 b) sel -> exists b', In b' (m_bonds m')
        /\ nthN sel (b_a1 b') = Some (b_a1 b) /\ nthN sel (b_a2 b') = Some (b_a2 b)).
Proof. intros H Hn Hs. apply view_preserved; [now apply real_good_mol|exact Hn|exact Hs]. Qed.

Theorem real_conformer_roundtrip e k c : wf_real_ens e = true -> nthN (e_confs e) k = Some c ->
  read RV true (write RV true (conformer_mol RV e c)) = Some (norm RV true (conformer_mol RV e c)).
Proof.
  intros H Hk. pose proof (real_good_ens e H) as G. apply read_write. apply good_conformer; [exact G|].
  destruct G as [_ [_ [_ [_ Hl]]]]. rewrite Forall_forall in Hl. apply Hl. now apply nthN_In in Hk.
Qed.
End Real.

Section RealFixed.
Hypothesis Hacc : types_accb = true.
Hypothesis Hok : types_okb = true.
Hypothesis Hbond : bonds_okb = true.

Theorem real_text_fixed_point wq m : wf_real_mol m = true ->
  (wq = true -> forallb (fun a => negb (neg_zero (a_q a))) (m_atoms m) = true) ->
  write RV wq (norm RV wq m) = write RV wq m.
Proof.
  intros Hwf Hq. pose proof (real_good_mol Hacc Hbond m Hwf) as G.
  unfold wf_real_mol in Hwf. apply andb_prop in Hwf. destruct Hwf as [Hwf Hb]. apply andb_prop in Hwf.
  destruct Hwf as [_ Hd]. rewrite forallb_forall in Hd, Hb.
  apply text_fixed_point; [exact G| | |exact Hq].
  - apply Forall_forall. intros a Ha. unfold fix_atom. cbn [V_get V_set RV real_vocab]. intros t' Hs.
    specialize (Hd a Ha). destruct (a_ty a) as [[e t] g]. destruct (in_dom_lt _ _ _ Hd) as [He [Ht Hg]].
    exact (types_ok_sound Hok e t g He Ht Hg t' Hs).
  - apply Forall_forall. intros b Hin. unfold fix_bond. cbn [V_bget V_bset RV real_vocab]. intros t' Hs.
    specialize (Hb b Hin). apply N.ltb_lt in Hb. destruct (bonds_ok_sound Hbond _ Hb) as [b' [Hs' [_ [Hg _]]]].
    rewrite Hs in Hs'. injection Hs' as ->. exact Hg.
Qed.
End RealFixed.
