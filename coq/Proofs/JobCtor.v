(* C17 -- lemmas about Model/JobCtor.v (the driver constructor in front of the binding model) *)
From Coq Require Import List Bool NArith ZArith String Ascii Lia Arith.
Import ListNotations.
From Molli Require Import Model.Job Model.JobCtor Proofs.Job.
Local Open Scope string_scope.

(* ------------------------------------------------------------------ the lookup *)
Lemma which_abs w n : has_slash n = true -> which w n = if is_exe w n then Some n else None.
Proof. intro H. unfold which. now rewrite H. Qed.

Lemma find_split {A} (f : A -> bool) l x : find f l = Some x ->
  exists l1 l2, l = (l1 ++ x :: l2)%list /\ f x = true /\ forall y, In y l1 -> f y = false.
Proof.
  induction l as [|a r IH]; simpl; [discriminate|].
  destruct (f a) eqn:E; intro H.
  - injection H as <-. exists [], r. repeat split; [exact E|intros y []].
  - destruct (IH H) as (l1 & l2 & -> & Hx & Hl). exists (a :: l1), l2. repeat split; [exact Hx|].
    intros y [<-|Hy]; [exact E|now apply Hl].
Qed.

(* a bare name resolves to the FIRST directory of PATH that holds an executable of that name *)
Lemma which_bare w n p : has_slash n = false -> which w n = Some p ->
  exists l1 d l2, w_path w = (l1 ++ d :: l2)%list /\ p = join d n /\ is_exe w p = true
                  /\ forall d', In d' l1 -> is_exe w (join d' n) = false.
Proof.
  intros Hs H. unfold which in H. rewrite Hs in H.
  destruct (find (fun d => is_exe w (join d n)) (w_path w)) as [d|] eqn:E; [|discriminate].
  injection H as <-. destruct (find_split _ _ _ E) as (l1 & l2 & Hp & Hx & Hl).
  exists l1, d, l2. repeat split; assumption.
Qed.

Lemma which_bare_none w n : has_slash n = false -> which w n = None ->
  forall d, In d (w_path w) -> is_exe w (join d n) = false.
Proof.
  intros Hs H d Hd. unfold which in H. rewrite Hs in H.
  destruct (find (fun d => is_exe w (join d n)) (w_path w)) as [d0|] eqn:E; [discriminate|].
  exact (find_none _ _ E d Hd).
Qed.

(* whatever is located is an executable file of the world *)
Lemma which_exe w n p : which w n = Some p -> is_exe w p = true.
Proof.
  destruct (has_slash n) eqn:Hs; intro H.
  - rewrite (which_abs w n Hs) in H. destruct (is_exe w n) eqn:E; [|discriminate]. now injection H as <-.
  - destruct (which_bare w n p Hs H) as (_ & _ & _ & _ & _ & Hx & _). exact Hx.
Qed.

(* ------------------------------------------------------------------ the constructor *)
(* an accepted instance carries what IT was given: its own name (or the class default) as located in the world, its
   own processor count, memory and environment *)
Theorem construct_reflects_args w dflt a s : construct w dflt a = COk s ->
  s_nprocs s = Some (match a_nprocs a with Some n => n | None => 1%N end) /\ s_mem s = a_mem a /\ s_env s = a_env a
  /\ (a_check a = false -> s_exe s = wanted dflt a)
  /\ (a_check a = true -> exists e p, wanted dflt a = Some e /\ which w e = Some p
                                     /\ s_exe s = Some (if a_find a then p else e)).
Proof.
  unfold construct, construct_with. destruct (a_check a) eqn:Hc.
  - destruct (wanted dflt a) as [e|] eqn:Hr; [|discriminate].
    destruct (which w e) as [p|] eqn:Hw; [|discriminate].
    intro H. injection H as <-. cbn. repeat split; try discriminate.
    intros _. exists e, p. now repeat split.
  - destruct (a_find a); [discriminate|]. intro H. injection H as <-. cbn. repeat split; try discriminate.
Qed.

Theorem construct_refused_iff w dflt a e : a_check a = true -> wanted dflt a = Some e ->
  (construct w dflt a = CRefused <-> which w e = None).
Proof.
  intros Hc Hr. unfold construct, construct_with. rewrite Hc, Hr.
  destruct (which w e) as [p|]; split; intro H; try discriminate; reflexivity.
Qed.

(* with the lookup off nothing is looked up: the constructor is the same function whatever `which` does *)
Lemma construct_without_lookup look1 look2 dflt a : a_check a = false ->
  construct_with look1 dflt a = construct_with look2 dflt a.
Proof. intro Hc. unfold construct_with. now rewrite Hc. Qed.

(* ------------------------------------------------------------------ histories *)
Lemma brun_snd_app m evs1 : forall st evs2,
  snd (brun m st (evs1 ++ evs2)) = (snd (brun m st evs1) ++ snd (brun m (fst (brun m st evs1)) evs2))%list.
Proof.
  induction evs1 as [|ev r IH]; intros st evs2; simpl; [reflexivity|].
  destruct (bstep m st ev) as [st1 o] eqn:E1.
  specialize (IH st1 evs2).
  destruct (brun m st1 (r ++ evs2)) as [st2 os] eqn:E2.
  destruct (brun m st1 r) as [st3 os3] eqn:E3. simpl in *. now rewrite IH.
Qed.

(* the model with constructor calls IS the model of Model/Job.v run on the elaborated history *)
Theorem crun_fresh_elab w cl evs : forall st,
  cs_b (fst (crun LFresh w cl st evs)) = fst (brun MCopy (cs_b st) (elab w cl evs))
  /\ b_obs (snd (crun LFresh w cl st evs)) = snd (brun MCopy (cs_b st) (elab w cl evs))
  /\ cs_memo (fst (crun LFresh w cl st evs)) = cs_memo st.
Proof.
  induction evs as [|ev r IH]; intro st; [now repeat split|].
  unfold elab. cbn [flat_map crun]. fold (elab w cl r).
  rewrite brun_app, brun_snd_app.
  destruct (cstep LFresh w cl st ev) as [st1 o] eqn:E1.
  destruct (crun LFresh w cl st1 r) as [st2 os] eqn:E2.
  destruct (IH st1) as (Ha & Hb & Hc). rewrite E2 in Ha, Hb, Hc. cbn [fst snd] in *.
  assert (H1 : cs_b st1 = fst (brun MCopy (cs_b st) (elab1 w cl ev))
               /\ b_obs [o] = snd (brun MCopy (cs_b st) (elab1 w cl ev)) /\ cs_memo st1 = cs_memo st).
  { destruct ev as [i k a|e]; cbn [cstep elab1] in *.
    - destruct (nget k cl) as [[dflt cattrs]|]; [|injection E1 as <- <-; now repeat split].
      change (construct_with (look_m LFresh w (cs_memo st) k) dflt a) with (construct w dflt a) in E1.
      cbn [memo_after] in E1.
      destruct (construct w dflt a) as [s| |]; injection E1 as <- <-; now repeat split.
    - destruct (bstep MCopy (cs_b st) e) as [b ob] eqn:E. injection E1 as <- <-. cbn. now rewrite E. }
  destruct H1 as (H1a & H1b & H1c). rewrite <- H1a. repeat split.
  - exact Ha.
  - change (o :: os) with ([o] ++ os)%list. unfold b_obs in *. rewrite flat_map_app.
    now rewrite H1b, Hb.
  - congruence.
Qed.

(* the event (re)defines the attributes of driver i *)
Definition sets (i : N) (ev : bevent) : bool :=
  match ev with BCreate j _ _ | BSet j _ => N.eqb i j | _ => false end.
Definition retouches (i : N) (ev : cevent) : bool :=
  match ev with CNew j _ _ => N.eqb i j | CEv e => sets i e end.

Lemma bstep_keeps_driver i st ev : sets i ev = false ->
  nget i (bs_drivers (fst (bstep MCopy st ev))) = nget i (bs_drivers st).
Proof.
  intro Hc. destruct ev as [j c s|j s|j|j|j h|j h|h]; simpl in *; try apply N.eqb_neq in Hc.
  - now apply nget_nset_other.
  - destruct (nget j (bs_drivers st)) as [[c0 s0]|]; simpl; [now apply nget_nset_other|reflexivity].
  - destruct (nget j (bs_drivers st)) as [[c0 s0]|]; reflexivity.
  - destruct (nget j (bs_drivers st)) as [[c0 s0]|]; reflexivity.
  - destruct (nget j (bs_drivers st)) as [[c0 s0]|]; reflexivity.
  - destruct (nget j (bs_drivers st)) as [[c0 s0]|]; reflexivity.
  - reflexivity.
Qed.

Lemma brun_keeps_driver i evs : forall st, forallb (fun ev => negb (sets i ev)) evs = true ->
  nget i (bs_drivers (fst (brun MCopy st evs))) = nget i (bs_drivers st).
Proof.
  induction evs as [|ev r IH]; intros st Hall; simpl; [reflexivity|].
  simpl in Hall. apply andb_true_iff in Hall. destruct Hall as [H1 H2]. apply negb_true_iff in H1.
  destruct (bstep MCopy st ev) as [st1 o] eqn:E1. destruct (brun MCopy st1 r) as [st2 os] eqn:E2. simpl.
  specialize (IH st1 H2). rewrite E2 in IH. simpl in IH. rewrite IH.
  pose proof (bstep_keeps_driver i st ev H1) as A. now rewrite E1 in A.
Qed.

Lemma elab_keeps w cl i evs : forallb (fun ev => negb (retouches i ev)) evs = true ->
  forallb (fun ev => negb (sets i ev)) (elab w cl evs) = true.
Proof.
  induction evs as [|ev r IH]; intro Hall; [reflexivity|].
  simpl in Hall. apply andb_true_iff in Hall. destruct Hall as [H1 H2].
  unfold elab. cbn [flat_map]. fold (elab w cl r). rewrite forallb_app, (IH H2), andb_true_r.
  destruct ev as [j k a|e]; cbn [elab1 retouches] in *.
  - destruct (nget k cl) as [[dflt cattrs]|]; [|reflexivity].
    destruct (construct w dflt a); [|reflexivity|reflexivity]. cbn. now rewrite H1.
  - cbn. now rewrite H1.
Qed.

Lemma elab_app w cl evs1 evs2 : elab w cl (evs1 ++ evs2) = (elab w cl evs1 ++ elab w cl evs2)%list.
Proof. apply flat_map_app. Qed.

(* the driver table after `... ; d_i = Class_k(args) ; <anything that does not re-create or reassign d_i>` *)
Lemma ctor_driver_entry w cl decl evs1 i k a dflt cattrs s evs2 :
  nget k cl = Some (dflt, cattrs) -> construct w dflt a = COk s ->
  forallb (fun ev => negb (retouches i ev)) evs2 = true ->
  nget i (bs_drivers (fst (brun MCopy (binit decl) (elab w cl (evs1 ++ CNew i k a :: evs2))))) = Some (cattrs, s).
Proof.
  intros Hk Hc Hall.
  change (CNew i k a :: evs2) with ([CNew i k a] ++ evs2)%list.
  rewrite !elab_app, !brun_app.
  rewrite (brun_keeps_driver i _ _ (elab_keeps w cl i evs2 Hall)).
  unfold elab. cbn [flat_map elab1]. rewrite Hk, Hc. cbn. apply nget_nset_same.
Qed.

(* MAIN: whatever drivers were constructed, refused, reassigned, used or had their jobs kept before (evs1) and after
   (evs2: anything but re-creating / reassigning d_i itself) -- instances of the same class or of other classes, with
   any executables, found or not -- the job bound through d_i is the Job's declared settings resolved against the
   class attributes and what the constructor made of d_i's OWN arguments *)
Theorem ctor_use_value w cl decl evs1 i k a dflt cattrs s evs2 :
  nget k cl = Some (dflt, cattrs) -> construct w dflt a = COk s ->
  forallb (fun ev => negb (retouches i ev)) evs2 = true ->
  use_after decl (elab w cl (evs1 ++ CNew i k a :: evs2)) i = Some (bind decl cattrs s).
Proof. intros Hk Hc Hall. apply binding_value. now apply (ctor_driver_entry w cl decl evs1 i k a dflt). Qed.

(* ... i.e. what it is in the history that consists of this one constructor call *)
Theorem ctor_use_independent w cl decl evs1 i k a dflt cattrs s evs2 :
  nget k cl = Some (dflt, cattrs) -> construct w dflt a = COk s ->
  forallb (fun ev => negb (retouches i ev)) evs2 = true ->
  use_after decl (elab w cl (evs1 ++ CNew i k a :: evs2)) i = use_after decl (elab w cl [CNew i k a]) i.
Proof.
  intros Hk Hc Hall. rewrite (ctor_use_value w cl decl evs1 i k a dflt cattrs s evs2 Hk Hc Hall).
  symmetry. exact (ctor_use_value w cl decl [] i k a dflt cattrs s [] Hk Hc eq_refl).
Qed.

(* the same for a bound job obtained through d_i, kept in a variable and used later *)
Theorem ctor_held_value w cl decl evs1 i k a dflt cattrs s evs2 h evs3 :
  nget k cl = Some (dflt, cattrs) -> construct w dflt a = COk s ->
  forallb (fun ev => negb (retouches i ev)) evs2 = true ->
  forallb (fun ev => negb (obtains h ev)) evs3 = true ->
  held_after decl (elab w cl (evs1 ++ CNew i k a :: evs2) ++ BGet i h :: evs3) h = Some (bind decl cattrs s).
Proof.
  intros Hk Hc Hall Hh. apply held_value; [|exact Hh]. now apply (ctor_driver_entry w cl decl evs1 i k a dflt).
Qed.

(* a refused constructor call leaves no trace *)
Theorem ctor_refused_no_trace w cl evs1 i k a dflt cattrs evs2 :
  nget k cl = Some (dflt, cattrs) -> construct w dflt a = CRefused ->
  elab w cl (evs1 ++ CNew i k a :: evs2) = elab w cl (evs1 ++ evs2).
Proof.
  intros Hk Hc. change (CNew i k a :: evs2) with ([CNew i k a] ++ evs2)%list. rewrite !elab_app.
  unfold elab at 2. cbn [flat_map elab1]. now rewrite Hk, Hc.
Qed.

(* ------------------------------------------------------------------ the per-class memo *)
(* two instances of ONE class with different executables, both on PATH: the memoising variant hands the first one's
   program to the second instance, and lets a third instance with an unreachable executable through *)
Definition memo_world : world := mk_world ["/W/d1"; "/W/d2"] ["/W/d1/tool"; "/W/d2/tool"; "/W/d2/beta"].
Definition memo_witness : list cevent :=
  [CNew 0 0 (mk_cargs (Some "tool") (Some 4%N) None None true true);
   CNew 1 0 (mk_cargs (Some "beta") (Some 2%N) None None true true);
   CNew 2 0 (mk_cargs (Some "/W/nowhere/x") None None None true true);
   CEv (BUse 1); CEv (BUse 0)].
Lemma memo_refuted :
  let cl := [(0%N, (None, no_settings))] in
  snd (crun LMemoClass memo_world cl (cinit no_settings) memo_witness)
  = [ONew (COk (mk_settings (Some "/W/d1/tool") (Some 4%N) None None));
     ONew (COk (mk_settings (Some "/W/d1/tool") (Some 2%N) None None));
     ONew (COk (mk_settings (Some "/W/d1/tool") (Some 1%N) None None));
     OB (Some (mk_bound (Some "/W/d1/tool") 2 1000 [])); OB (Some (mk_bound (Some "/W/d1/tool") 4 1000 []))]
  /\ snd (crun LFresh memo_world cl (cinit no_settings) memo_witness)
  = [ONew (COk (mk_settings (Some "/W/d1/tool") (Some 4%N) None None));
     ONew (COk (mk_settings (Some "/W/d2/beta") (Some 2%N) None None));
     ONew CRefused;
     OB (Some (mk_bound (Some "/W/d2/beta") 2 1000 [])); OB (Some (mk_bound (Some "/W/d1/tool") 4 1000 []))].
Proof. split; reflexivity. Qed.

(* histories whose constructor calls all switch the lookup off (check_exe=False) cannot tell the memoising variant
   from the code -- which is why driver histories built that way do not test the lookup *)
Definition lookup_off (ev : cevent) : bool :=
  match ev with CNew _ _ a => negb (a_check a) | CEv _ => true end.
Theorem memo_invisible_without_lookup w cl evs : forall st,
  forallb lookup_off evs = true -> crun LMemoClass w cl st evs = crun LFresh w cl st evs.
Proof.
  induction evs as [|ev r IH]; intros st Hall; [reflexivity|].
  simpl in Hall. apply andb_true_iff in Hall. destruct Hall as [H1 H2].
  cbn [crun].
  assert (E : cstep LMemoClass w cl st ev = cstep LFresh w cl st ev).
  { destruct ev as [i k a|e]; [|reflexivity]. cbn [lookup_off] in H1. apply negb_true_iff in H1.
    cbn [cstep]. destruct (nget k cl) as [[dflt cattrs]|]; [|reflexivity].
    rewrite (construct_without_lookup (look_m LMemoClass w (cs_memo st) k) (look_m LFresh w (cs_memo st) k) dflt a H1).
    unfold memo_after. now rewrite H1. }
  rewrite E. destruct (cstep LFresh w cl st ev) as [st1 o]. now rewrite (IH st1 H2).
Qed.
