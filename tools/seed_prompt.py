#!/usr/bin/env python3
"""Prints the prompt for an independent mutant-writing agent for property Cxx (nothing from /verif is given to it
except the property text)."""
import json, sys
pid = sys.argv[1]; n = sys.argv[2] if len(sys.argv) > 2 else "3"
for l in open('/verif/properties.jsonl'):
    d = json.loads(l)
    if d['id'] == pid:
        break
wt = f"/tmp/seed_{pid}"
import glob, os
used = []
for mf in sorted(glob.glob(f'/verif/seeded/{pid}-m*/meta.json')):
    try: used.append(json.load(open(mf))['breaks'])
    except Exception: pass
used_txt = ""
if used:
    used_txt = "\n\nThese ideas were already used by earlier rounds; produce DIFFERENT ones (different code sites or different parts of the property):\n" + "\n".join("- " + u for u in used)
print(f"""You are helping to test a verification tool by writing realistic bugs. Work ONLY inside the git worktree {wt} (a checkout of the Python package SEDenmarkLab/molli, a cheminformatics toolbox; it also holds a copy of the compiled extension molli_xt*.so, which is untracked — leave it). Do not read or write anything under /verif or /repo. Run Python as: `cd {wt} && PYTHONPATH={wt} PYTHONWARNINGS=ignore MOLLI_HOME=/tmp/seedhome_{pid} /venv/bin/python ...`; the test suite is `cd {wt} && PYTHONPATH={wt} MOLLI_HOME=/tmp/seedhome_{pid} /venv/bin/python -m pytest -q -p no:cacheprovider --timeout=900` (81 tests pass, 4 known failures: test_conformer_to_lib, test_ensemble_lib, test_load_all, test_loads_all — some bundled data files are empty; openbabel/rdkit are not installed; no network). Always wrap anything that might hang in `timeout`.

The property under test (anchored in: {', '.join(d['anchors']['files'])}):
"{d['statement']}"
It is quantified: {d['quantifier']['text']}

Produce {n} different, independent code changes (mutants) to the package, each of which breaks this property while the package still imports and the same 81 tests still pass. Make them realistic slips a developer could make in a refactor or an 'optimisation', spread over different parts of the property, and make each need something specific to manifest (a particular interleaving, a crash or fault at a particular point, a multi-step sequence of operations, an unusual but legal input, a particular configuration, or two cooperating sites that each look fine alone) — not something ordinary use would expose at once.
For each mutant k write, under {wt}/out/m<k>/: `patch.diff` (output of `git diff` for that mutant alone, relative to the clean worktree HEAD, applicable with `git apply`), `demo.py` (a small standalone program that exits 0 on the clean code and exits non-zero with a clear message on the mutated code; it takes the package from PYTHONPATH and must finish within 60 s), and `note.txt` (which part of the property it breaks, what it needs in order to manifest). Verify each yourself: clean tree -> demo passes, 81 tests pass; with the patch -> demo fails, 81 tests still pass. Reset the worktree to clean (`git checkout -- .`) between mutants and at the end (the out/ directory is untracked and stays). Final answer: one line per mutant.""" + used_txt)
