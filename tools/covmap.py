#!/venv/bin/python
"""covmap.py Cxx [--tier quick]: run one property's check with line/branch coverage of the implementation
(coverage.py, also inside the worker processes the harness starts) and list, per anchored source file and per
function, the lines of molli that the correspondence run never executed.  Development tool: it measures how much of
the anchored code the H-tie actually exercises; an uncovered branch is code the model has not been compared with.
Writes /verif/coverage/Cxx.txt (+ .json summary).  Never used for a verdict."""
import sys, os, json, subprocess, shutil, ast, tempfile
VERIF = os.path.dirname(os.path.dirname(os.path.abspath(__file__)))
REPO = os.environ.get("MOLLI_REPO", "/repo")
pid = sys.argv[1]
tier = sys.argv[3] if len(sys.argv) > 3 and sys.argv[2] == "--tier" else "quick"
anchors = None
for l in open(os.path.join(VERIF, "properties.jsonl")):
    d = json.loads(l)
    if d["id"] == pid:
        anchors = [f for f in d["anchors"]["files"] if f.endswith(".py")]
work = tempfile.mkdtemp(prefix="cov_" + pid + "_", dir="/root/scratch" if os.path.isdir("/root/scratch") else None)
rc = os.path.join(work, "coveragerc")
open(rc, "w").write(f"[run]\nbranch = True\nparallel = True\ndata_file = {work}/.coverage\nsource = {REPO}/molli\n"
                    "sigterm = True\n")
os.makedirs(os.path.join(work, "site"))
open(os.path.join(work, "site", "sitecustomize.py"), "w").write(
    "import os\nif os.environ.get('COVERAGE_PROCESS_START'):\n    import coverage; coverage.process_startup()\n")
env = dict(os.environ, COVERAGE_PROCESS_START=rc, VERIF_COV_SITE=os.path.join(work, "site"),
           PYTHONPATH=os.path.join(work, "site"))
p = subprocess.run([os.path.join(VERIF, "check"), pid, "--tier", tier], env=env, stdout=subprocess.PIPE,
                   stderr=subprocess.STDOUT, text=True)
print(p.stdout[-1500:])
subprocess.run(["/venv/bin/python", "-m", "coverage", "combine", "--rcfile", rc, "-q"], cwd=work)
subprocess.run(["/venv/bin/python", "-m", "coverage", "json", "--rcfile", rc, "-q", "-o", os.path.join(work, "cov.json")], cwd=work)
cov = json.load(open(os.path.join(work, "cov.json")))
out = []
summ = {}
for a in anchors:
    key = None
    for k in cov["files"]:
        if k.endswith("/" + a) or k == a or k.endswith(a):
            key = k
    if key is None:
        out.append(f"## {a}: NOT IMPORTED"); summ[a] = None; continue
    f = cov["files"][key]
    miss = set(f["missing_lines"]); ex = set(f["executed_lines"])
    src = open(os.path.join(REPO, a)).read()
    tree = ast.parse(src); lines = src.split("\n")
    out.append(f"## {a}: {len(ex)}/{len(ex) + len(miss)} lines executed; missing branches {f['summary'].get('missing_branches')}")
    summ[a] = [len(ex), len(ex) + len(miss)]
    funcs = []
    def walk(n, pref):
        for c in ast.iter_child_nodes(n):
            if isinstance(c, (ast.FunctionDef, ast.AsyncFunctionDef)):
                funcs.append((pref + c.name, c.lineno, c.end_lineno)); walk(c, pref + c.name + ".")
            elif isinstance(c, ast.ClassDef):
                walk(c, pref + c.name + ".")
            else:
                walk(c, pref)
    walk(tree, "")
    for name, lo, hi in funcs:
        m = sorted(x for x in miss if lo <= x <= hi)
        e = [x for x in ex if lo <= x <= hi]
        if m:
            tag = "NEVER CALLED" if not [x for x in e if x > lo] else "partial"
            out.append(f"  {name} [{lo}-{hi}] {tag}: missing {m if len(m) < 25 else str(m[:25]) + '...'}")
            if tag == "partial":
                for x in m[:12]:
                    out.append(f"      {x}: {lines[x - 1].strip()[:110]}")
    br = f.get("missing_branches", [])
    if br:
        out.append(f"  missing branch arcs: {br[:60]}")
os.makedirs(os.path.join(VERIF, "coverage"), exist_ok=True)
open(os.path.join(VERIF, "coverage", pid + ".txt"), "w").write("\n".join(out) + "\n")
json.dump(summ, open(os.path.join(VERIF, "coverage", pid + ".json"), "w"))
print("\n".join(o for o in out if o.startswith("##")))
shutil.rmtree(work, ignore_errors=True)
