#!/bin/bash
# seedtest.sh <Cxx> <dir-with-m1..mk> : confirm each seeded change (demo passes clean / fails patched, baseline still 81)
# and run the property's quick check against the patched copy.  Copies live under /tmp and are removed.
pid=$1; src=$2
for m in $src/m*; do
  k=$(basename $m)
  d=/tmp/st_${pid}_$k
  rm -rf $d; cp -r /repo $d
  echo "=== $pid $k"
  ( cd $d && PYTHONPATH=$d PYTHONWARNINGS=ignore timeout 300 /venv/bin/python $m/demo.py >/dev/null 2>&1; echo "demo on clean: rc=$?" )
  ( cd $d && git apply $m/patch.diff ) || { echo "patch does not apply"; rm -rf $d; continue; }
  ( cd $d && PYTHONPATH=$d PYTHONWARNINGS=ignore timeout 300 /venv/bin/python $m/demo.py >/dev/null 2>&1; echo "demo on patched: rc=$?" )
  ( MOLLI_REPO=$d timeout 900 /verif/tools/baseline.sh | tail -1 )
  MOLLI_REPO=$d timeout 1500 /verif/check $pid > /tmp/st_${pid}_$k.log 2>&1
  echo "VIOLATION lines: $(grep -c '^VIOLATION' /tmp/st_${pid}_$k.log) (of which no-failing-input-found: $(grep '^VIOLATION' /tmp/st_${pid}_$k.log | grep -c 'no-failing-input-found'))"
  tail -3 /tmp/st_${pid}_$k.log; rm -f /tmp/st_${pid}_$k.log
  rm -rf $d
done
# restore Gen/ snapshots and evidence to the /repo state
timeout 1500 /verif/check $pid >/dev/null 2>&1; echo "restored Gen/evidence for $pid on /repo: rc=$?"
