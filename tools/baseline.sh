#!/bin/sh
# Runs the repository's pinned test suite (guard off) and prints pass/fail counts; exit 0 iff the 81 stable tests pass.
cd "${MOLLI_REPO:-/repo}" || exit 2
out=$(mktemp)
home=$(mktemp -d)     # private MOLLI_HOME: the suite's scratch directory is derived from it, so parallel runs do not collide
MOLLI_HOME="$home" /venv/bin/python -m pytest -ra -q -p no:cacheprovider --timeout=900 --continue-on-collection-errors --junitxml="$out.xml" > "$out" 2>&1
tail -8 "$out"
/venv/bin/python - "$out.xml" <<'PY'
import sys, json, xml.etree.ElementTree as ET
base = json.load(open('/root/.vp/BASELINE.json'))['stable_pass']
ok = set()
for tc in ET.parse(sys.argv[1]).getroot().iter('testcase'):
    if not any(ch.tag in ('failure','error','skipped') for ch in tc):
        ok.add(tc.get('classname') + '::' + tc.get('name'))
missing = [t for t in base if t not in ok]
print('stable tests passing: %d / %d' % (len(base) - len(missing), len(base)))
for m in missing: print('  NOT PASSING:', m)
sys.exit(1 if missing else 0)
PY
rc=$?
rm -rf "$out" "$out.xml" "$home"
exit $rc
