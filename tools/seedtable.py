#!/usr/bin/env python3
"""Prints the DESIGN.md §11 table rows for the seeded changes of one round: tools/seedtable.py <round> [Cxx ...]"""
import glob, json, os, sys
rnd = int(sys.argv[1]); only = set(sys.argv[2:])
one = lambda t, n: " ".join(str(t).split())[:n].replace("|", "/")
print("| seeded change | needs | result |\n|---|---|---|")
for p in sorted(glob.glob(os.path.join(os.path.dirname(__file__), "..", "seeded", "*", "meta.json"))):
    m = json.load(open(p)); sid = os.path.basename(os.path.dirname(p))
    if m.get("round") != rnd or (only and sid.split("-")[0] not in only):
        continue
    res = m.get("check_result", "")
    if res.startswith("missed") or res.startswith("harness crashed"):
        res = "**" + res.split(" ", 1)[0] + "** " + res.split(" ", 1)[1] if " " in res else res
    print(f"| {sid} {one(m.get('breaks', ''), 110)} | {one(m.get('needs_to_manifest', ''), 170)} | {one(res, 600)} |")
