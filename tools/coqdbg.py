#!/usr/bin/env python3
"""coqdbg.py FILE LINE : compile FILE truncated after LINE (1-based) and show the open goals there."""
import sys, subprocess, os
f, line = sys.argv[1], int(sys.argv[2])
src = open(f).read().splitlines()[:line]
tmp = os.path.join(os.path.dirname(os.path.abspath(f)), "_dbg_tmp.v")
open(tmp, "w").write("\n".join(src) + "\nShow.\n")
p = subprocess.run(["coqc", "-Q", "/verif/coq", "Molli", tmp], capture_output=True, text=True, timeout=600)
out = (p.stdout + p.stderr)
print(out[-int(sys.argv[3]) if len(sys.argv) > 3 else -3000:])
for ext in (".v", ".vo", ".vok", ".vos", ".glob"):
    try: os.remove(tmp[:-2] + ext)
    except FileNotFoundError: pass
try: os.remove(os.path.join(os.path.dirname(tmp), "._dbg_tmp.aux"))
except FileNotFoundError: pass
