"""Writes /verif/MANIFEST.json from the table below (kept in one place so it is always valid)."""
import json, os
V = os.path.dirname(os.path.dirname(os.path.abspath(__file__)))

CHECKS = {
 "C09": dict(
    technique="Coq proof by kernel computation over the complete regenerated dispatch table (tie T) + differential run on real files",
    text="Theorem C09_matrix (Props/C09.v): on all 2490 valid configurations the action observed under recording mocks "
         "equals the specification written from the property; the table is regenerated from /repo on every run, so the "
         "theorem is re-proved against the current code. all_cells_complete shows the enumeration is the whole product. "
         "Real bundled files go through every supported cell and are compared with the direct class-method call.",
    note="Trusted: Coq kernel + vm_compute; the mock-based table emitter (harness/c09.py); CPython. Class-level codecs are "
         "not verified here (C07/C08). openbabel cells are outside the matrix (not installed). No axioms.",
    ref="7/C09"),
 "C02": dict(
    technique="Coq refinement proof (invariant by induction over operation histories) of a hand model of UKVFile + differential correspondence compiled as kernel-checked Examples",
    text="Theorems C02_step_refines / C02_refines (Props/C02.v): for every history of open/close/put/get/keys over any number of "
         "handles that respects the session discipline, the file model refines an insert-only association list: get returns the "
         "bytes of the one successful put, keys is exactly the set of put keys, failed operations leave file and every handle "
         "unchanged, headers preserved, stale cached tables are refreshed soundly (C02_stale_refresh). The model is tied to "
         "molli/storage/ukvfile.py on every run: ~900 histories (bounded-exhaustive + seeded random, 1..3 handles, values to 70 kB) "
         "are run on the real UKVFile and on the model inside Coq (Example closed by vm_compute) and judged by an independent oracle.",
    note="Trusted: Coq kernel + vm_compute; harness/ukv_common.py; CPython buffered I/O and struct.pack are modelled (in-order byte "
         "stream). Assumes the session discipline the C04 lock enforces. Creation modes x/w only create the file. No axioms.",
    ref="7/C02, 12.1"),
 "C03": dict(
    technique="Coq proof over every prefix of a session's write stream (crash image theorem) + every-byte-offset differential correspondence",
    text="Theorems C03_crash_reopen / C03_reads_exact / C03_recover_append (Props/C03.v): for all committed records, all session "
         "puts and EVERY byte offset n, reopening committed ++ firstn n (stream) lists exactly committed ++ the records wholly "
         "below n, every get returns exact bytes or KeyError, append mode cuts the torn tail and re-establishes the C02 invariant "
         "(so any further history, incl. a second crash, is covered by C02_refines). Tie: the real UKVFile's write stream is cut at "
         "every offset (~4000 images + random crash histories) and compared with the model inside Coq.",
    note="Trusted: Coq kernel + vm_compute; harness (images produced by truncating the file the real session wrote = the property's "
         "crash model: an in-order prefix of the byte stream). fsync / reordering below the page cache are outside the model. No axioms.",
    ref="7/C03, 12.1"),
}

PENDING = {
}

def main():
    props = [json.loads(l)["id"] for l in open(os.path.join(V, "properties.jsonl"))]
    checks = []
    for pid in props:
        if pid not in CHECKS:
            continue
        c = CHECKS[pid]
        checks.append({
            "property_id": pid,
            "quick_cmd": f"./check {pid} --tier quick",
            "thorough_cmd": f"./check {pid} --tier thorough",
            "evidence_file": f"/verif/evidence/{pid}.json",
            "replay_cmd_template": f"./check {pid} --replay {{path}}",
            "engine": "coq-proof+correspondence",
            "level_claimed": {"category": "proof", "text": c["text"], "design_ref": "DESIGN.md section " + c["ref"]},
            "level_note": c["note"],
            "technique": c["technique"],
        })
    na = [{"property_id": p, "reason": PENDING.get(p, "no check registered yet in this round: the model and proof for this property "
           "are designed (DESIGN.md section 7) but not built; nothing is claimed for it")} for p in props if p not in CHECKS]
    man = {
        "version": 1,
        "setup_cmd": "/verif/tools/setup.sh",
        "hooks": {"guard": "MOLLI_VERIF", "enable": "no hooks are needed: every observation is made from outside (mocks, stream wrappers, scripted commands)",
                  "baseline_off_cmd": "/verif/tools/baseline.sh", "source_commits": [], "add_only": True},
        "engines": [{"name": "coq-proof+correspondence", "path": "/verif/check",
                     "serves_properties": [c["property_id"] for c in checks],
                     "kind_free_text": "Coq 8.16.1 models + theorems (coq/), tied to /repo on every run by regenerated tables (T), "
                                       "fail-closed AST extractors (S) and differential correspondence compiled as kernel-checked Examples (H)"}],
        "checks": checks,
        "not_applicable": na,
        "notes": "See DESIGN.md. known_findings.json lists recorded and fixed defects.",
    }
    json.dump(man, open(os.path.join(V, "MANIFEST.json"), "w"), indent=1)
    print("checks:", [c["property_id"] for c in checks], "pending:", len(na))

if __name__ == "__main__":
    main()
