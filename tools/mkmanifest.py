"""Writes /verif/MANIFEST.json from the table below (kept in one place so it is always valid)."""
import json, os
V = os.path.dirname(os.path.dirname(os.path.abspath(__file__)))

CHECKS = {
 "C09": dict(
    technique="Coq proof by kernel computation over the complete regenerated dispatch table (tie T) + differential run on real files",
    text="Theorem C09_matrix (Props/C09.v): on all 2490 valid configurations the action observed under recording mocks "
         "equals the specification written from the property; the table is regenerated from /repo on every run, so the "
         "theorem is re-proved against the current code. all_cells_complete shows the enumeration is the whole product. "
         "Real bundled files go through every supported cell and are compared with the direct class-method call.",
    note="Trusted: Coq kernel + vm_compute; the mock-based table emitter (harness/c09.py); CPython. Class-level codecs are "
         "not verified here (C07/C08). openbabel cells are outside the matrix (not installed). No axioms.",
    ref="7/C09"),
 "C02": dict(
    technique="Coq refinement proof (invariant by induction over operation histories) of a hand model of UKVFile + differential correspondence compiled as kernel-checked Examples",
    text="Theorems C02_step_refines / C02_refines (Props/C02.v): for every history of open/close/put/get/keys over any number of "
         "handles that respects the session discipline, the file model refines an insert-only association list: get returns the "
         "bytes of the one successful put, keys is exactly the set of put keys, failed operations leave file and every handle "
         "unchanged, headers preserved, stale cached tables are refreshed soundly (C02_stale_refresh). The model is tied to "
         "molli/storage/ukvfile.py on every run: ~900 histories (bounded-exhaustive + seeded random, 1..3 handles, values to 70 kB) "
         "are run on the real UKVFile and on the model inside Coq (Example closed by vm_compute) and judged by an independent oracle.",
    note="Trusted: Coq kernel + vm_compute; harness/ukv_common.py; CPython buffered I/O and struct.pack are modelled (in-order byte "
         "stream). Assumes the session discipline the C04 lock enforces. Creation modes x/w only create the file. No axioms.",
    ref="7/C02, 12.1"),
 "C03": dict(
    technique="Coq proof over every prefix of a session's write stream (crash image theorem) + every-byte-offset differential correspondence",
    text="Theorems C03_crash_reopen / C03_reads_exact / C03_recover_append (Props/C03.v): for all committed records, all session "
         "puts and EVERY byte offset n, reopening committed ++ firstn n (stream) lists exactly committed ++ the records wholly "
         "below n, every get returns exact bytes or KeyError, append mode cuts the torn tail and re-establishes the C02 invariant "
         "(so any further history, incl. a second crash, is covered by C02_refines). Tie: the real UKVFile's write stream is cut at "
         "every offset (~4000 images + random crash histories) and compared with the model inside Coq.",
    note="Trusted: Coq kernel + vm_compute; harness (images produced by truncating the file the real session wrote = the property's "
         "crash model: an in-order prefix of the byte stream). fsync / reordering below the page cache are outside the model. No axioms.",
    ref="7/C03, 12.1"),
 "C05": dict(
  technique="Coq proof (invariant + frame/refinement relation by induction over all edit histories) on a hand model, tied to /repo by differential correspondence evaluated by the kernel (tie H) + Python oracle",
  text="Props/C05.v: Inv (one row and one numeric charge per atom, no duplicates, parents, bond endpoints in the molecule) holds for empty/loaded/cloned states (C05_inv_init_*), is preserved by every operation whether it returns or raises (C05_inv_step) hence by every history (C05_inv_history); every surviving atom keeps its coordinate row and charge (C05_keeps_step/_history, C05_new_atom_row, C05_idx_correct); del_atom removes exactly the atom and its incident bonds (C05_del_exact); failed atomic operations and remove_substituent(a1<>a2, any designators) change nothing (C05_err_unchanged_*partial). Every run drives random (len<=40) and bounded-exhaustive histories through the real Molecule/Structure API, observes all accessors keyed by object identity after every step and has Coq replay them in the model (check_case, vm_compute; C05_check_case_sound).",
  note="Trusted: Coq kernel + vm_compute; harness/c05.py (driver, id()->name renaming, token maps, literal emission); CPython/numpy. Modelled not verified: np.append/np.delete as list append/delete-nth; add_implicit_hydrogens only structurally (count/geometry: C16); BFS fuel sufficiency not proved (OutOfFuel excluded, would fail a shard). Partial: err_unchanged is false in the code for remove_substituent(a,a) on a self-loop and multi-target add_implicit_hydrogens. Views: edits are not defined on Conformer/Substructure (oracle scenarios only). Known finding: foreign atom in append_bond. No axioms.",
  ref="7/C05"),
 "C11": dict(
   technique="Coq proofs over R (nsatz/ring) about one field-parametric Gallina model + differential correspondence of the same model run over Q inside Coq against exact-rational observations of the implementation",
   text="Props/C11.v: rotation_matrix_from_vectors (general AND antiparallel branch, for every unit vector orthogonal to v2) and rotation_matrix_from_axis are proper rotations with the documented effect (maps v1/|v1| to v2/|v2|; fixes the axis, trace 1+2cos, sense of turn); orthogonal maps keep dot products, proper ones every pairwise distance and signed volume (transform/translate/rotate/center_*); substructure edits move exactly the selected rows; rotate_dihedral leaves arctan2's arguments at rho(sin t, cos t), rho>0, moves only the far side rigidly; align_to_ref_coords returns the deviation of the pose it leaves, minimal over mappings, and is pose-independent (under the stated callback contract). Tie: ~1000 (quick) / ~9400 (thorough) exact-rational cases incl. b=-a+eps on both sides of tol, angles 0/pi, axis-aligned vectors, every rotatable acyclic bond of bundled molecules, checked by vm_compute within 1e-9.",
   note="Trusted: Coq kernel+vm_compute; harness/c11.py (float->exact rational, 2^-60 sqrt witnesses re-checked in Coq, recording wrappers); numpy/IEEE rounding only tolerance-checked; np.random choice in the antiparallel branch is hidden state (theorem covers any choice, C12 for determinism); alignment callback (SVD) is a hypothesis; arctan2 and yield_bfs's atom selection are parameters. Axioms: sig_forall_dec, functional_extensionality_dep (stdlib Reals). Partial for rounding.",
   ref="7/C11"),
 "C15": dict(
  technique="Coq proofs by induction/invariant over executable models of the graph queries (tie H: exhaustive small-graph + random differential correspondence evaluated by vm_compute) + regenerated predicate tables (tie T)",
  text="Props/C15.v: for EVERY bond list and start, yield_bfsd terminates within the model's fuel and yields exactly the component minus the start, once each, with shortest-path labels, non-decreasing (C15_bfs_total, C15_bfs_sound_complete); with a direction exactly the atoms reachable in the graph without the start (C15_bfs_directed); is_bond_in_ring = true <-> endpoints still connected after deleting the bond (C15_ring_iff_not_bridge); accessors = folds over the bond list (C15_adjacency_agrees, C15_handshake); the reference enumerator returns exactly the induced embeddings, none twice (C15_match_reference_partial, C15_match_plain). _node_match/_edge_match/Bond.order are re-tabulated from /repo each run and proved equal to the model predicates on the whole grid. The exact yielded sequences for all labelled graphs on <=5 atoms (thorough <=6), every start/direction/bond, random graphs <=40 atoms, and molli's match output vs the enumerator are compared inside Coq.",
  note="PARTIAL for matching: networkx VF2 is not modelled; molli's match output is tied to the proved enumerator only differentially. Trusted: Coq kernel+vm_compute, harness/c15.py (driver, canonicalisation, T-emitter), CPython, networkx. Grid completeness of the predicate tables is an assumption (predicates only compare values with each other/constants). Known finding C15:match:raises-NotImplementedError. No axioms.",
  ref="7/C15"),
 "C07": dict(
    technique="Coq proof: exhaustive kernel computation over the regenerated mol2 type tables (tie T) + inductive round-trip proof of a token-level writer/reader model, tied by differential correspondence compiled as kernel-checked Examples (tie H)",
    text="Props/C07.v. Layer (a): Gen/Mol2Types.v tabulates get_mol2_type on all 119x21x18 = 44 982 (element, atom type, geometry) triples, "
         "set_mol2_type on every emitted token, and the bond maps, on every run; C07_tokens_accepted, C07_element_preserved, "
         "C07_type_fixed_point, C07_bond_expressible, C07_bond_fixed_point, C07_sybyl_vocabulary are decided by the kernel on the whole domain. "
         "Layer (b): C07_roundtrip / C07_roundtrip_all (read (write m) = Some (norm m) for EVERY well-formed molecule / molecule list, Molecule and "
         "Structure writers), C07_preserved (name, order, elements, non-empty labels, coordinates, charges, bonds, expressible bond types), "
         "C07_text_fixed_point (second cycle writes the same text), C07_ensemble / C07_ensemble_count_order. The model is compared with molli on "
         "600 (thorough 6000) generated objects per run: written lines and read-back fields must coincide inside Coq; an independent oracle judges the property; plus 120 (thorough 1000) write -> edit through the public API -> write again cases, also starting from objects read from text; C07_codec_stateless: writer and reader depend on the current state only, for every token and every BondType.",
    note="Trusted: Coq kernel + vm_compute; table emitter and correspondence harness (harness/c07.py); CPython's correctly rounded float formatting/float() "
         "(floats enter the model as their exact decimal rounding). Outside the model: UNITY_*_ATTR sections, non-'%f' number spellings, numpy assignment. "
         "Known findings excluded by explicit hypotheses with refuted-lemmas: '-0.000' charge loses its sign on the second write; a 0-conformer ensemble writes nothing. "
         "Two defects repaired (a070a0c, acf63e7). No axioms.",
    ref="7/C07"),
 "C04": dict(
    technique="Coq proofs: session contract for ALL fault assignments on the AST-extracted skeleton of reading()/writing() (tie S) validated against the real context managers on every fault vector (tie T); invariant proof over a lock/process transition system reducing every interleaving to the C02 refinement; real multi-process schedules compared with the transition system",
    text="Props/C04.v. C04_writing/reading_session_contract: for EVERY assignment of raising steps (guard, acquire, begin, update_keys, body/encoder, flush, end) the lock is released last iff it was acquired, the file is closed before the release whenever it was opened, flush runs, no exception is swallowed -- proved on the program extracted from the AST of molli/storage/backends.py each run, whose denotation equals the trace of the REAL context manager on all 2^7+2^5 fault vectors, with the lock observed free from another process and the file closed (C04_skeleton_is_the_code). C04_lock_implies_discipline / C04_serialised / C04_mutex / C04_writer_alone / C04_progress: for any number of processes, handles and sessions and EVERY schedule, the reader/writer lock establishes the session discipline of C02, so the file stays an insert-only map of complete records and every outcome is the abstract map's; writers are alone; the lock is never leaked. Real OS processes: 120 stepped schedules (1200 thorough) compared with the transition system inside Coq, plus free-running workers with injected delays, body/encoder faults and aliased path spellings judged by an event-log oracle.",
    note="PARTIAL for real schedules: fcntl/fasteners lock semantics are ASSUMED (encoded in the transition system, validated by the multi-process runs, not proved); process death while holding the lock and OS scheduling are not exhibited by the model. Threads sharing a handle / nested sessions in one process are outside the claim. Trusted: Coq kernel+vm_compute; harness/c04_skel.py (AST walker, recording wrappers, lock probe), harness/c04_mp.py (workers, CLOCK_MONOTONIC event log). No axioms.",
    ref="7/C04"),
 "C01": dict(
  technique="Coq proof of a generic positional-codec round-trip theorem, instantiated by kernel computation on wirings regenerated by sentinel execution of the real (de)serialisers (tie T) + differential correspondence through the library API evaluated by the kernel (tie H) + Python oracle",
  text="Props/C01.v: for every well-formed molecule/ensemble, decode(msgpack(encode o)) = Some(mnorm_obj o) for the v2 encodings (C01_mol_v2/_ens_v2; = Some o when attribute values are msgpack-stable, *_exact), = reset_obj_v1(mnorm_obj o) for the legacy v1 encodings (C01_mol_v1/_ens_v1), and conformer count, arrays, atom count, bond endpoints never change (C01_nothing_else). Generic theorem roundtrip_of_wiring (all wirings accepted by wiring_ok, all objects) is proved once; the four position->slot wirings, dtypes and constructor defaults are observed on every run by running io.py on objects whose slots hold unique values. ~1150 (quick) / ~6400 (thorough) generated and bundled objects are stored in writing() and read by a fresh handle in reading(), v2 and v1, compared with the model inside Coq and field by field by the oracle.",
  note="Trusted: Coq kernel+vm_compute; T-emitter and harness (harness/c01.py); numpy single rounding; msgpack/msgpack_numpy/numpy packing modelled (mnorm, dtype-tagged arrays), not verified; storage layer via public API only (C02-C04). Atom identity modelled as position; mult=0, non-dict attrib, ndarray attributes (oracle only) outside wf. Known findings: list-as-tuple, double-as-single-float (attrib, f_order), double-beyond-single-range-refused. No axioms.",
  ref="7/C01"),
 "C10": dict(technique="Coq proof (induction over the reader state machines) + differential correspondence evaluated by the kernel (tie H), vocabulary tables (tie T)",
  text="Props/C10.v: for every input every returned molecule has the atom/bond counts of its own header (C10_counts_xyz/_mol2); for every well-formed xyz or mol2 text and every k the first k lines give an exception or a prefix of the molecules (C10_truncate_lines_*); deleting or duplicating any one line gives an exception (xyz) / an exception or exactly the same molecules (mol2) (C10_delete_line_*, C10_dup_line_*); a cut of the last xyz record at a token boundary gives an exception or the undamaged result, at any byte it changes at most the last token (C10_last_token_only, finding 36); readers are total, one line per step. ~6100 damaged texts (quick) are run through the real readers under a wall-clock limit and compared with the model inside Coq.",
  note="Trusted: Coq kernel+vm_compute; harness/c10.py (damage operators mirrored in Coq, canonicalisation); CPython split/strip/int/float (modelled for ASCII in Common/ParseStr.v); mol2 atom/bond type vocabularies are model parameters tabulated from the running code (C07). Hypotheses: name/comment line not an integer list nor a TRIPOS record. No axioms. 2 fix commits (9b0bd71, aafb0fa).",
  ref="7/C10"),
 "C08": dict(technique="Coq proof (character-level round trip; unit law over R) + regenerated tables (T) + fail-closed AST extraction of the scale(...) argument (S) + writer/reader correspondence (H)",
  text="Props/C08.v: write_xyz then load_xyz returns the same counts, order, elements and micro-unit coordinates, frame by frame for ensembles (C08_roundtrip, C08_frames); for every member of the regenerated DistanceUnit table and the scale expression extracted from yield_from_xyz / yield_from_mol2, a coordinate expressed in that unit is read back in Angstrom (C08_units_xyz/_mol2, over R); table values agree with the physical constants (C08_unit_values). Writer text compared character by character with the model inside Coq; every unit x reader x API judged by an oracle using physical constants.",
  note="Trusted: kernel; T/S emitters in harness/c08.py; CPython correctly-rounded format/float; CartesianGeometry.scale multiplies (observed, not proved). Reals axioms (sig_forall_dec, functional_extensionality_dep) only in the two unit theorems. Known: dummy atype lost (finding 32). 2 fix commits (0ee3f4e, 0716efc).",
  ref="7/C08"),
 "C14": dict(
 technique="Coq proof (invariant by case analysis over every constructor branch and operation + induction over all histories; lens laws; interleaving theorem by induction with an iterator invariant) on a hand model, tied to /repo by differential correspondence evaluated by the kernel (tie H) + Python oracle",
 text="Props/C14.v: Rect (coords/atomic_charges/weights describe the same number of conformers and n_atoms entries per row) is established by every __init__ branch (C14_rect_constructors), preserved by all 32 operations (C14_rect_step) hence by every history from nothing (C14_rect_history); ens[k] is a lens onto row k for coords and charges (C14_lens_coords/_charges/_put_get) and every write through a conformer changes only that row of that ensemble (C14_conf_write_frame); every conformer of a rectangular ensemble is a full view, dumps are defined and the io round trip is the identity (C14_view_writable); a loop visits 0..nc-1 in order, nested loops the product (C14_for_loop), and under ANY interleaving of non-resizing operations each iterator yields c..nc-1 once each in order (C14_iter_interleaved, C14_iter_once); the former shared-cursor protocol is refuted for nc>=2 (C14_shared_cursor_refuted); slices name existing conformers (C14_slice_valid). Each run drives 1500 (thorough 12000) random histories through the real ConformerEnsemble/Conformer (constructors, append/extend, transforms, setters, view writes, interleaved iterators, nested loops, slices, dumps, io) with exact integer/NaN tokens, observes every ensemble after every call, and Coq replays them (check_case, vm_compute; C14_check_case_sound).",
 note="Trusted: Coq kernel+vm_compute; harness/c14.py (driver, token<->double, parsing dumps back, literal emission); CPython/numpy. Modelled not verified: np.append=list append, row views, full-shape [:] assignment, exact integer arithmetic in doubles <2^40, NaN propagation, '>f4' exact <2^24, msgpack identity. Outside the alphabet: numpy broadcasting of size-1 axes in setters, extend([]), advancing an iterator after its ensemble was resized, structure edits through views (C05), aliasing/pickle (C06), text/binary formats (C07/C08/C01). Known findings (Unspec in the model): append onto ConformerEnsemble(); Molecule with explicit n_conformers=0; legacy ConformerEnsemble.serialize/deserialize raise. No axioms.",
 ref="7/C14"),
 "C06": dict(
  technique="Coq proof (heap/alias model; frame rule by invariant over all primitive-write histories; copy soundness for all heaps) + regenerated alias table (tie T) decided by the kernel + differential correspondence via vm_compute (tie H)",
  text="Props/C06.v: every copy route (copy-constructors, evolve, pickle, deepcopy, concatenate, join, ensemble-from-list, ensemble copy; 70 regenerated (class, route) rows) yields an object equal to its source on all fields both classes have, with parents re-pointed, sharing no mutable container (C06_table_ok by kernel computation on the regenerated table; C06_copy_faithful_independent / C06_row_sound for every heap and source); disjoint reach implies the frame rule: any history of mutations through one side leaves the other side's observation unchanged (C06_mutation_frame, C06_disjoint_reach_frame, C06_copy_then_any_history, C06_menu_edits_confined). 1664 (thorough 9984) (class, route) x side x mutation cases compare the whole heap and both observations before/after inside Coq; an oracle checks faithfulness field by field and aliasing with `is` / np.shares_memory.",
  note="Trusted: Coq kernel+vm_compute; harness/c06.py (alias classification, heap re-reading by identity). Lone Atom/Bond routes by table and oracle only; derived molecules (concatenate/join/ensemble-from-list) via a synthetic union object; values inside attrib dicts not followed; pickle/copy/attrs/numpy copying executed, not modelled; uniformity assumption (a route's alias row does not depend on the source) checked by every H case. Substructure and constructors adopting an existing atom list (copy_atoms=False by design) out of scope. 8 fix commits. No axioms.",
  ref="7/C06"),
 "C19": dict(
  technique="Coq proofs (structural induction over nested maps; floor lemmas over Q; R for the sqrt kernel) about one field-parametric kernel model and a rational grid model, tied to /repo by differential correspondence evaluated by the kernel (tie H) incl. a per-run rebuild of the C++ source against a pybind11 stand-in",
  text="Props/C19.v: cdist22/cdist32 return for ALL lengths (0 included) shape (L1,L2)/(X,L1,L2) with entry = sum_k (a_ik-b_jk)^2, resp. its square root (C19_kernel22/32, any ND: C19_euclidean2_any_dim); rectangular_grid: count nx*ny*nz, Cartesian product of the axes, NoDup, order, spacing, centred with 0<=o<s/2, contained in the padded box (C19_grid_*); nearest_atom_index = -1 iff every atom is beyond the cut-off, else an atom at minimal distance (C19_nearest); prune soundness + (1+eps) band under the KD-tree query contract (C19_prune_partial); aso/aeif = (weighted) conformer average of the vdW-union indicator (times the nearest atom's charge) (C19_aso, C19_aeif, C19_aeif_value). Every run rebuilds molli_xt/distance.cpp with g++ against tools/pybind11_shim and drives every registered kernel, drives the shipped extension with strided/transposed/Fortran/reversed/int/mixed inputs and 0-length axes (exact equality on dyadic inputs), and ~150 (thorough ~1500) grids/ensembles; all observations are judged by Model.Dist.check / Model.Grid.gcheck inside Coq.",
  note="PARTIAL: IEEE rounding only tolerance-checked (grid points within 2e-3 in d^2 of a sphere surface and a 1e-9 band at the cut-off are left out, as the property says); scipy KDTree external (its answers are checked against the spec in Coq; prune theorem under hypotheses); sqrt via its specification. Trusted: Coq kernel+vm_compute, harness/c19.py, tools/pybind11_shim + g++, CPython/numpy/scipy. Axioms: stdlib Reals (sig_forall_dec, sig_not_dec, functional_extensionality_dep) for the R kernel theorems; grid theorems closed. Fix 1e05f0a (max_dist ignored for plain geometries). Known findings: float64 non-contiguous input computed in float32; last axis length not checked.",
  ref="7/C19"),
 "C12": dict(
  technique="Coq proofs (list induction for structure; ring/field/nsatz over R reusing C11's proper-rotation theorems) about one field-parametric Gallina model of Structure.join and the molli-combine loop + differential correspondence of the same model run over Q inside Coq against exact-rational observations (tie H) + Python oracle",
  text="Props/C12.v: the product has exactly the atoms of A and B minus the two attachment atoms (records copied, names unique) and the bonds not touching them plus ONE new bond between the former neighbours (C12_atoms_bonds, any field, closed); every row is gA/gB of its source row with gA, gB distance- and signed-volume-preserving, former neighbours joined by (d/|v1|) v1, B facing A, for every valid orthogonal vector and with or without any rotamer rotation (C12_rigid_each_and_new_bond, C12_fragment_shape, C12_join_rotation, C12_requested_length); charge qA+qB / mult mA+mB-1 unless overridden incl. 0 charge (C12_charge_mult); ov irrelevant outside the antiparallel branch, relevant inside (refuted-before-repair lemma), repaired choice valid (C12_no_hidden_state, C12_det_ort_nonzero); the repaired combine loop addresses the intended core atom for ANY order of core_aps, the old one only for ascending (C12_iterated, C12_iterated_before_repair). Every run drives 361 (thorough 4332) joins / _ml_assemble calls on generated tree/ring fragments (general, exactly (anti)parallel, axis-aligned, invalid attachment atoms, 2-3-attachment cores in ascending and shuffled order), each twice under different np.random states, compared with the model by vm_compute (structure exactly, coordinates 1e-8).",
  note="PARTIAL: IEEE rounding tolerance-checked; the rotamer the scan selects is not modelled (theorems for every angle; the angle about the new bond is measured and admitted only when the scan is requested or the rotation is antiparallel); sources-untouched / new-objects judged by the Python oracle on deep snapshots (functional model). Trusted: Coq kernel+vm_compute; harness/c12.py (generator, uid via Atom.attrib, Fraction(float), sqrt witnesses re-checked in Coq, stub for absent molli.external.openbabel); numpy, molli_xt. Assumes A and B distinct with unique atom names; dist=0 counts as not requested. Known finding C12:mult:zero-becomes-one. Three defects repaired (0d46b34, 3011386, fd0530a). Axioms: sig_forall_dec, functional_extensionality_dep (Reals) for the geometric theorems; structural ones closed.",
  ref="7/C12"),
}

PENDING = {
}

def main():
    props = [json.loads(l)["id"] for l in open(os.path.join(V, "properties.jsonl"))]
    checks = []
    for pid in props:
        if pid not in CHECKS:
            continue
        c = CHECKS[pid]
        checks.append({
            "property_id": pid,
            "quick_cmd": f"./check {pid} --tier quick",
            "thorough_cmd": f"./check {pid} --tier thorough",
            "evidence_file": f"/verif/evidence/{pid}.json",
            "replay_cmd_template": f"./check {pid} --replay {{path}}",
            "engine": "coq-proof+correspondence",
            "level_claimed": {"category": "proof", "text": c["text"], "design_ref": "DESIGN.md section " + c["ref"]},
            "level_note": c["note"],
            "technique": c["technique"],
        })
    na = [{"property_id": p, "reason": PENDING.get(p, "no check registered yet in this round: the model and proof for this property "
           "are designed (DESIGN.md section 7) but not built; nothing is claimed for it")} for p in props if p not in CHECKS]
    man = {
        "version": 1,
        "setup_cmd": "/verif/tools/setup.sh",
        "hooks": {"guard": "MOLLI_VERIF", "enable": "no hooks are needed: every observation is made from outside (mocks, stream wrappers, scripted commands)",
                  "baseline_off_cmd": "/verif/tools/baseline.sh", "source_commits": [], "add_only": True},
        "engines": [{"name": "coq-proof+correspondence", "path": "/verif/check",
                     "serves_properties": [c["property_id"] for c in checks],
                     "kind_free_text": "Coq 8.16.1 models + theorems (coq/), tied to /repo on every run by regenerated tables (T), "
                                       "fail-closed AST extractors (S) and differential correspondence compiled as kernel-checked Examples (H)"}],
        "checks": checks,
        "not_applicable": na,
        "notes": "See DESIGN.md. known_findings.json lists recorded and fixed defects.",
    }
    json.dump(man, open(os.path.join(V, "MANIFEST.json"), "w"), indent=1)
    print("checks:", [c["property_id"] for c in checks], "pending:", len(na))

if __name__ == "__main__":
    main()
