#!/bin/sh
# tools/mk.sh <targets...> : build Coq targets under the same lock the checks use (development helper)
cd "$(dirname "$0")/.." || exit 2
exec /venv/bin/python - "$@" <<'PY'
import sys
sys.path.insert(0, 'tools')
import vlib
with vlib.CoqLock():
    rc, out = vlib.make(sys.argv[1:], 1500)
print(out[-6000:])
sys.exit(rc)
PY
