// see pybind11.h in this directory (stand-in; array_t lives there)
#pragma once
#include "pybind11.h"
