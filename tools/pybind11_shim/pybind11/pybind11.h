// Minimal stand-in for the handful of pybind11 names that molli_xt/distance.cpp and molli_xt/_molli_xt.hpp use
// (pybind11 headers are not installed in the verification sandbox, so the shipped extension cannot be rebuilt).
// It lets the C19 check compile the CURRENT C++ source on every run and execute the registered kernels on
// arrays supplied by the harness (tools/pybind11_shim/drv.cpp).  Nothing here computes a distance.
//
//   py::ssize_t, py::gil_scoped_release, py::module_::def, py::array::{c_style,forcecast},
//   py::array_t<T,Flags>: ctor from a shape, shape(i), unchecked<N>() / mutable_unchecked<N>() with
//   data(i...) and operator()(i...)  -- C-contiguous storage, as `c_style | forcecast` guarantees.
#pragma once
#include <vector>
#include <string>
#include <cstddef>
#include <stdexcept>
#include <type_traits>
#include <initializer_list>
#include <sys/types.h>

namespace pybind11 {
using ssize_t = ::ssize_t;
using size_t = std::size_t;

struct gil_scoped_release { gil_scoped_release() {} };

struct array { enum { c_style = 1, f_style = 2, forcecast = 16 }; };

namespace detail {
template <typename T, ssize_t N> struct proxy {
    T *p; const ssize_t *sh;
    template <typename... Ix> ssize_t off(Ix... ix) const {
        static_assert(sizeof...(Ix) == N, "wrong number of indices");
        ssize_t idx[] = {ssize_t(ix)...};
        ssize_t o = 0;
        for (ssize_t d = 0; d < N; ++d) o = o * sh[d] + idx[d];
        return o;
    }
    template <typename... Ix> const T *data(Ix... ix) const { return p + off(ix...); }
    template <typename... Ix> T *mutable_data(Ix... ix) { return p + off(ix...); }
    template <typename... Ix> T &operator()(Ix... ix) { return p[off(ix...)]; }
    template <typename... Ix> const T &operator()(Ix... ix) const { return p[off(ix...)]; }
    ssize_t shape(ssize_t d) const { return sh[d]; }
};
} // namespace detail

template <typename T, int ExtraFlags = array::forcecast> struct array_t {
    std::vector<ssize_t> sh;
    mutable std::vector<T> buf;
    array_t() {}
    array_t(std::initializer_list<ssize_t> s) : sh(s) { alloc(); }
    explicit array_t(const std::vector<ssize_t> &s) : sh(s) { alloc(); }
    void alloc() { size_t n = 1; for (auto x : sh) n *= (size_t)x; buf.assign(n, T()); }
    ssize_t ndim() const { return (ssize_t)sh.size(); }
    ssize_t shape(ssize_t i) const {
        if (i < 0 || i >= ndim()) throw std::out_of_range("invalid axis");
        return sh[(size_t)i];
    }
    ssize_t size() const { return (ssize_t)buf.size(); }
    template <ssize_t N> detail::proxy<const T, N> unchecked() const {
        if (ndim() != N) throw std::domain_error("array has incorrect number of dimensions");
        return detail::proxy<const T, N>{buf.data(), sh.data()};
    }
    template <ssize_t N> detail::proxy<T, N> mutable_unchecked() {
        if (ndim() != N) throw std::domain_error("array has incorrect number of dimensions");
        return detail::proxy<T, N>{buf.data(), sh.data()};
    }
};

// module_::def records every registration (name, element type, function pointer) so that the driver calls
// exactly what the source registers under a Python-visible name.
struct module_ {
    struct entry { std::string name; char ty; void *fn; };
    std::vector<entry> defs;
    template <typename Fn> module_ &def(const char *name, Fn f, const char * = "") {
        using AF = array_t<float, array::c_style | array::forcecast>;
        using AD = array_t<double, array::c_style | array::forcecast>;
        if constexpr (std::is_same<Fn, AF (*)(const AF &, const AF &)>::value)
            defs.push_back({name, 'f', (void *)f});
        else if constexpr (std::is_same<Fn, AD (*)(const AD &, const AD &)>::value)
            defs.push_back({name, 'd', (void *)f});
        else
            defs.push_back({name, '?', nullptr});   // a signature the driver cannot call: reported as unsupported
        return *this;
    }
};
} // namespace pybind11
