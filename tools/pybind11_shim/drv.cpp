// Driver for the shim build of molli_xt/distance.cpp (C19 check).
// stdin :  <ncases> then per case:  <name> <f|d> <nd1> <dims of arr1...> <dims of arr2 (2)> <values arr1> <values arr2>
//          (values as C hex floats).   stdout per case:  "ok <ndim> <dims...> <values...>"  |  "err <reason>"
// The overload is chosen like pybind11's first (no-conversion) pass: the first function registered under <name>
// whose element type is the element type of the arrays.
#include "distance.cpp"
#include <cstdio>
#include <cstring>

namespace py = pybind11;

template <typename T> static bool read_vals(std::vector<T> &buf) {
    for (auto &v : buf) { double d; if (scanf("%la", &d) != 1) return false; v = (T)d; }
    return true;
}

template <typename T> static int run(void *fn, const std::vector<py::ssize_t> &s1, const std::vector<py::ssize_t> &s2) {
    using A = molli::carray<T>;
    A a(s1), b(s2);
    if (!read_vals(a.buf) || !read_vals(b.buf)) return 2;
    try {
        A r = ((A(*)(const A &, const A &))fn)(a, b);
        printf("ok %zd", (ssize_t)r.sh.size());
        for (auto x : r.sh) printf(" %zd", (ssize_t)x);
        for (auto v : r.buf) printf(" %a", (double)v);
        printf("\n");
    } catch (const std::exception &e) {
        printf("err exception %s\n", e.what());
    }
    return 0;
}

int main() {
    py::module_ m;
    molli::_init_distance(m);
    long ncases;
    if (scanf("%ld", &ncases) != 1) return 2;
    for (long c = 0; c < ncases; ++c) {
        char name[128], ty;
        int nd1;
        if (scanf("%127s %c %d", name, &ty, &nd1) != 3) return 2;
        std::vector<py::ssize_t> s1((size_t)nd1), s2(2);
        for (auto &x : s1) { long v; if (scanf("%ld", &v) != 1) return 2; x = v; }
        for (auto &x : s2) { long v; if (scanf("%ld", &v) != 1) return 2; x = v; }
        void *fn = nullptr; bool seen = false, unsupported = false;
        for (auto &e : m.defs)
            if (e.name == name) { seen = true; if (e.ty == '?') unsupported = true; if (e.ty == ty && !fn) fn = e.fn; }
        if (!fn) {
            // still consume the values so that the stream stays aligned
            size_t n = 1; for (auto x : s1) n *= (size_t)x; n += (size_t)(s2[0] * s2[1]);
            for (size_t i = 0; i < n; ++i) { double d; if (scanf("%la", &d) != 1) return 2; }
            printf("err %s\n", !seen ? "not-registered" : unsupported ? "unsupported-signature" : "no-overload");
            continue;
        }
        int rc = ty == 'f' ? run<float>(fn, s1, s2) : run<double>(fn, s1, s2);
        if (rc) return rc;
    }
    return 0;
}
