#!/bin/bash
# mut.sh <name> <file-relative-to-repo> <python-expr old> <python-expr new> <check ids...>
# Copies /repo to a scratch dir, replaces exactly one occurrence, runs the checks against the copy, removes the copy.
name=$1; file=$2; old=$3; new=$4; shift 4
d=/tmp/mut_$name
rm -rf $d; cp -r /repo $d
python3 - "$d/$file" "$old" "$new" <<'PY' || { rm -rf $d; exit 3; }
import sys
p, old, new = sys.argv[1:4]
s = open(p).read()
old = old.encode().decode('unicode_escape'); new = new.encode().decode('unicode_escape')
assert s.count(old) >= 1, "pattern not found"
open(p, 'w').write(s.replace(old, new, 1))
PY
for c in "$@"; do
  echo "== mutant $name : check $c"
  MOLLI_REPO=$d timeout 1200 /verif/check $c 2>&1 | tail -4
done
rm -rf $d
# restore Gen/ snapshots and evidence to the /repo state
for c in "$@"; do timeout 1500 /verif/check $c >/dev/null 2>&1; echo "restored $c on /repo: rc=$?"; done
