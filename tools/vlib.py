"""Shared machinery for every property check (see DESIGN.md section 4).

A check is `./check Cxx [--tier quick|thorough] [--replay FILE]`.  The per-property
module `harness/cxx.py` exposes

    run(ctx, rep)      -- regenerate Gen/*.v, drive the implementation, emit cases, judge
    replay(ctx, data)  -- re-run one recorded input; returns a list of Violation

and this library supplies: environment pinning, Coq literal emitters, the locked
`make`/`coqc` runners, the correspondence-shard compiler, known-finding handling,
replay files, VIOLATION / KNOWN-FINDING lines and the evidence file.
"""
from __future__ import annotations
import os, sys, json, time, hashlib, subprocess, tempfile, shutil, random, fcntl, re, traceback

VERIF = os.path.dirname(os.path.dirname(os.path.abspath(__file__)))
REPO = os.environ.get("MOLLI_REPO", "/repo")
COQ = os.path.join(VERIF, "coq")
PY = "/venv/bin/python"

FORBIDDEN = re.compile(
    r"\b(Admitted|admit|Axiom|Axioms|Parameter|Parameters|Conjecture|Admit Obligations|"
    r"Unset Guard Checking|bypass_check|Unset Positivity Checking|Unset Universe Checking)\b")


def pin_env(scratch: str) -> None:
    """Pin the environment of the implementation under test."""
    os.environ["PYTHONHASHSEED"] = "0"
    os.environ["PYTHONWARNINGS"] = "ignore"
    os.environ["MOLLI_HOME"] = os.path.join(scratch, "molli_home")
    os.makedirs(os.environ["MOLLI_HOME"], exist_ok=True)
    # the implementation always comes from MOLLI_REPO's working tree
    if REPO in sys.path:
        sys.path.remove(REPO)
    sys.path.insert(0, REPO)
    os.environ["PYTHONPATH"] = REPO
    if os.environ.get("VERIF_COV_SITE"):  # tools/covmap.py: coverage measurement inside worker processes too
        os.environ["PYTHONPATH"] = REPO + os.pathsep + os.environ["VERIF_COV_SITE"]


# ---------------------------------------------------------------- Coq literals
def cq_str(s: str) -> str:
    """Coq string literal for an ASCII-safe python string (others are escaped by byte list)."""
    if all(32 <= ord(c) < 127 for c in s):
        return '"' + s.replace('"', '""') + '"'
    b = s.encode("utf-8")
    return "(str_of_bytes " + cq_list(str(x) + "%N" for x in b) + ")"


def cq_list(items) -> str:
    return "[" + "; ".join(items) + "]"


def cq_Z(z: int) -> str:
    return f"({z})%Z" if z < 0 else f"{z}%Z"


def cq_N(n: int) -> str:
    assert n >= 0
    return f"{n}%N"


def cq_nat(n: int) -> str:
    assert 0 <= n < 5000, "nat literal too large"
    return f"{n}%nat"


def cq_bool(b) -> str:
    return "true" if b else "false"


def cq_opt(x, f) -> str:
    return "None" if x is None else f"(Some {f(x)})"


def cq_Q(fr) -> str:
    """Exact rational (fractions.Fraction or float) as a Coq Q literal."""
    from fractions import Fraction
    fr = Fraction(fr)
    return f"(Qmake ({fr.numerator})%Z {fr.denominator}%positive)"


# ---------------------------------------------------------------- files / processes
def write_if_changed(path: str, text: str) -> bool:
    try:
        with open(path) as f:
            if f.read() == text:
                return False
    except FileNotFoundError:
        pass
    os.makedirs(os.path.dirname(path), exist_ok=True)
    tmp = path + ".tmp%d" % os.getpid()
    with open(tmp, "w") as f:
        f.write(text)
    os.replace(tmp, path)
    return True


class CoqLock:
    """Serialises everything that writes into /verif/coq (Gen regeneration, make)."""

    def __enter__(self):
        self.f = open(os.path.join(COQ, ".lock"), "w")
        fcntl.flock(self.f, fcntl.LOCK_EX)
        return self

    def __exit__(self, *a):
        fcntl.flock(self.f, fcntl.LOCK_UN)
        self.f.close()


def sh(cmd, timeout, cwd=None, env=None, inp=None):
    """Run a command under a hard timeout. Returns (rc, stdout+stderr)."""
    try:
        p = subprocess.run(cmd, cwd=cwd, env=env, input=inp, stdout=subprocess.PIPE,
                           stderr=subprocess.STDOUT, timeout=timeout, text=True,
                           shell=isinstance(cmd, str))
        return p.returncode, p.stdout
    except subprocess.TimeoutExpired as e:
        out = e.stdout or ""
        if isinstance(out, bytes):
            out = out.decode("utf-8", "replace")
        return 124, out + f"\n[timeout after {timeout}s]"


COQ_DIRS = ["Common", "Gen", "Model", "Proofs", "Props"]
COQ_HEAD = ("-Q . Molli\n-arg -w -arg -notation-overridden,-deprecated-hint-without-locality,"
            "-deprecated-instance-without-locality,-deprecated-hint-rewrite-without-locality\n\n")


def ensure_makefile():
    """_CoqProject lists every .v under Common/ Gen/ Model/ Proofs/ Props/ (regenerated when the set
    changes); Makefile regenerated from it."""
    files = []
    for d in COQ_DIRS:
        dd = os.path.join(COQ, d)
        if os.path.isdir(dd):
            files += sorted(f"{d}/{f}" for f in os.listdir(dd) if f.endswith(".v"))
    cp = os.path.join(COQ, "_CoqProject")
    changed = write_if_changed(cp, COQ_HEAD + "\n".join(files) + "\n")
    mk = os.path.join(COQ, "Makefile")
    if changed or (not os.path.exists(mk)) or os.path.getmtime(mk) < os.path.getmtime(cp):
        rc, out = sh("coq_makefile -f _CoqProject -o Makefile", 60, cwd=COQ)
        if rc != 0:
            raise RuntimeError("coq_makefile failed:\n" + out)


def make(targets, timeout=900):
    """Full .vo build of the given targets (never -vos). Caller holds CoqLock."""
    ensure_makefile()
    targets = list(targets)
    if "Common/Corr.vo" not in targets:          # every correspondence shard imports it
        targets.append("Common/Corr.vo")
    return sh(["make", "-j16", "--no-print-directory"] + targets, timeout, cwd=COQ)


def coqc(path, timeout=300, cwd=None, extra=()):
    return sh(["coqc", "-Q", COQ, "Molli", *extra, path], timeout, cwd=cwd or os.path.dirname(path))


def coqc_many(paths, timeout=600, jobs=16):
    """Compile independent case files in parallel. Returns {path: (rc, out)}."""
    from concurrent.futures import ThreadPoolExecutor
    res = {}
    with ThreadPoolExecutor(max_workers=jobs) as ex:
        futs = {p: ex.submit(coqc, p, timeout) for p in paths}
        for p, f in futs.items():
            res[p] = f.result()
    # a shard that ran out of time on a loaded machine is compiled once more, alone, with three times the limit:
    # a timeout is not a verdict
    for p in paths:
        rc, out = res[p]
        if rc != 0 and "[timeout after" in out:
            res[p] = coqc(p, 3 * timeout)
    return res


def lint_coq() -> list[str]:
    """Forbidden-word scan of the whole development (comments stripped)."""
    bad = []
    for root, _, files in os.walk(COQ):
        for fn in files:
            if not fn.endswith(".v"):
                continue
            p = os.path.join(root, fn)
            txt = open(p).read()
            txt = re.sub(r"\(\*.*?\*\)", "", txt, flags=re.S)
            for m in FORBIDDEN.finditer(txt):
                bad.append(f"{os.path.relpath(p, COQ)}: {m.group(0)}")
            # Variable/Hypothesis outside a Section
            depth = 0
            for line in txt.splitlines():
                s = line.strip()
                if re.match(r"(Section|Module)\s", s) and s.startswith("Section"):
                    depth += 1
                elif re.match(r"End\s", s) and depth > 0:
                    depth -= 1
                elif depth == 0 and re.match(r"(Variable|Variables|Hypothesis|Hypotheses|Context)\b", s):
                    bad.append(f"{os.path.relpath(p, COQ)}: {s[:40]} outside Section")
    return bad


# ---------------------------------------------------------------- context / report
class Ctx:
    def __init__(self, pid, tier, seed):
        self.pid, self.tier, self.seed = pid, tier, seed
        self.t0 = time.time()
        self.scratch = tempfile.mkdtemp(prefix=f"verif_{pid}_")
        self.rng = random.Random(seed * 1000003 + int(pid[1:]))
        pin_env(self.scratch)

    @property
    def thorough(self):
        return self.tier == "thorough"

    def sub(self, name):
        d = os.path.join(self.scratch, name)
        os.makedirs(d, exist_ok=True)
        return d

    def cleanup(self):
        if os.environ.get("VERIF_KEEP"):       # debugging aid: keep the scratch directory (shards, images)
            print("scratch kept:", self.scratch)
            return
        shutil.rmtree(self.scratch, ignore_errors=True)


class Violation:
    def __init__(self, sig, what, replay=None, no_input=False):
        self.sig, self.what, self.replay, self.no_input = sig, what, replay or {}, no_input


class Report:
    def __init__(self, ctx):
        self.ctx = ctx
        self.obligations = []      # (name, ok)
        self.axioms = {}           # theorem -> text printed by Print Assumptions
        self.evaluations = 0
        self.nontrivial = set()    # canonical keys of distinct non-trivial cases
        self.rule = ""
        self.samples = []
        self.dist = {}
        self.violations = []
        self.trusted = []
        self.assumptions = []
        self.checker_cmds = []
        self.extra = {}
        self.exhaustive = None

    def oblig(self, name, ok):
        self.obligations.append((name, bool(ok)))

    def count(self, key, n=1):
        self.dist[key] = self.dist.get(key, 0) + n

    def case(self, key=None, sample=None):
        """Register one evaluated case; key!=None marks it non-trivial (distinct by key)."""
        self.evaluations += 1
        if key is not None:
            self.nontrivial.add(key if isinstance(key, (str, int, tuple)) else json.dumps(key, sort_keys=True, default=str))
        if sample is not None and len(self.samples) < 6:
            self.samples.append(sample)

    def violate(self, sig, what, replay=None, no_input=False):
        self.violations.append(Violation(sig, what, replay, no_input))


# ---------------------------------------------------------------- proof build
def build_props(ctx, rep, pid, extra_targets=(), timeout=1500):
    """make Props/<pid>.vo (+deps), then recompile Props/<pid>.v to capture Print Assumptions.
    Every Theorem/Lemma/Example of Props/<pid>.v is one obligation."""
    props_v = os.path.join(COQ, "Props", f"{pid}.v")
    names = re.findall(r"^\s*(?:Theorem|Lemma|Example|Corollary)\s+([A-Za-z0-9_']+)", open(props_v).read(), flags=re.M)
    with CoqLock():
        rc, out = make([f"Props/{pid}.vo", *extra_targets], timeout)
        if rc == 124 and "[timeout after" in out:       # a loaded machine: once more (make resumes where it stopped)
            rc, out = make([f"Props/{pid}.vo", *extra_targets], 2 * timeout)
        rep.checker_cmds.append(f"make -C coq Props/{pid}.vo (coqc 8.16.1 full .vo build)")
        if rc != 0:
            rep.extra["make_log_tail"] = out[-3000:]
            failing = re.findall(r'File "\./([^"]+)", line (\d+)', out)
            broken = failing[-1] if failing else ("?", "?")
            for n in names:
                rep.oblig(n, False)
            return False, out, f"{broken[0]}:{broken[1]}"
        rc2, out2 = sh(["coqc", "-Q", ".", "Molli", f"Props/{pid}.v"], 600, cwd=COQ)
        if rc2 == 124 and "[timeout after" in out2:
            rc2, out2 = sh(["coqc", "-Q", ".", "Molli", f"Props/{pid}.v"], 1800, cwd=COQ)
    if rc2 != 0:
        for n in names:
            rep.oblig(n, False)
        return False, out2, f"Props/{pid}.v"
    # parse Print Assumptions blocks: they follow in the order of the Print commands
    printed = re.findall(r"^\s*Print Assumptions\s+([A-Za-z0-9_']+)", open(props_v).read(), flags=re.M)
    blocks = re.split(r"(?m)^(?=Closed under the global context|Axioms:)", out2)
    blocks = [b.strip() for b in blocks if b.strip().startswith(("Closed", "Axioms"))]
    for i, n in enumerate(printed):
        rep.axioms[n] = blocks[i] if i < len(blocks) else "?"
    for n in names:
        rep.oblig(n, True)
    if ctx.thorough:
        # independent re-check of the compiled theorems and everything they depend on
        rc3, out3 = sh(["coqchk", "-silent", "-o", "-Q", ".", "Molli", f"Molli.Props.{pid}"], 2400, cwd=COQ)
        tail = out3[out3.rfind("* Theory"):] if "* Theory" in out3 else out3[-1500:]
        rep.extra["coqchk"] = {"rc": rc3, "summary": " ".join(tail.split())[:3000]}
        rep.oblig(f"coqchk:Props.{pid}", rc3 == 0)
        rep.checker_cmds.append(f"coqchk -silent -o -Q . Molli Molli.Props.{pid}")
        if rc3 != 0:
            return False, out3, f"coqchk Props.{pid}"
    return True, out2, None


# ---------------------------------------------------------------- correspondence shards
SHARD_HEAD = "(* generated by the correspondence harness; not kept *)\n"


def run_shards(ctx, rep, tag, header, check_fn, cases, shard=400, timeout=600, case_type=None):
    """cases: list of Coq terms (strings). check_fn: name of a Coq function case -> bool.
    Emits cases_k.v with `Example corr : bad_indices check cases = [].` closed by vm_compute,
    compiles all shards in parallel.  Returns the list of global indices that mismatch
    (empty when every Example was accepted by the kernel), or None on a build error."""
    d = ctx.sub("shards_" + tag)
    files = []
    for k in range(0, max(len(cases), 1), shard):
        chunk = cases[k:k + shard]
        p = os.path.join(d, f"cases_{tag}_{k // shard}.v")
        ty = f" : list ({case_type})" if case_type else ""
        body = (SHARD_HEAD + header + "\nFrom Molli Require Import Common.Corr.\n"
                + f"Definition cases{ty} := [\n" + ";\n".join(chunk) + "\n].\n"
                + f"Example corr : bad_indices {check_fn} cases = [].\nProof. vm_compute. reflexivity. Qed.\n")
        open(p, "w").write(body)
        files.append((p, k, len(chunk)))
    res = coqc_many([f[0] for f in files], timeout)
    bad = []
    failing = []
    for p, k, n in files:
        rc, out = res[p]
        name = f"corr_{tag}_{k // shard}"
        rep.oblig(name, rc == 0)
        if rc != 0:
            failing.append((p, k, out))
    # second pass (parallel, at most 6 shards): name the failing indices
    diag = {}
    for p, k, out in failing[:6]:
        txt = open(p).read()
        txt = txt[:txt.rindex("Example corr")] + f"Eval vm_compute in bad_indices {check_fn} cases.\n"
        p2 = p[:-2] + "_diag.v"
        open(p2, "w").write(txt)
        diag[p2] = (k, out)
    res2 = coqc_many(list(diag), timeout)
    for p2, (k, out) in diag.items():
        rc2, out2 = res2[p2]
        m = re.search(r"=\s*\[(.*?)\]\s*:\s*list nat", out2, flags=re.S)
        if rc2 != 0 or not m:
            rep.extra.setdefault("shard_errors", []).append(out[-1500:] + "\n--\n" + out2[-1500:])
            return None
        idx = [int(x.replace("%nat", "").strip()) for x in m.group(1).split(";") if x.strip()]
        bad.extend(k + i for i in idx)
    if len(failing) > 6:
        rep.extra["failing_shards_not_diagnosed"] = len(failing) - 6
    rep.checker_cmds.append(f"coqc cases_{tag}_*.v  ({len(files)} shard(s), Example closed by vm_compute)")
    return bad


# ---------------------------------------------------------------- known findings / verdict
def load_known():
    p = os.path.join(VERIF, "known_findings.json")
    out = json.load(open(p))["findings"] if os.path.exists(p) else []
    d = os.path.join(VERIF, "known_findings.d")      # development staging only; merged before commit
    if os.path.isdir(d):
        for fn in sorted(os.listdir(d)):
            if fn.endswith(".json"):
                out += json.load(open(os.path.join(d, fn)))["findings"]
    return out


def write_replay(pid, v: Violation, ctx) -> str:
    os.makedirs(os.path.join(VERIF, "replays"), exist_ok=True)
    body = {"property": pid, "signature": v.sig, "what": v.what, "seed": ctx.seed, "tier": ctx.tier,
            "no_failing_input_found": v.no_input, "replay": v.replay,
            "command": f"./check {pid} --replay <this file>"}
    h = hashlib.sha1(json.dumps([v.sig, v.replay], sort_keys=True, default=str).encode()).hexdigest()[:12]
    path = os.path.join(VERIF, "replays", f"{pid}-{h}.json")
    json.dump(body, open(path, "w"), indent=1, default=str)
    return path


def finish(ctx, rep, known_reproduced=()):
    """Print verdict lines, write evidence, return the exit code."""
    pid = ctx.pid
    known = [k for k in load_known() if k["property"] == pid and k.get("status") == "known"]
    known_sigs = {k["signature"]: k for k in known}
    real, hit = [], {}
    for v in rep.violations:
        if v.sig in known_sigs and not v.no_input:
            hit[v.sig] = hit.get(v.sig, 0) + 1
        else:
            real.append(v)
    for sig in known_reproduced:
        hit.setdefault(sig, 0)
    # fail closed: an obligation that did not check is never hidden by a known finding or by a
    # harness that forgot to report it
    failed_ob = [n for n, ok_ in rep.obligations if not ok_]
    if failed_ob and not real:
        real.append(Violation("broken:" + failed_ob[0],
                              f"{len(failed_ob)} obligation(s) no longer check ({', '.join(failed_ob[:8])}) and the search found no failing input",
                              {"obligations": failed_ob[:50], "detail": str(rep.extra.get("shard_errors", rep.extra.get("make_log_tail", "")))[-2000:]},
                              True))
    for sig in hit:
        print(f"KNOWN-FINDING: property={pid} {known_sigs[sig]['what']} [{sig}]")
    seen = set()
    lines = []
    for v in real:
        if v.sig in seen:
            continue
        seen.add(v.sig)
        path = write_replay(pid, v, ctx)
        tail = " no-failing-input-found" if v.no_input else ""
        lines.append(f"VIOLATION property={pid} replay={path}{tail}")
        print(f"  {v.sig}: {v.what}"[:600])
    n_ob = len(rep.obligations)
    n_ok = sum(1 for _, ok in rep.obligations if ok)
    axioms = sorted({ln.strip() for blk in rep.axioms.values() for ln in blk.splitlines()
                     if ln.strip() and not ln.startswith(("Axioms:", "Closed")) and ":" in ln and not ln.startswith(" " * 6)})
    ev = {
        "property_id": pid, "tier": ctx.tier, "seed": ctx.seed, "level": "proof",
        "coverage": {
            "obligations": n_ob, "discharged": n_ok,
            "checker_cmd": "; ".join(dict.fromkeys(rep.checker_cmds)) or "coqc",
            "trusted_base": rep.trusted + ["Coq 8.16.1 kernel incl. vm_compute (no native_compute)"]
            + (["axioms (Print Assumptions): " + "; ".join(a.split(":")[0].strip() for a in axioms)] if axioms else
               ["axioms: none (every property theorem is closed under the global context)"]),
            "evaluations": rep.evaluations, "distinct_nontrivial": len(rep.nontrivial),
            "rule": rep.rule, "samples": rep.samples or ["(none)"],
            "obligation_names": [n for n, _ in rep.obligations],
            "failed_obligations": [n for n, ok in rep.obligations if not ok],
            "print_assumptions": rep.axioms, "distribution": rep.dist,
            "known_findings_reproduced": sorted(hit),
            **({"exhaustive": rep.exhaustive} if rep.exhaustive is not None else {}),
            **rep.extra,
        },
        "assumptions": rep.assumptions,
        "wall_s": round(time.time() - ctx.t0, 2),
        "violations": len(seen),
    }
    os.makedirs(os.path.join(VERIF, "evidence"), exist_ok=True)
    json.dump(ev, open(os.path.join(VERIF, "evidence", f"{pid}.json"), "w"), indent=1, default=str)
    for ln in lines:
        print(ln)
    ok = not lines
    print(f"[{pid}] tier={ctx.tier} seed={ctx.seed} obligations={n_ok}/{n_ob} evaluations={rep.evaluations} "
          f"nontrivial={len(rep.nontrivial)} known={len(hit)} violations={len(seen)} wall={ev['wall_s']}s "
          + ("OK" if ok else "FAIL"))
    return 0 if ok else 1


def broken_obligation(rep, name, detail, found_inputs: bool):
    """A proof obligation / correspondence shard no longer checks and the search found no
    concrete failing input."""
    known_sigs = {k["signature"] for k in load_known() if k.get("status") == "known"}
    found_inputs = found_inputs and any(v.sig not in known_sigs and not v.no_input for v in rep.violations)
    if not found_inputs:
        rep.violate(f"broken:{name}", f"{name} no longer checks and the search found no failing input: {detail}",
                    {"obligation": name, "detail": detail[-2000:]}, no_input=True)
