#!/usr/bin/env python3
"""recordseed.py Cxx <srcdir/mk> <new-number> <round> <check_result> [ran]
Copies a confirmed seeded change (patch.diff, demo.py, note.txt) to /verif/seeded/Cxx-m<new-number>/ and writes
meta.json (property, what it breaks, what it needs to manifest, what was run, result).  'breaks' and 'needs' are taken
from note.txt (first line / the paragraph that says what it needs)."""
import sys, os, json, shutil, re
pid, src, num, rnd, result = sys.argv[1:6]
ran = sys.argv[6] if len(sys.argv) > 6 else f"MOLLI_REPO=<patched copy> ./check {pid} --tier quick"
dst = f"/verif/seeded/{pid}-m{num}"
os.makedirs(dst, exist_ok=True)
for f in ("patch.diff", "demo.py", "note.txt"):
    shutil.copy(os.path.join(src, f), os.path.join(dst, f))
note = open(os.path.join(src, "note.txt")).read()
lines = [l.rstrip() for l in note.split("\n")]
first = next(l for l in lines if l.strip())
first = re.sub(r"^(m\d+|Mutant\s*m?\d+)\s*(--|-|:)\s*", "", first.strip(), flags=re.I)
needs = ""
for i, l in enumerate(lines):
    if re.search(r"needs|to manifest|trigger", l, flags=re.I) and i > 0:
        chunk = []
        for m in lines[i:i + 7]:
            if not m.strip() and chunk:
                break
            chunk.append(m.strip())
        needs = " ".join(chunk)
        break
meta = {"property": pid, "breaks": first[:400], "needs_to_manifest": needs[:700],
        "confirmed": f"tools/seedtest.sh {pid} <dir>: demo exits 0 on a clean /repo copy, non-zero with the patch; baseline 81/81 with the patch",
        "check_result": result, "ran": ran, "round": int(rnd)}
json.dump(meta, open(os.path.join(dst, "meta.json"), "w"), indent=1)
print(dst, "|", meta["breaks"][:100], "|", result)
