"""Driver: ./check Cxx [--tier quick|thorough] [--replay FILE]  (see DESIGN.md section 4)."""
import sys, os, argparse, importlib, json, traceback
sys.path.insert(0, os.path.dirname(os.path.abspath(__file__)))
sys.path.insert(0, os.path.join(os.path.dirname(os.path.dirname(os.path.abspath(__file__))), "harness"))
import vlib


def main():
    ap = argparse.ArgumentParser()
    ap.add_argument("pid")
    ap.add_argument("--tier", default=os.environ.get("VERIF_TIER", "quick"), choices=["quick", "thorough"])
    ap.add_argument("--replay")
    a = ap.parse_args()
    seed = int(os.environ.get("VERIF_SEED", "0") or 0)
    ctx = vlib.Ctx(a.pid, a.tier, seed)
    try:
        mod = importlib.import_module(a.pid.lower())
        if a.replay:
            data = json.load(open(a.replay))
            vs = mod.replay(ctx, data["replay"])
            for v in vs:
                print(f"REPRODUCED {v.sig}: {v.what}")
            if not vs:
                print("not reproduced: the recorded input now satisfies the property")
            return 1 if vs else 0
        rep = vlib.Report(ctx)
        bad = vlib.lint_coq()
        rep.oblig("lint:no-admit-no-axiom", not bad)
        if bad:
            rep.violate("broken:lint", "forbidden construct in the Coq development: " + "; ".join(bad[:5]),
                        {"obligation": "lint", "detail": bad}, no_input=True)
        known_repro = mod.run(ctx, rep) or ()
        return vlib.finish(ctx, rep, known_repro)
    except Exception:
        traceback.print_exc()
        print(f"[{a.pid}] internal error in the check machinery (not a verdict)")
        return 2
    finally:
        ctx.cleanup()


if __name__ == "__main__":
    sys.exit(main())
