"""Driver: ./check Cxx [--tier quick|thorough] [--replay FILE]  (see DESIGN.md section 4)."""
import sys, os, argparse, importlib, json, traceback
sys.path.insert(0, os.path.dirname(os.path.abspath(__file__)))
sys.path.insert(0, os.path.join(os.path.dirname(os.path.dirname(os.path.abspath(__file__))), "harness"))
import vlib


def main():
    ap = argparse.ArgumentParser()
    ap.add_argument("pid")
    ap.add_argument("--tier", default=os.environ.get("VERIF_TIER", "quick"), choices=["quick", "thorough"])
    ap.add_argument("--replay")
    a = ap.parse_args()
    seed = int(os.environ.get("VERIF_SEED", "0") or 0)
    ctx = vlib.Ctx(a.pid, a.tier, seed)
    try:
        mod = importlib.import_module(a.pid.lower())
        if a.replay:
            data = json.load(open(a.replay))
            # inputs regenerated from the seed depend on the tier and seed of the run that recorded them
            if data.get("tier") in ("quick", "thorough"):
                ctx.tier = data["tier"]
            if isinstance(data.get("seed"), int):
                ctx.seed = data["seed"]
            vs = mod.replay(ctx, data["replay"])
            for v in vs:
                print(f"REPRODUCED {v.sig}: {v.what}")
            if not vs:
                print("not reproduced: the recorded input now satisfies the property")
            return 1 if vs else 0
        rep = vlib.Report(ctx)
        bad = vlib.lint_coq()
        rep.oblig("lint:no-admit-no-axiom", not bad)
        if bad:
            rep.violate("broken:lint", "forbidden construct in the Coq development: " + "; ".join(bad[:5]),
                        {"obligation": "lint", "detail": bad}, no_input=True)
        try:
            known_repro = mod.run(ctx, rep) or ()
        except Exception:
            # The harness could not complete its run.  On the unchanged tree this does not happen; when it does, the code under
            # test behaved in a way the driver of the correspondence run did not survive (e.g. it closed a stream the caller owns,
            # returned an object of another shape): the property is no longer shown to hold, and that is what is reported --
            # with the concrete violations found up to that point, or as a broken obligation naming the traceback.
            tb = traceback.format_exc()
            print(tb)
            rep.oblig("harness-run-completed", False)
            vlib.broken_obligation(rep, "harness-run", "the correspondence run did not complete:\n" + tb[-1800:], bool(rep.violations))
            known_repro = ()
        return vlib.finish(ctx, rep, known_repro)
    except Exception:
        traceback.print_exc()
        print(f"[{a.pid}] internal error in the check machinery (not a verdict)")
        return 2
    finally:
        ctx.cleanup()


if __name__ == "__main__":
    sys.exit(main())
