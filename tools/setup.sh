#!/bin/sh
# MANIFEST.setup_cmd: build the whole Coq development from files on disk (full .vo build).
cd /verif || exit 2
/venv/bin/python - <<'PY'
import sys; sys.path.insert(0, '/verif/tools')
import vlib
with vlib.CoqLock():
    vlib.ensure_makefile()
    rc, out = vlib.make([], timeout=3300)
print(out[-4000:])
sys.exit(rc)
PY
