#!/bin/sh
# MANIFEST.setup_cmd: build the Coq development needed by the registered checks (full .vo build).
cd /verif || exit 2
/venv/bin/python - <<'PY'
import sys, json; sys.path.insert(0, '/verif/tools')
import vlib
targets = [f"Props/{c['property_id']}.vo" for c in json.load(open('/verif/MANIFEST.json'))['checks']]
with vlib.CoqLock():
    vlib.ensure_makefile()
    rc, out = vlib.sh(["make", "-k", "-j16", "--no-print-directory"] + targets, 3300, cwd=vlib.COQ)
print(out[-4000:])
sys.exit(rc)
PY
