#!/bin/sh
# MANIFEST.setup_cmd: build the Coq development needed by the registered checks (full .vo build).
here=$(cd "$(dirname "$0")/.." && pwd)
cd "$here" || exit 2
/venv/bin/python - "$here" <<'PY'
import sys, json, time
here = sys.argv[1]
sys.path.insert(0, here + '/tools')
import vlib
t0 = time.time()
import glob, os
targets = ["Common/Corr.vo"] + [f"Props/{c['property_id']}.vo" for c in json.load(open(here + '/MANIFEST.json'))['checks']]
# auxiliary property files built by a registered check (e.g. Props/C02code.v: the translator tie of C02/C03)
targets += [f"Props/{os.path.basename(p)[:-2]}.vo" for p in sorted(glob.glob(here + '/coq/Props/*.v'))
            if f"Props/{os.path.basename(p)[:-2]}.vo" not in targets]
with vlib.CoqLock():
    vlib.ensure_makefile()
    rc, out = vlib.sh(["make", "-k", "-j16", "--no-print-directory"] + targets, 3000, cwd=vlib.COQ)
print(out[-3000:])
print("setup: %d targets, make rc=%d, %.0f s" % (len(targets), rc, time.time() - t0))
# A target that does not build here (e.g. a stale Gen/ snapshot) is rebuilt and REPORTED by its own check,
# which regenerates Gen/*.v from /repo first; setup itself only pre-builds.
sys.exit(0)
PY
