#!/bin/bash
# mkseedwt.sh Cxx : a scratch git worktree of /repo for an independent mutant-writing agent (under /tmp, removed later with
# `git -C /repo worktree remove --force /tmp/seed_Cxx`)
pid=$1; wt=/tmp/seed_$pid
git -C /repo worktree remove --force $wt 2>/dev/null; rm -rf $wt /tmp/seedhome_$pid
git -C /repo worktree add --detach $wt HEAD >/dev/null 2>&1 || exit 1
cp /repo/molli_xt.cpython-312-x86_64-linux-gnu.so $wt/
mkdir -p $wt/out /tmp/seedhome_$pid
echo $wt
