"""C09 -- every public load/dump entry point agrees with the class-level codec.

Tie T (exhaustive, regenerated every run): the six entry points of molli/reader.py and
molli/writer.py are executed on the WHOLE configuration matrix with recording mock classes;
the observed action of every cell is emitted as Gen/DispatchTable.v and Coq proves
`table = spec` on all cells (Props/C09.v).
Tie H / oracle: real files and objects through the same matrix, compared with the direct
class-method call (deep equality of molecules / written text).
Histories (no state between calls): the entry points called one after another in one process while
the file / string / object / stream changes in between -- under ONE persistent mock environment
(recorded histories = `run` of Model/DispatchSeq.v, decided by Coq shards; theorems C09_seq_*), and
on real files and objects (every step compared with the class-level codec on the source as it is now;
returned objects are modified by the caller, files are rewritten in place / replaced / with the old
time stamp and length).
What the caller owns: after EVERY call -- successful or refused -- the streams the caller handed over are
observed (StringIO and a text file opened by the caller: still open, positioned after the text, content
before the call untouched), the object dumped is compared with what it was, the file a reader was given is
re-read, and file handles the library opened and did not close are counted (ResourceWarning at
deallocation).  Model: `w_sstate` / `ob_sstate` / `ob_left_open` of Model/DispatchSeq.v (theorems
C09_seq_streams_stay_open, C09_seq_refused_leaves_world).  The harness itself never trusts a stream to be
usable after it was handed to the implementation.
Position and prior content of a caller-owned stream: a stream target may already HOLD text and be positioned at its
start (io.StringIO(text), a file opened "r+"), inside the text or behind it, and its owner rewinds / moves it between calls
(`OSeek`); the open mode is given or not.  Model: `sstate = SOpenAt p`, `write_at` (theorems C09_seq_dump_stream,
_dump_stream_at_end, _dump_stream_position); one-shot table: every stream cell x {StringIO, file} x {behind, start, middle}
x {no mode, mode="w"}; real objects: the class-level writer on a TWIN stream (same kind, text and position) is the reference.
Content alphabet: every record of the mock world (documents in files and strings, what the class-level writers write)
carries Latin-1-range, Greek, CJK and non-BMP characters, so a path opened with another encoding / error handler than the
class-level codec's hands over or stores other text; real files with such names, labels and comment lines, a byte order
mark, bytes that are not text in the default encoding (family `alphabet`), objects with such names and labels dumped.
"""
import io, os, re, sys, itertools, json, tempfile, hashlib, shutil, warnings
import vlib
from vlib import cq_list, cq_bool

VERBS = ["VLoad", "VLoads", "VLoadAll", "VLoadsAll", "VDump", "VDumps"]
FMTS = {"FXyz": "xyz", "FMol2": "mol2", "FCdxml": "cdxml", "FObabel": "sdf", "FUnknown": "zzz"}
FSRC = ["FsExplicit", "FsSuffix"]
OTYPES = ["OMol", "OEns", "OStructCls", "OEnsCls"]
TGTS = ["TPath", "TPathObj", "TStream", "TStr"]
PARSERS = {"PMolli": "molli", "PMolliUpper": "MOLLI", "PUnknown": "gaussian"}


def valid(verb, fmt, fsrc, otype, named, tgt, parser, dotted=False):
    if dotted and tgt not in ("TPath", "TPathObj"):
        return False          # the stem shape only exists for path sources / targets
    if verb in ("VLoad", "VLoadAll"):
        return tgt in ("TPath", "TPathObj")
    if verb in ("VLoads", "VLoadsAll"):
        return tgt == "TStr" and fsrc == "FsExplicit"
    if verb == "VDump":
        if otype not in ("OMol", "OEns") or named:
            return False
        if tgt == "TStream":
            return True   # FsSuffix with a stream = no format given at all
        return tgt in ("TPath", "TPathObj")
    if verb == "VDumps":
        return otype in ("OMol", "OEns") and not named and tgt == "TStr" and fsrc == "FsExplicit"
    return False


def all_cells():
    for c in itertools.product(VERBS, FMTS, FSRC, OTYPES, [False, True], TGTS, PARSERS, [False, True]):
        if valid(*c):
            yield c


def cell_term(c):
    verb, fmt, fsrc, otype, named, tgt, parser, dotted = c
    return f"(mk_cell {verb} {fmt} {fsrc} {otype} {cq_bool(named)} {tgt} {parser} {cq_bool(dotted)})"


# ------------------------------------------------------------------ mocks (tie T)
class Sent:
    """Result sentinel returned by a mock class method."""
    def __init__(self, **kw):
        self.__dict__.update(kw)


GIVEN_NAME = "given-name-7"


def _encodable(ch):
    try:
        ch.encode(__import__("locale").getpreferredencoding(False))
        return True
    except Exception:  # noqa
        return False


# CONTENT ALPHABET.  Every record that travels through an entry point -- a document in a file or in a string, what a
# class-level writer writes into a path / a stream / a returned string -- carries characters beyond ASCII: Latin-1
# range (e acute, degree sign, A ring), Greek, CJK (3 bytes in UTF-8) and a character outside the BMP (4 bytes).  A path
# source / target is opened by the entry point itself: it must be opened the way the class-level codec opens it (the
# default text encoding), so the class-level codec is handed / the file holds exactly these characters.  Only the
# characters the default encoding of this process can represent are used (all of them under UTF-8).
SAMPLER = "".join(ch for ch in "\u00e9\u00b0\u00c5\u03b2\u6c34\U0001F600" if _encodable(ch))
# Every record has the SAME width (in characters and in bytes): a record written at the position of a stream that
# already holds records replaces exactly one record (Model/DispatchSeq.v `write_at`).
TOKW = 36
TOK_RE = re.compile(r"<D(\d+)_*" + SAMPLER + r">|<W:([A-Za-z0-9]+):([A-Za-z0-9]+):(\d+):(\d+)_*" + SAMPLER + ">")


def tok_text(t):
    """Text of one token of Model/DispatchSeq.v: ('D', d) | ('W', verb, fmt, o, v) | ('B',)."""
    if t[0] == "D":
        body = f"<D{t[1]}"
    elif t[0] == "W":
        body = f"<W:{t[1]}:{t[2]}:{t[3]}:{t[4]}"
    else:
        return "<?>"
    return body + "_" * (TOKW - len(body) - len(SAMPLER) - 1) + SAMPLER + ">"


TOKB = len(tok_text(("D", 0)).encode(__import__("locale").getpreferredencoding(False)))    # width of a record in a file


def parse_toks(s):
    if s is None:
        return [("B",)]
    out, pos = [], 0
    for m in TOK_RE.finditer(s):
        if m.start() != pos or m.end() - m.start() != TOKW:
            return [("B",)]
        pos = m.end()
        out.append(("D", int(m.group(1))) if m.group(1) is not None
                   else ("W", m.group(2), m.group(3), int(m.group(4)), int(m.group(5))))
    return out if pos == len(s) else [("B",)]


def _read(path):
    """Text of a file as the class-level codec reads it (default text encoding).  Never raises on bytes that are
    not text in that encoding: they come back as U+FFFD, which no expected text contains."""
    with open(path, errors="replace") as f:
        return f.read()


def _readb(path):
    with open(path, "rb") as f:
        return f.read()


def _write(path, text):
    if isinstance(text, bytes):
        with open(path, "wb") as f:
            f.write(text)
        return
    with open(path, "w") as f:
        f.write(text)


def _detach(e):
    """Drop the frames an exception keeps alive (so that what the failed call left behind is released now)."""
    seen = set()
    while e is not None and id(e) not in seen:
        seen.add(id(e))
        e.__traceback__ = None
        e = e.__cause__ or e.__context__
    return None


class CallerStream:
    """A stream the CALLER owns and hands to the implementation: a plain io.StringIO (kind 0) or a text file the
    caller opened (kind 1).  It may already hold text (`pre`) and be positioned anywhere in it (`at` = number of
    characters before the position; None = behind the text): a StringIO built from a string starts at 0, a file
    that holds text is opened "r+" (starts at 0), either may have been rewound / moved by its owner.
    `observe`, `pos` never raise, whatever was done to the stream."""
    KINDS = ("stringio", "file")

    def __init__(self, kind, path=None, pre="", at=None):
        self.kind, self.path = kind, path
        if kind == 0:
            if pre and at is not None:
                self.st = io.StringIO(pre)          # positioned at 0, holding text
                self.st.seek(at)
            else:
                self.st = io.StringIO()
                self.st.write(pre)
        elif pre and at is not None:
            _write(path, pre)
            self.st = open(path, "r+")              # positioned at 0, holding text
            self.st.seek(len(pre[:at].encode(self.st.encoding)))
        else:
            self.st = open(path, "w+")
            self.st.write(pre)

    @classmethod
    def twin(cls, cs, path):
        """A stream of the same kind holding the same text at the same position (for the class-level writer)."""
        val, _ = cs.observe()
        t = cls.__new__(cls)
        t.kind, t.path = cs.kind, path
        if cs.kind == 0:
            t.st = io.StringIO(val)
            t.st.seek(cs.pos())
        else:
            _write(path, _readb(cs.path))
            t.st = open(path, "r+")
            t.st.seek(cs.pos())
        return t

    def seek_chars(self, at):
        """The owner moves its stream behind the first `at` characters of its text (None: behind the text)."""
        val, state = self.observe()
        if state == "SClosed" or val is None:
            return              # nothing the owner can do with it any more (that was observed and reported)
        try:
            if at is None:
                self.st.seek(0, 2)
            elif self.kind == 0:
                self.st.seek(at)
            else:
                self.st.seek(len(val[:at].encode(self.st.encoding)))
        except Exception:  # noqa -- never trust a stream that was handed to the implementation
            pass

    def pos(self):
        """Position as the stream reports it (characters for a StringIO, bytes for a file), None when it has none."""
        try:
            if self.kind == 1:
                self.st.flush()
            return self.st.tell()
        except Exception:  # noqa
            return None

    def observe(self):
        """(text now held, or None when it is lost; SOpenAtEnd | SOpenElsewhere | SClosed)."""
        st = self.st
        try:
            if self.kind == 0:
                if st.closed:
                    return None, "SClosed"
                val = st.getvalue()
                return val, ("SOpenAtEnd" if st.tell() == len(val) else "SOpenElsewhere")
            closed = st.closed
            if not closed:
                st.flush()
            val = _read(self.path)
            if closed:
                return val, "SClosed"
            return val, ("SOpenAtEnd" if st.tell() == len(_readb(self.path)) else "SOpenElsewhere")
        except Exception:  # noqa -- unusable for the caller
            return None, "SClosed"

    def sstate(self):
        """The `sstate` term of Model/DispatchSeq.v: open behind the first n records / open inside a record / closed."""
        val, state = self.observe()
        if state == "SClosed" or val is None:
            return "SClosed"
        p, w = self.pos(), (TOKW if self.kind == 0 else TOKB)
        return f"(SOpenAt {p // w}%nat)" if p is not None and p % w == 0 else "SOpenElsewhere"

    def dispose(self):
        try:
            self.st.close()
        except Exception:  # noqa
            pass


class LeakWatch:
    """Counts the file handles on files under `root` that were opened inside the block and dropped without being
    closed (CPython reports them with a ResourceWarning when the object is released).  The caller of the entry
    point must have let go of the exception of a refused call before the block ends."""

    def __init__(self, root):
        self.root, self.n, self.names = os.path.abspath(root), 0, []

    def __enter__(self):
        self.cm = warnings.catch_warnings(record=True)
        self.rec = self.cm.__enter__()
        warnings.simplefilter("always", ResourceWarning)
        return self

    def __exit__(self, *a):
        self.cm.__exit__(*a)
        for w in self.rec:
            if issubclass(w.category, ResourceWarning) and self.root in str(w.message):
                self.n += 1
                self.names.append(str(w.message)[:160])
        return False


def name_kind(kw):
    if "name" not in kw:
        return "NNone"      # not passing name = passing the class method's default None
    if kw["name"] is None:
        return "NNone"
    return "NGiven" if kw["name"] == GIVEN_NAME else "NWrong"


class MockEnv:
    """Recording mock classes around the six entry points.  ONE environment (the same mock classes, the
    same mock objects) serves a whole history of calls, so that state kept between calls -- keyed by
    path, by string, by class or by object -- is exercised; the one-shot table uses a fresh one per cell.
    `self.path` / `self.data` are the source the CURRENT call was given."""

    def __init__(self, ml):
        env = self
        self.ml = ml
        self.path = self.data = None
        self.objs = {}

        def read_src(x):
            try:
                if isinstance(x, str) and x is env.data:
                    return x
                if isinstance(x, (str, os.PathLike)):
                    with open(x) as f:
                        return f.read()
                if hasattr(x, "read"):
                    return x.read()
            except Exception:  # noqa
                pass
            return None

        def classify_src(x):
            path, data = env.path, env.data
            if isinstance(x, str) and x is data:
                return "SGivenStr"
            if path is not None and isinstance(x, (str, os.PathLike)) \
                    and os.path.abspath(os.fspath(x)) == os.path.abspath(str(path)):
                return "SStreamOfPath"     # handing the path itself to the class method (which opens it) is the same source
            if path is not None and hasattr(x, "read") and getattr(x, "name", None) is not None \
                    and os.path.abspath(str(x.name)) == os.path.abspath(str(path)) \
                    and "r" in getattr(x, "mode", "") and "b" not in getattr(x, "mode", "") and not x.closed:
                return "SStreamOfPath"
            return "SOtherSrc"

        def mk_cls(base, kname):
            ns = {"_kname": kname}

            def mk(vb, f2):
                def meth(cls, src, *a, **kw):
                    extra = bool(a) or bool(set(kw) - {"name"})
                    return Sent(kind="call", cls=cls._kname, meth=(vb, f2), src=classify_src(src),
                                name=name_kind(kw), extra=extra, seen=read_src(src))
                return classmethod(meth)
            for vb, pn in (("VLoad", "load"), ("VLoads", "loads"), ("VLoadAll", "load_all"), ("VLoadsAll", "loads_all")):
                for f2, fn in (("FXyz", "xyz"), ("FMol2", "mol2")):
                    ns[f"{pn}_{fn}"] = mk(vb, f2)

            def __init__(self, other=None, *a, **kw):
                self.ctor_arg = other
                self.ctor_extra = bool(a) or bool(kw)
            ns["__init__"] = __init__
            return type("Mock" + kname, (base,), ns)

        self.real = (ml.Molecule, ml.ConformerEnsemble, ml.CDXMLFile)
        real_ens = ml.ConformerEnsemble
        self.MMol = mk_cls(ml.Molecule, "KMol")
        self.MEns = mk_cls(ml.ConformerEnsemble, "KEns")
        self.MStruct = mk_cls(ml.Structure, "KStruct")
        self.MEnsCls = mk_cls(self.MEns, "KEnsCls")

        class MockCDX:
            def __init__(self, p):
                self.path_ok = env.path is not None and os.path.abspath(str(p)) == os.path.abspath(str(env.path))
                self.xfrags = ["frag0", "frag1", "frag2"]
                self.seen = read_src(p)          # the document is parsed when the object is built

            def _parse_fragment(self, fg, name=None, **kw):
                return Sent(kind="frag", idx=self.xfrags.index(fg), name=name_kind({"name": name}),
                            path_ok=self.path_ok, seen=self.seen)

            def __getitem__(self, key):
                return Sent(kind="fragkey", key=key)
        self.MockCDX = MockCDX

        class MockObj:
            def __init__(self, oid=0):
                self.calls = []
                self.oid, self.ver = oid, 0

            def _rec(self, meth, stream, a, kw):
                tok = tok_text(("W", meth[0], meth[1], self.oid, self.ver))
                self.calls.append((meth, stream, bool(a) or bool(kw), tok))
                if stream is not None:
                    stream.write(tok)

            def dump_xyz(self, stream, *a, **kw): self._rec(("VDump", "FXyz"), stream, a, kw)
            def dump_mol2(self, stream, *a, **kw): self._rec(("VDump", "FMol2"), stream, a, kw)

            def _recs(self, meth, a, kw):
                self.calls.append((meth, None, bool(a) or bool(kw), None))
                return Sent(kind="dumps", meth=meth, seen=tok_text(("W", meth[0], meth[1], self.oid, self.ver)))

            def dumps_xyz(self, *a, **kw): return self._recs(("VDumps", "FXyz"), a, kw)
            def dumps_mol2(self, *a, **kw): return self._recs(("VDumps", "FMol2"), a, kw)

        class MockEnsObj(MockObj, real_ens):
            def __init__(self, oid=0):
                MockObj.__init__(self, oid)
        self.MockObj, self.MockEnsObj = MockObj, MockEnsObj

    def __enter__(self):
        ml = self.ml
        ml.Molecule, ml.ConformerEnsemble, ml.CDXMLFile = self.MMol, self.MEns, self.MockCDX
        return self

    def __exit__(self, *a):
        ml = self.ml
        ml.Molecule, ml.ConformerEnsemble, ml.CDXMLFile = self.real

    def obj(self, otype, oid=0):
        """The mock object #oid of the kind the cell asks for (persistent within the environment)."""
        k = (otype == "OMol", oid)
        if k not in self.objs:
            self.objs[k] = self.MockObj(oid) if otype == "OMol" else self.MockEnsObj(oid)
        return self.objs[k]

    def call(self, c, path=None, data=None, obj=None, stream=None, mode="w", fresh=True):
        """Run the entry point of cell c once. path: the file read / written (str); data: the string given;
        obj: the mock object dumped; stream: the CallerStream given (tgt TStream).  fresh: the target was empty
        before (then its whole content must be the record written, otherwise its tail).
        Returns (Coq `action` term, text seen by the class-level codec or None).
        AOdd codes: 1 dump returned something, 2 class writer called more than once, 3 extra arguments, 4 dumps odd,
        11 the object dumped was modified by the call (7-10: observe_cell)."""
        act, seen = self._call(c, path, data, obj, stream, mode, fresh)
        if obj is not None and (obj.oid, obj.ver, sorted(vars(obj))) != self._obj_before:
            return "(AOdd 11)", None
        return act, seen

    def _call(self, c, path, data, obj, stream, mode, fresh):
        ml = self.ml
        verb, fmt, fsrc, otype, named, tgt, parser, dotted = c
        ext = FMTS[fmt]
        self.path, self.data = path, data
        self._obj_before = None if obj is None else (obj.oid, obj.ver, sorted(vars(obj)))
        ot = {"OMol": "molecule", "OEns": "ensemble", "OStructCls": self.MStruct, "OEnsCls": self.MEnsCls}[otype]
        kw = {"parser": PARSERS[parser]}
        if named:
            kw["name"] = GIVEN_NAME
        fmt_arg = ext if fsrc == "FsExplicit" else None
        p_arg = None if path is None else (path if tgt == "TPath" else __import__("pathlib").Path(path))
        try:
            if verb in ("VLoad", "VLoadAll"):
                fn = ml.load if verb == "VLoad" else ml.load_all
                res = fn(p_arg, fmt_arg, otype=ot, **kw)
            elif verb in ("VLoads", "VLoadsAll"):
                fn = ml.loads if verb == "VLoads" else ml.loads_all
                res = fn(data, fmt_arg, otype=ot, **kw)
            elif verb == "VDump":
                n0 = len(obj.calls)
                target = stream.st if tgt == "TStream" else p_arg
                # the open mode is a property of a PATH target; a stream target is handed over without one (the default)
                # or with one -- it must not matter
                mkw = {} if (tgt == "TStream" and mode in (None, "a")) else {"mode": mode}
                res = ml.dump(obj, target, fmt_arg, writer=PARSERS[parser], **mkw)
                calls = obj.calls[n0:]
                if res is not None or len(calls) != 1:
                    return ("(AOdd 1)" if res is not None else ("ANothing" if not calls else "(AOdd 2)")), None
                meth, st, extra, tok = calls[0]
                if extra:
                    return "(AOdd 3)", None
                if tgt == "TStream":
                    # the record arrived in the stream given (WHERE it arrived, and what else the stream holds, is the
                    # observation of the world: `ob_streams` / `ob_sstate`, one-shot: observe_cell)
                    val, state = stream.observe()
                    ok = st is stream.st and state != "SClosed" and val is not None and (val == tok if fresh else tok in val)
                    return f"(AWrote ({meth[0]}, {meth[1]}) SGivenStream {cq_bool(ok)})", None
                val = _read(path)
                ok = st.closed and (val == tok if fresh else val.endswith(tok)) and os.path.abspath(st.name) == os.path.abspath(path)
                return f"(AWrote ({meth[0]}, {meth[1]}) SOpenedPath {cq_bool(ok)})", None
            else:
                n0 = len(obj.calls)
                res = ml.dumps(obj, fmt_arg, writer=PARSERS[parser])
                calls = obj.calls[n0:]
                if isinstance(res, Sent) and res.kind == "dumps" and len(calls) == 1 and not calls[0][2]:
                    return f"(ARet (RDumps ({res.meth[0]}, {res.meth[1]})))", res.seen
                return ("ANothing" if res is None and not calls else "(AOdd 4)"), None
        except (ValueError, NotImplementedError):
            return "(ARaise XUnsupported)", None
        except BaseException as e:  # noqa
            return f"(ARaise XOther) (* {type(e).__name__} *)", None
        finally:
            self.path = self.data = None

        # classify a load-like result
        seen = []

        def one(r):
            if isinstance(r, Sent) and r.kind == "call":
                if r.extra:
                    return "(ROdd 5)"
                seen.append(r.seen)
                return f"(RCall {r.cls} ({r.meth[0]}, {r.meth[1]}) {r.src} {r.name})"
            if hasattr(r, "ctor_arg") and isinstance(r.ctor_arg, Sent) and r.ctor_arg.kind == "frag" and not r.ctor_extra \
                    and r.ctor_arg.path_ok:
                seen.append(r.ctor_arg.seen)
                return f"(RCtor {type(r)._kname} {r.ctor_arg.idx}%nat {r.ctor_arg.name})"
            return "(ROdd 6)"
        if res is None:
            return "ANothing", None
        if isinstance(res, list):
            act = "(ARet (RList " + cq_list(one(r) for r in res) + "))"
        else:
            act = f"(ARet {one(res)})"
        if not seen or any(x != seen[0] for x in seen):
            return act, None
        return act, seen[0]


ODD_CODES = {7: "caller-stream-closed", 8: "caller-stream-content-or-position", 9: "stream-kinds-positions-or-modes-treated-differently",
             10: "handle-left-open", 11: "object-dumped-was-modified"}
PRE_TEXT = tok_text(("D", 7)) + tok_text(("D", 8))       # what a caller's stream already holds before the one-shot call
# where the caller's stream is positioned when it is handed over (in records; None = behind the text): behind its text,
# at its start (a StringIO built from a string, a file opened "r+", a stream rewound to be overwritten), in the middle
ONESHOT_AT = (None, 0, 1)


def observe_cell(ml, c, work):
    """Run one cell ONCE against fresh recording mocks and fresh files; return the Coq `action` term.
    What the caller owns is part of the observation: AOdd 7 = the stream given was closed by the call, 8 = the stream
    does not hold `write_at (what it held) (its position) [the record]` / a refused call wrote into it or moved it / it
    is not positioned right behind the record, 9 = a StringIO and a caller-opened file, or streams positioned behind
    their text / at their start / in the middle, are treated differently, 10 = a file handle opened by the library was
    left open."""
    verb, fmt, fsrc, otype, named, tgt, parser, dotted = c
    ext = FMTS[fmt]
    stem = "in.put.v2" if dotted else "input"
    path = os.path.join(work, stem + "." + (ext if fsrc == "FsSuffix" else "dat"))
    _write(path, "mock file body\n")
    data = "mock string body " + ext

    def once(env, kind, at=None, mode="w"):
        if verb in ("VLoad", "VLoadAll"):
            return env.call(c, path=path)[0]
        if verb in ("VLoads", "VLoadsAll"):
            return env.call(c, data=data)[0]
        obj = env.obj(otype)
        if verb == "VDump":
            opath = os.path.join(work, stem.replace("in", "out") + "." + (ext if fsrc == "FsSuffix" else "dat"))
            if os.path.exists(opath):
                os.remove(opath)
            if tgt == "TStream":
                cs = CallerStream(kind, os.path.join(work, "caller_stream.log"), pre=PRE_TEXT,
                                  at=None if at is None else at * TOKW)
                n0 = len(PRE_TEXT) // TOKW if at is None else at
                try:
                    st0 = cs.sstate()
                    a = env.call(c, obj=obj, stream=cs, fresh=False, mode=mode)[0]
                    val, state = cs.observe()
                    if state == "SClosed":
                        return "(AOdd 7)"
                    if val is None or st0 != f"(SOpenAt {n0}%nat)":
                        return "(AOdd 8)"
                    if a.startswith("(ARaise"):
                        return a if val == PRE_TEXT and cs.sstate() == st0 else "(AOdd 8)"
                    # the record (whatever it is) lies AT the position; before and behind it the stream holds what it held
                    if len(val) != max(len(PRE_TEXT), (n0 + 1) * TOKW) or val[:n0 * TOKW] != PRE_TEXT[:n0 * TOKW] \
                            or val[(n0 + 1) * TOKW:] != PRE_TEXT[(n0 + 1) * TOKW:] or cs.sstate() != f"(SOpenAt {n0 + 1}%nat)" \
                            or parse_toks(val[n0 * TOKW:(n0 + 1) * TOKW])[0][0] != "W":
                        return "(AOdd 8)"
                    return a
                finally:
                    cs.dispose()
            return env.call(c, path=opath, obj=obj)[0]
        return env.call(c, obj=obj)[0]

    acts = []
    # a stream target: both kinds x every position x without an open mode (the default) / with mode="w"
    for kind, at, mode in (itertools.product((0, 1), ONESHOT_AT, (None, "w")) if tgt == "TStream" else ((0, None, "w"),)):
        with MockEnv(ml) as env:
            with LeakWatch(work) as lw:
                a = once(env, kind, at, mode)
            acts.append("(AOdd 10)" if lw.n else a)
    if any(a != acts[0] for a in acts):
        # the most specific observation names the cell: what happened to the caller's stream, else "treated differently"
        odd = [a for a in acts if a.startswith("(AOdd")]
        return odd[0] if odd else "(AOdd 9)"
    return acts[0]


def gen_table(ctx):
    import molli as ml
    work = ctx.sub("c09mock")
    rows = []
    for c in all_cells():
        rows.append((c, observe_cell(ml, c, work)))
    txt = ("(* REGENERATED on every run by harness/c09.py from the behaviour of molli/reader.py and\n"
           "   molli/writer.py under recording mocks -- do not edit. *)\n"
           "From Coq Require Import List. Import ListNotations.\nFrom Molli Require Import Model.Dispatch.\n\n"
           "Definition table : list (cell * action) := [\n  "
           + ";\n  ".join(f"({cell_term(c)}, {a})" for c, a in rows) + "\n].\n")
    vlib.write_if_changed(os.path.join(vlib.COQ, "Gen", "DispatchTable.v"), txt)
    return rows


# ------------------------------------------------------------------ spec mirror (for the search) + oracle on real objects
def py_spec(c):
    """Python mirror of Model/Dispatch.v `spec` -- used only to name mismatching cells."""
    verb, fmt, fsrc, otype, named, tgt, parser, dotted = c
    nm = "NGiven" if named else "NNone"
    cls = {"OMol": "KMol", "OEns": "KEns", "OStructCls": "KStruct", "OEnsCls": "KEnsCls"}[otype]
    ens = otype in ("OEns", "OEnsCls")
    if parser == "PUnknown":
        return "(ARaise XUnsupported)"
    if verb in ("VLoadAll", "VLoadsAll") and ens:
        return "(ARaise XUnsupported)"
    if verb == "VDump" and tgt == "TStream" and fsrc == "FsSuffix":
        return "(ARaise XUnsupported)"
    if fmt in ("FObabel", "FUnknown"):
        return "(ARaise XUnsupported)"
    if fmt == "FCdxml":
        if verb == "VLoad":
            return f"(ARet (RCtor {cls} 0%nat {nm}))"
        if verb == "VLoadAll":
            return "(ARet (RList " + cq_list(f"(RCtor {cls} {i}%nat {nm})" for i in range(3)) + "))"
        return "(ARaise XUnsupported)"
    if verb in ("VLoad", "VLoadAll"):
        return f"(ARet (RCall {cls} ({verb}, {fmt}) SStreamOfPath {nm}))"
    if verb in ("VLoads", "VLoadsAll"):
        return f"(ARet (RCall {cls} ({verb}, {fmt}) SGivenStr {nm}))"
    if verb == "VDump":
        return f"(AWrote (VDump, {fmt}) {'SGivenStream' if tgt == 'TStream' else 'SOpenedPath'} true)"
    return f"(ARet (RDumps (VDumps, {fmt})))"


# ------------------------------------------------------------------ replayable histories
class Confirm:
    """State kept by the implementation may come from an EARLIER history of the same run.  A diverging history is
    therefore re-run alone in a fresh process; when it does not diverge there, the recorded input becomes
    'the earlier histories of this run, then this one' (replayed in that order in one process)."""

    def __init__(self, ctx, kind, cap=10):
        self.ctx, self.kind, self.cap, self.seen, self.n = ctx, kind, cap, set(), 0

    def replay_dict(self, sig, prog_json, before_json):
        if sig in self.seen:
            return None                      # one recorded input per signature
        self.seen.add(sig)
        data = {"kind": self.kind, "prog": prog_json}
        if self.n < self.cap:
            self.n += 1
            f = os.path.join(self.ctx.sub("confirm"), f"{self.kind}{self.n}.json")
            json.dump({"replay": data}, open(f, "w"))
            rc, out = vlib.sh([sys.executable, os.path.join(vlib.VERIF, "tools", "check.py"), "C09", "--replay", f], 300)
            if rc == 1 and "REPRODUCED" in out:
                return data
        return {**data, "before": before_json}


# ------------------------------------------------------------------ histories under mocks (Model/DispatchSeq.v)
# op = ("call", cell, slot, o, v, "a"|"w") | ("rewrite", fkey, d) | ("seek", stream, p);
# fkey = (slot, ext-kind, dotted), ext-kind = fmt tag | "EDat".
# A history may START with the pseudo-operation ("streams", (docs, p), (docs, p)): what the caller's streams #0 / #1 hold
# (documents) and where they are positioned (records; None = behind the text) when the history begins -- it is the
# initial world of Model/DispatchSeq.v, not an operation of it.
def split_prog(prog):
    """(initial streams [(docs, position in records)] per stream, the operations)."""
    if prog and prog[0][0] == "streams":
        ini = [(list(d), len(d) if p is None else min(p, len(d))) for d, p in prog[0][1:]]
        return ini, list(prog[1:])
    return [([], 0) for _ in range(N_STREAMS)], list(prog)


def fkey_of(c, slot):
    return (slot, c[1] if c[2] == "FsSuffix" else "EDat", c[7])


def fkey_name(k):
    slot, ek, dotted = k
    return f"s{slot}" + (".v2.x" if dotted else "") + "." + ("dat" if ek == "EDat" else FMTS[ek])


def tok_term(t):
    if t[0] == "D":
        return f"(TDoc {t[1]}%nat)"
    if t[0] == "W":
        return f"(TW ({t[1]}, {t[2]}) {t[3]}%nat {t[4]}%nat)"
    return "TBad"


def text_term(toks):
    return cq_list(tok_term(t) for t in toks)


def fkey_term(k):
    return f"({k[0]}%nat, {'EDat' if k[1] == 'EDat' else '(EFmt ' + k[1] + ')'}, {cq_bool(k[2])})"


def op_term(op):
    if op[0] == "rewrite":
        return f"(ORewrite {fkey_term(op[1])} {op[2]}%nat)"
    if op[0] == "seek":
        return f"(OSeek {op[1]}%nat {op[2]}%nat)"
    if op[0] == "streams":
        return "(* the caller's streams hold " + " / ".join(f"documents {list(d)} positioned behind {p} record(s)"
                                                              for d, p in split_prog([op])[0]) + " *)"
    _, c, slot, o, v, md = op
    return f"(OCall {cell_term(c)} {slot}%nat {o}%nat {v}%nat {'MAppend' if md == 'a' else 'MTrunc'})"


def op_json(op):
    if op[0] == "seek":
        return list(op)
    if op[0] == "streams":
        return ["streams"] + [[list(d), p] for d, p in op[1:]]
    return ["rewrite", list(op[1]), op[2]] if op[0] == "rewrite" else ["call", list(op[1]), *op[2:]]


def op_unjson(j):
    if j[0] == "seek":
        return tuple(j)
    if j[0] == "streams":
        return ("streams",) + tuple((tuple(d), p) for d, p in j[1:])
    return ("rewrite", tuple(j[1]), j[2]) if j[0] == "rewrite" else ("call", tuple(j[1]), *j[2:])


def prog_files(prog):
    """Every file a history addresses, in order of first use; initial content = a document of its own."""
    ks = []
    for op in prog:
        k = None
        if op[0] in ("seek", "streams"):
            continue
        if op[0] == "rewrite":
            k = op[1]
        elif op[1][0] in ("VLoad", "VLoadAll") or (op[1][0] == "VDump" and op[1][5] != "TStream"):
            k = fkey_of(op[1], op[2])
        if k is not None and k not in ks:
            ks.append(k)
    return [(k, [("D", 10 + i)]) for i, k in enumerate(ks)]


N_STREAMS = 2


def py_step(files, streams, op):
    """Python mirror of Model/DispatchSeq.v `step` (used to NAME the diverging step; Coq decides).
    streams[s] = [records, position in records]."""
    if op[0] == "rewrite":
        files[op[1]] = [("D", op[2])]
        return "ANothing", None
    if op[0] == "seek":
        streams[op[1]][1] = min(op[2], len(streams[op[1]][0]))
        return "ANothing", None
    _, c, slot, o, v, md = op
    a = py_spec(c)
    verb, k = c[0], fkey_of(c, slot)
    if verb in ("VLoad", "VLoadAll") and a.startswith("(ARet"):
        return a, list(files[k])
    if verb in ("VLoads", "VLoadsAll") and a.startswith("(ARet"):
        return a, [("D", slot)]
    if verb == "VDump" and a.startswith("(AWrote"):
        tok = ("W", "VDump", c[1], o, v)
        if c[5] == "TStream":
            t, q = streams[slot]                    # write_at: the record replaces the one at the position (or is appended)
            streams[slot] = [t[:q] + [tok] + t[q + 1:], q + 1]
        else:
            files[k] = (files[k] if md == "a" else []) + [tok]
        return a, None
    if verb == "VDumps" and a.startswith("(ARet"):
        return a, [("W", "VDumps", c[1], o, v)]
    return a, None


def observe_prog(ml, prog, work):
    """Run one history against ONE mock environment in a fresh directory.
    Returns (init files, [ (action, seen toks|None, [file toks], [stream toks], [stream states], handles left open)
    per step ]).  Stream #0 is a StringIO, stream #1 a text file opened by the caller."""
    os.makedirs(work, exist_ok=True)
    sini, prog = split_prog(prog)
    init = prog_files(prog)
    pth = {k: os.path.join(work, fkey_name(k)) for k, _ in init}
    for k, t in init:
        _write(pth[k], "".join(tok_text(x) for x in t))
    # a stream that holds text when the history begins and is not positioned behind it is BUILT that way
    # (io.StringIO(text) / open(path, "r+")), one positioned behind its text was written by its owner
    streams = [CallerStream(i % 2, os.path.join(work, f"caller_stream{i}.log"),
                            pre="".join(tok_text(("D", d)) for d in docs), at=None if q == len(docs) else q * TOKW)
               for i, (docs, q) in enumerate(sini)]
    datas = {}
    mfiles = {k: list(t) for k, t in init}                                          # mirror, for the repair below
    mstreams = [[[("D", d) for d in docs], q] for docs, q in sini]
    out = []
    try:
        with MockEnv(ml) as env:
            for op in prog:
                leaks = 0
                if op[0] == "seek":
                    cs = streams[op[1]]
                    val, _ = cs.observe()
                    if val is not None:
                        cs.seek_chars(min(op[2], len(val) // TOKW) * TOKW)
                    act, seen = "ANothing", None
                elif op[0] == "rewrite":
                    st0 = os.stat(pth[op[1]])
                    _write(pth[op[1]], tok_text(("D", op[2])))
                    if op[2] % 2:       # odd documents arrive with the time stamp (and length) of what they replace
                        os.utime(pth[op[1]], ns=(st0.st_atime_ns, st0.st_mtime_ns))
                    act, seen = "ANothing", None
                else:
                    _, c, slot, o, v, md = op
                    verb = c[0]
                    with LeakWatch(work) as lw:
                        if verb in ("VLoad", "VLoadAll"):
                            act, seen = env.call(c, path=pth[fkey_of(c, slot)])
                        elif verb in ("VLoads", "VLoadsAll"):
                            # one string object per document: calling again with the same document hands over the same string
                            data = datas.setdefault(slot, tok_text(("D", slot)))
                            act, seen = env.call(c, data=data)
                        else:
                            obj = env.obj(c[3], o)
                            obj.ver = v                     # the object was modified since the previous call
                            if verb == "VDump" and c[5] == "TStream":
                                act, seen = env.call(c, obj=obj, stream=streams[slot], mode=md, fresh=False)
                            elif verb == "VDump":
                                act, seen = env.call(c, path=pth[fkey_of(c, slot)], obj=obj, mode=md, fresh=False)
                            else:
                                act, seen = env.call(c, obj=obj)
                    leaks = lw.n
                py_step(mfiles, mstreams, op)
                if op[0] == "call" and op[1][0] == "VDump" and op[1][5] != "TStream" and act.startswith("(ARaise"):
                    # a refused dump: whether the (already opened) target was created / truncated is not part of the
                    # property -- put the file back so that it is not observed
                    k = fkey_of(op[1], op[2])
                    _write(pth[k], "".join(tok_text(x) for x in mfiles[k]))
                fobs = []
                for k, _ in init:
                    try:
                        fobs.append(parse_toks(_read(pth[k])))
                    except OSError:
                        fobs.append([("B",)])
                sob = [cs.observe() for cs in streams]      # never raises: a closed / garbled stream is an observation
                out.append((act, None if seen is None else parse_toks(seen), fobs, [parse_toks(t) for t, _ in sob],
                            [cs.sstate() for cs in streams], leaks))
    finally:
        for cs in streams:
            cs.dispose()
    return init, out


def model_prog(prog):
    sini, prog = split_prog(prog)
    init = prog_files(prog)
    files, streams = {k: list(t) for k, t in init}, [[[("D", d) for d in docs], q] for docs, q in sini]
    out = []
    for op in prog:
        a, seen = py_step(files, streams, op)
        out.append((a, seen, [list(files[k]) for k, _ in init], [list(t) for t, _ in streams],
                    [f"(SOpenAt {q}%nat)" for _, q in streams], 0))
    return init, out


def seqcase_term(init, prog, obs):
    sini, prog = split_prog(prog)
    w = ("(mk_world " + cq_list(f"({fkey_term(k)}, {text_term(t)})" for k, t in init) + " "
         + cq_list(f"({i}%nat, {text_term([('D', d) for d in docs])})" for i, (docs, q) in enumerate(sini)) + " "
         + cq_list(f"({i}%nat, (SOpenAt {q}%nat))" for i, (docs, q) in enumerate(sini)) + ")")
    ob = cq_list(f"(mk_obs ({a}, {'None' if sn is None else '(Some ' + text_term(sn) + ')'}) "
                 f"{cq_list(text_term(t) for t in fo)} {cq_list(text_term(t) for t in so)} {cq_list(ss)} {lk}%nat)"
                 for a, sn, fo, so, ss, lk in obs)
    return f"(mk_seqcase {w} {cq_list(op_term(o) for o in prog)} {ob})"


def judge_prog(prog, obs):
    """First step where the recorded history leaves the model: (signature, text) or None."""
    _, want = model_prog(prog)
    head_ops = [o for o in prog[:1] if o[0] == "streams"]
    _, prog = split_prog(prog)
    last_touch = {}
    for i, (op, g, w) in enumerate(zip(prog, obs, want)):
        if op[0] == "call":
            c = op[1]
            src = ("data", op[2]) if c[0] in ("VLoads", "VLoadsAll") else ("obj", c[3], op[3]) if c[0] == "VDumps" else \
                  ("stream", op[2]) if c[5] == "TStream" else ("file", fkey_of(c, op[2]))
            rel = last_touch.get(src, "first")
        ga = g[0].split(" (*")[0]
        what = None
        if ga != w[0]:
            what = f"action:{g[0].split()[0].strip('()')}"
            detail = f"did {g[0]}, specified {w[0]}"
        elif g[1] != w[1]:
            what = "stale-or-wrong-source"
            detail = (f"the class-level codec was handed / rendered {None if g[1] is None else ''.join(map(tok_text, g[1]))!r} "
                      f"but the source holds {None if w[1] is None else ''.join(map(tok_text, w[1]))!r} now")
        elif g[4] != w[4]:
            # an object the CALLER owns: the stream handed over (or any other stream) was closed / left elsewhere
            j = [a != b for a, b in zip(g[4], w[4])].index(True)
            what = (f"caller-stream-{'closed' if g[4][j] == 'SClosed' else 'position'}:{CallerStream.KINDS[j % 2]}:"
                    f"{'refused' if w[0].startswith('(ARaise') else 'accepted'}-call")
            detail = (f"stream #{j} ({CallerStream.KINDS[j % 2]}) of the caller is {g[4][j]} and holds "
                      f"{None if g[3][j] is None else ''.join(map(tok_text, g[3][j]))!r} after the call "
                      f"(the call {'was refused with ' + w[0] if w[0].startswith('(ARaise') else 'did ' + w[0]}); it must be left "
                      f"open, {w[4][j]} (a record is written AT the position the stream had, the stream is left right behind it; "
                      f"a refused call does not move it), holding {''.join(map(tok_text, w[3][j]))!r}")
        elif g[2] != w[2] or g[3] != w[3]:
            what = "world"
            detail = (f"files/streams afterwards {[''.join(map(tok_text, t)) for t in g[2] + g[3]]}, "
                      f"specified {[''.join(map(tok_text, t)) for t in w[2] + w[3]]}")
        if not what and g[5] != w[5]:
            what = "handle-left-open:" + ("refused" if w[0].startswith("(ARaise") else "accepted") + "-call"
            detail = f"{g[5]} file handle(s) opened by the library during the call were dropped without being closed"
        if what:
            if op[0] == "call":
                head = f"C09:seq:{c[0]}:{c[1]}:{rel}:{what}"
            else:
                head = f"C09:seq:{op[0]}:{what}"
            hist = " ; ".join(op_term(o) for o in head_ops + prog[:i + 1])
            return head, f"step {i} of the history [{hist}]: {detail}"
        if op[0] == "call":
            last_touch[src] = "after-" + c[0]
            if c[0] == "VDump" and c[5] != "TStream":
                last_touch[("file", fkey_of(c, op[2]))] = "after-VDump"
        elif op[0] == "seek":
            last_touch[("stream", op[1])] = "after-seek"
        else:
            last_touch[("file", op[1])] = "after-rewrite"
    return None


def gen_progs(ctx, rep):
    """Histories: a directed 'call, change the source, call again' family over EVERY valid cell, and random ones."""
    rng = ctx.rng
    cells = list(all_cells())
    by_key = {}
    for c in cells:
        if c[0] in ("VLoad", "VLoadAll"):
            by_key.setdefault((c[1], c[2], c[7]), []).append(c)
    progs = []
    for c in cells:
        verb = c[0]
        if c[6] != "PMolli" and not ctx.thorough and rng.random() < 0.75:
            continue      # quick tier: every cell with the plain parser spelling, a quarter of the other spellings
        if verb in ("VLoad", "VLoadAll"):
            k = fkey_of(c, 0)
            sib = rng.choice(by_key[(c[1], c[2], c[7])])     # another reader configuration addressing the same file
            p = [("call", c, 0, 0, 0, "a"), ("rewrite", k, 31), ("call", c, 0, 0, 0, "a"), ("call", sib, 0, 0, 0, "a"),
                 ("rewrite", k, 32), ("call", sib, 0, 0, 0, "a"), ("call", c, 0, 0, 0, "a")]
        elif verb in ("VLoads", "VLoadsAll"):
            p = [("call", c, 41, 0, 0, "a"), ("call", c, 42, 0, 0, "a"), ("call", c, 41, 0, 0, "a")]
        elif verb == "VDump" and c[5] == "TStream":
            p = [("call", c, 0, 0, 0, "a"), ("call", c, 0, 0, 1, "a"), ("call", c, 1, 1, 0, "a"), ("call", c, 0, 0, 2, "a"),
                 ("call", c, 1, 0, 2, "a")]
        elif verb == "VDump":
            rd = [x for x in by_key.get((c[1], c[2], c[7]), []) if x[6] == "PMolli"]
            cl = rng.choice(rd)
            m1, m2 = rng.choice("aw"), rng.choice("aw")
            p = [("call", c, 0, 0, 0, m1), ("call", cl, 0, 0, 0, "a"), ("call", c, 0, 0, 1, m2), ("call", cl, 0, 0, 0, "a"),
                 ("call", c, 0, 1, 0, "a"), ("rewrite", fkey_of(c, 0), 33), ("call", c, 0, 0, 1, "w"), ("call", cl, 0, 0, 0, "a")]
        else:
            p = [("call", c, 0, 0, 0, "a"), ("call", c, 0, 0, 1, "a"), ("call", c, 0, 1, 0, "a"), ("call", c, 0, 0, 1, "a")]
        progs.append(("recall", p))
    # what the caller owns: EVERY configuration of dump-into-a-stream (accepted or refused: unknown format, openbabel-only
    # format, cdxml, no format, unknown writer), on a StringIO and on a file opened by the caller, BETWEEN two dumps
    # that succeed into the same stream, with a reader and a path dump in between: the stream must stay open, positioned
    # after its text, and hold exactly the accepted records
    ok_stream = [c for c in cells if c[0] == "VDump" and c[5] == "TStream" and py_spec(c).startswith("(AWrote")
                 and c[6] == "PMolli"]
    rd_any = [c for c in cells if c[0] in ("VLoad", "VLoadAll") and c[6] == "PMolli" and c[1] in ("FXyz", "FMol2", "FCdxml")]
    for c in cells:
        if c[0] != "VDump" or c[5] != "TStream":
            continue
        for slot in range(N_STREAMS):
            g0, g1 = rng.choice(ok_stream), rng.choice(ok_stream)
            rd = rng.choice(rd_any + [x for x in cells if x[0] in ("VLoad", "VLoadAll", "VLoads", "VLoadsAll", "VDumps")])
            rslot = rng.randint(60, 62) if rd[0] in ("VLoads", "VLoadsAll") else 0
            cp = rng.choice([x for x in cells if x[0] == "VDump" and x[5] in ("TPath", "TPathObj")])
            p = [("call", g0, slot, 0, 0, "a"), ("call", c, slot, 0, 1, "a"), ("call", g1, slot, 1, 0, "a"),
                 ("call", rd, rslot, 0, 0, "a"), ("call", c, 1 - slot, 1, 0, "a"), ("call", cp, 0, 0, 1, rng.choice("aw")),
                 ("call", c, slot, 0, 2, "a"), ("call", g0, slot, 0, 2, "a"), ("call", g1, 1 - slot, 1, 1, "a")]
            progs.append(("owned", p))
    # POSITION AND PRIOR CONTENT of a stream the caller owns: every configuration of dump-into-a-stream (accepted and
    # refused), on a StringIO and on a file opened by the caller, into a stream that ALREADY HOLDS documents and is
    # positioned at its start (built from a string / opened "r+"), inside its text, or behind it; rewound or moved by its
    # owner between two dumps; with a refused dump, a reader and a dump into the other stream in between.  The record
    # must land AT the position (over the record there), the stream is left right behind it, the rest is kept.
    for c in cells:
        if c[0] != "VDump" or c[5] != "TStream":
            continue
        if c[6] != "PMolli" and not ctx.thorough and rng.random() < 0.5:
            continue
        for slot in range(N_STREAMS):
            g0 = rng.choice(ok_stream)
            docs = tuple(rng.sample(range(70, 90), rng.randint(2, 4)))
            at = rng.choice([0, 0, 1, len(docs) - 1, None])
            other = (tuple(rng.sample(range(90, 99), rng.randint(0, 2))), rng.choice([0, None]))
            ini = ("streams", (docs, at), other) if slot == 0 else ("streams", other, (docs, at))
            refused = rng.choice([x for x in cells if x[0] == "VDump" and x[5] == "TStream" and py_spec(x).startswith("(ARaise")])
            rd = rng.choice(rd_any)
            p = [ini, ("call", c, slot, 0, 0, "a"), ("call", g0, slot, 1, 0, rng.choice("aw")), ("call", refused, slot, 0, 1, "a"),
                 ("seek", slot, rng.randint(0, 2)), ("call", c, slot, 0, 1, "a"), ("call", rd, 0, 0, 0, "a"),
                 ("call", g0, 1 - slot, 1, 1, "a"), ("seek", slot, 0), ("call", g0, slot, 0, 2, "w"),
                 ("seek", slot, 99), ("call", c, slot, 1, 2, "a"), ("call", refused, 1 - slot, 1, 2, "a")]
            progs.append(("position", p))
    # random histories over two file slots, two streams (empty or holding documents, positioned anywhere; moved by their
    # owner), two objects, a few documents
    good = [c for c in cells if c[6] != "PUnknown" and c[1] in ("FXyz", "FMol2", "FCdxml")]
    n_rand = 2500 if ctx.thorough else 400
    for _ in range(n_rand):
        p, ver = [], {}
        if rng.random() < 0.5:
            p.append(("streams",) + tuple((tuple(rng.sample(range(70, 99), rng.randint(0, 3))), rng.choice([None, 0, 1, 2]))
                                          for _ in range(N_STREAMS)))
        for _ in range(rng.randint(3, 9)):
            r = rng.random()
            c = rng.choice(good if r < 0.85 else cells)
            slot = rng.randint(0, 1)
            if rng.random() < 0.12:
                p.append(("seek", rng.randint(0, N_STREAMS - 1), rng.randint(0, 4)))
                continue
            if p and rng.random() < 0.25:
                ks = [k for k, _ in prog_files(p)]
                if ks:
                    p.append(("rewrite", rng.choice(ks), rng.randint(50, 59)))
                    continue
            if c[0] in ("VLoads", "VLoadsAll"):
                slot = rng.randint(60, 62)
            o = rng.randint(0, 1)
            if rng.random() < 0.5:
                ver[o] = ver.get(o, 0) + 1
            p.append(("call", c, slot, o, ver.get(o, 0), rng.choice("aw")))
        progs.append(("random", p))
    return progs


def run_seq_mocks(ctx, rep, coq=True):
    """Histories under mocks: correspondence with Model/DispatchSeq.v `run` (Coq shards) + concrete naming."""
    import molli as ml
    work = ctx.sub("c09seq")
    t0 = __import__("time").time()
    progs = gen_progs(ctx, rep)
    terms, found = [], False
    conf = Confirm(ctx, "seq")
    for n, (fam, prog) in enumerate(progs):
        init, obs = observe_prog(ml, prog, os.path.join(work, f"p{n}"))
        shutil.rmtree(os.path.join(work, f"p{n}"), ignore_errors=True)
        term = seqcase_term(init, prog, obs)
        terms.append(term)
        rep.case(key="seq:" + hashlib.sha1(term.encode()).hexdigest()[:16])
        rep.count("seq:family:" + fam)
        prev = "start"
        sini, ops = split_prog(prog)
        mirror = [[list(d), q] for d, q in sini]
        for op, ob in zip(ops, obs):
            cur = op[0] if op[0] in ("rewrite", "seek") else op[1][0]
            rep.count(f"seq:pair:{prev}>{cur}")
            prev = cur
            if cur == "VDump" and op[1][5] == "TStream":
                rep.count(f"seq:caller-stream:{CallerStream.KINDS[op[2] % 2]}:"
                          + ("refused" if ob[0].startswith("(ARaise") else "accepted"))
                t, q = mirror[op[2]]
                rep.count("seq:caller-stream-position:" + ("empty" if not t else "behind-its-text" if q == len(t) else
                                                           "at-its-start" if q == 0 else "inside-its-text")
                          + (":refused" if ob[0].startswith("(ARaise") else ":accepted"))
            elif cur not in ("rewrite", "seek") and ob[0].startswith("(ARaise"):
                rep.count(f"seq:refused:{cur}")
            if op[0] == "seek" or (cur == "VDump" and op[1][5] == "TStream"):
                py_step({}, mirror, op)
        r = judge_prog(prog, obs)
        if r:
            found = True
            rd = conf.replay_dict(r[0], [op_json(o) for o in prog], [[op_json(o) for o in q] for _, q in progs[:n]])
            if rd:
                rep.violate(r[0], r[1] + (" (after the earlier histories of this run)" if "before" in rd else ""), rd)
    rep.samples.append("history: " + " ; ".join(op_term(o) for o in progs[len(progs) // 3][1]))
    rep.extra["seq_mock_python_s"] = round(__import__("time").time() - t0, 1)
    rep.extra["seq_mock_coq_source_kb"] = sum(map(len, terms)) // 1024
    if not coq:
        return found          # Props/C09.vo did not build: the caller reports that; histories were judged above
    bad = vlib.run_shards(ctx, rep, "c09seq", "From Coq Require Import List. Import ListNotations.\n"
                          "From Molli Require Import Model.Dispatch Model.DispatchSeq.", "check_seq", terms,
                          shard=250, case_type="seqcase")
    if bad is None or bad:
        # the kernel rejected a recorded history: the Python mirror names it above; if it named nothing, say so
        vlib.broken_obligation(rep, "corr_c09seq", f"histories rejected by check_seq: {bad if bad is None else bad[:20]}", found)
    return found


class CallerStreamSpoiled(Exception):
    pass


def mol_sig(m):
    """Deep, comparable description of a molecule / ensemble."""
    import numpy as np
    import molli as ml
    d = {"cls": type(m).__name__, "name": m.name, "n": m.n_atoms,
         "atoms": [(a.element.name, a.label, str(a.atype), a.isotope) for a in m.atoms],
         "bonds": [(m.get_atom_index(b.a1), m.get_atom_index(b.a2), str(b.btype)) for b in getattr(m, "bonds", [])],
         "coords": np.round(np.asarray(m.coords, dtype=float), 6).tolist()}
    if isinstance(m, ml.ConformerEnsemble):
        d["nc"] = m.n_conformers
    return json.dumps(d, sort_keys=True)


def real_cases(ctx):
    """Real-object matrix: (cell-like description, thunk via entry point, thunk via class method)."""
    import molli as ml
    from pathlib import Path
    F = ml.files
    work = ctx.sub("c09real")
    import shutil
    single, multi = {}, {}
    for fmt, a, b in (("xyz", F.dendrobine_xyz, F.pentane_confs_xyz), ("mol2", F.dendrobine_mol2, F.pentane_confs_mol2)):
        # file names with a dotted stem: the format must come from the LAST suffix only
        single[fmt] = Path(shutil.copy(a, os.path.join(work, f"dendrobine.v2.final.{fmt}")))
        multi[fmt] = Path(shutil.copy(b, os.path.join(work, f"pentane.confs.{fmt}")))
    cases = []
    for fmt in ("xyz", "mol2"):
        for otn, cls in (("molecule", ml.Molecule), ("ensemble", ml.ConformerEnsemble), ("Structure", ml.Structure)):
            ot = cls if otn == "Structure" else otn
            for name in (None, "renamed"):
                for explicit in (True, False):
                    src = multi[fmt] if cls is ml.ConformerEnsemble else single[fmt]
                    for aspath in (True, False):
                        p = Path(src) if aspath else str(src)
                        def ep(p=p, fmt=fmt, ot=ot, name=name, explicit=explicit):
                            return ml.load(p, fmt if explicit else None, otype=ot, name=name)
                        def cm(src=src, fmt=fmt, cls=cls, name=name):
                            with open(src) as f:
                                return getattr(cls, "load_" + fmt)(f, name=name)
                        cases.append((("load", fmt, otn, name, explicit, aspath), ep, cm, "obj"))
                    if explicit:
                        txt = Path(src).read_text()
                        cases.append((("loads", fmt, otn, name), (lambda txt=txt, fmt=fmt, ot=ot, name=name: ml.loads(txt, fmt, otype=ot, name=name)),
                                      (lambda txt=txt, fmt=fmt, cls=cls, name=name: getattr(cls, "loads_" + fmt)(txt, name=name)), "obj"))
                    if cls is not ml.ConformerEnsemble:
                        src2 = multi[fmt]
                        def ep2(src2=src2, fmt=fmt, ot=ot, name=name, explicit=explicit):
                            return ml.load_all(src2, fmt if explicit else None, otype=ot, name=name)
                        def cm2(src2=src2, fmt=fmt, cls=cls, name=name):
                            with open(src2) as f:
                                return getattr(cls, "load_all_" + fmt)(f, name=name)
                        cases.append((("load_all", fmt, otn, name, explicit), ep2, cm2, "list"))
                        if explicit:
                            txt2 = Path(src2).read_text()
                            cases.append((("loads_all", fmt, otn, name),
                                          (lambda txt2=txt2, fmt=fmt, ot=ot, name=name: ml.loads_all(txt2, fmt, otype=ot, name=name)),
                                          (lambda txt2=txt2, fmt=fmt, cls=cls, name=name: getattr(cls, "loads_all_" + fmt)(txt2, name=name)), "list"))
    # dump / dumps on real objects
    mol = ml.Molecule.load_mol2(str(F.dendrobine_mol2))
    ens = ml.ConformerEnsemble.load_mol2(str(F.pentane_confs_mol2))
    for oname, obj in (("molecule", mol), ("ensemble", ens)):
        for fmt in ("xyz", "mol2"):
            def direct(obj=obj, fmt=fmt):
                return getattr(obj, "dumps_" + fmt)()
            cases.append((("dumps", fmt, oname), (lambda obj=obj, fmt=fmt: ml.dumps(obj, fmt)), direct, "text"))
            def to_stream(obj=obj, fmt=fmt):
                s = io.StringIO(); s.write("PRE\n")
                r = ml.dump(obj, s, fmt)
                assert r is None and not s.closed
                return s.getvalue()
            cases.append((("dump-stream", fmt, oname), to_stream, (lambda d=direct: "PRE\n" + d()), "text"))
            for explicit in (True, False):
                def to_path(obj=obj, fmt=fmt, explicit=explicit):
                    p = os.path.join(work, f"o.{fmt}.{explicit}." + (fmt if not explicit else "out"))
                    if os.path.exists(p): os.remove(p)
                    ml.dump(obj, p, fmt if explicit else None)
                    ml.dump(obj, p, fmt if explicit else None)     # default mode appends
                    ml.dump(obj, Path(p), fmt if explicit else None, mode="w")
                    ml.dump(obj, p, fmt if explicit else None)
                    return open(p).read()
                cases.append((("dump-path", fmt, oname, explicit), to_path, (lambda d=direct: d() + d()), "text"))
    # unsupported formats must raise ValueError on real objects as well
    for fmt in ("sdf", "zzz", "cdxml"):
        cases.append((("dumps-unsupported", fmt), (lambda fmt=fmt: ml.dumps(mol, fmt)), None, "valueerror"))
        def refused_stream(fmt=fmt):
            s = io.StringIO(); s.write("PRE\n")
            try:
                ml.dump(mol, s, fmt)
            finally:       # the stream is the caller's, also when the dump is refused
                if s.closed or s.getvalue() != "PRE\n" or s.tell() != 4:
                    raise CallerStreamSpoiled(f"after a refused dump: closed={s.closed}")
        cases.append((("dump-unsupported", fmt), refused_stream, None, "valueerror"))
    for fmt in ("sdf", "zzz"):
        cases.append((("loads-unsupported", fmt), (lambda fmt=fmt: ml.loads("x", fmt)), None, "valueerror"))
        cases.append((("load-unsupported", fmt), (lambda fmt=fmt: ml.load(str(F.dendrobine_xyz), fmt)), None, "valueerror"))
    return cases


def judge_real(desc, ep, cm, kind):
    """Returns None when the entry point agrees with the class method, else (signature, text)."""
    tag = ":".join(str(x) for x in desc[:3])
    if kind == "valueerror":
        try:
            r = ep()
        except (ValueError, NotImplementedError):
            return None
        except Exception as e:
            return (f"C09:real:{tag}:raises-{type(e).__name__}", f"{desc}: expected ValueError, got {type(e).__name__}: {e}")
        return (f"C09:real:{tag}:no-error", f"{desc}: unsupported format accepted silently, returned {r!r}")
    try:
        want = cm()
    except Exception as e:
        want = e
    try:
        got = ep()
    except Exception as e:
        got = e
    if isinstance(want, Exception):
        if isinstance(got, Exception) and type(got) is type(want):
            return None
        return (f"C09:real:{tag}:class-method-raises", f"{desc}: class method raised {want!r} but entry point gave {got!r}")
    if isinstance(got, Exception):
        return (f"C09:real:{tag}:raises-{type(got).__name__}", f"{desc}: entry point raised {type(got).__name__}: {got}")
    if kind == "text":
        if got != want:
            return (f"C09:real:{tag}:text-differs", f"{desc}: written text differs from the class-level writer")
        return None
    if kind == "list":
        if not isinstance(got, list):
            return (f"C09:real:{tag}:not-a-list", f"{desc}: a list is promised, got {type(got).__name__}")
        if [mol_sig(x) for x in got] != [mol_sig(x) for x in want]:
            return (f"C09:real:{tag}:objects-differ", f"{desc}: objects differ from the class-level reader")
        if desc[3] is not None and any(x.name != desc[3] for x in got):
            return (f"C09:real:{tag}:name-ignored", f"{desc}: name override not honoured: {[x.name for x in got][:3]}")
        return None
    if type(got) is not type(want) or mol_sig(got) != mol_sig(want):
        return (f"C09:real:{tag}:objects-differ", f"{desc}: object differs from the class-level reader")
    if desc[3] is not None and got.name != desc[3]:
        return (f"C09:real:{tag}:name-ignored", f"{desc}: name override not honoured: {got.name!r}")
    return None


# ------------------------------------------------------------------ histories on real files and objects (oracle)
# Every step of a history is compared with the class-level codec applied to the source AS IT IS NOW.
SLOTS = [("s0.xyz", "xyz"), ("s1.mol2", "mol2"), ("s2.cdxml", "cdxml"), ("s3.dat", None), ("s4.v2.final.xyz", "xyz"),
         ("s5.mol2", "mol2")]


def _variant(text, fmt):
    """Same length, one coordinate digit changed: a file that differs from the original in content only."""
    if fmt == "xyz":
        ms = list(re.finditer(r"\d+\.\d+", text))
        m = ms[-1] if ms else None
    elif fmt == "mol2":
        at = text.find("@<TRIPOS>ATOM")
        m = re.compile(r"\d+\.\d+").search(text, at if at >= 0 else 0)
    else:
        m = re.compile(r'<n\b[^>]*?\bp="(\d+)').search(text)
        if m:
            i = m.end(1) - 1
            return text[:i] + str((int(text[i]) + 1) % 10) + text[i + 1:]
    if not m:
        return text
    i = m.end() - 1
    return text[:i] + str((int(text[i]) + 1) % 10) + text[i + 1:]


def _exotic_text(text, fmt):
    """The file as another program would have written it: molecule names / comment lines and some atom labels beyond ASCII."""
    if fmt == "xyz":
        lines, out, i = text.split("\n"), [], 0
        while i < len(lines):
            out.append(lines[i])
            if lines[i].strip().isdigit() and i + 1 < len(lines):
                n = int(lines[i])
                out.append(lines[i + 1] + " E = -1.5 \u00c5 \u00b0 \u03b2 \u6c34")
                out += lines[i + 2:i + 2 + n]
                i += 2 + n
            else:
                i += 1
        return "\n".join(out)
    text = re.sub(r"(@<TRIPOS>MOLECULE\r?\n)([^\r\n]*)", lambda m: m.group(1) + m.group(2) + "_\u03b2\u00b0\u00c5\u00e9\u6c34", text)
    k = [0]

    def lab(m):
        k[0] += 1
        return m.group(1) + (m.group(2) + "\u03b1\u00b0" if k[0] % 4 == 1 else m.group(2))
    return re.sub(r"(?m)^(\s*\d+\s+)([A-Za-z]\w*)(?=\s+-?\d+\.\d+\s+-?\d+\.\d+\s+-?\d+\.\d+\s+\S+)", lab, text)


class RealWorld:
    """Content pool (bundled files + same-length variants + files written by the class-level writers),
    object pool, and the judge of one step."""

    def __init__(self, ml):
        F = ml.files
        self.ml = ml
        rd = lambda p: open(p).read()
        self.pool = {
            "xyz": [rd(F.dendrobine_xyz), rd(F.pentane_confs_xyz), rd(F.dummy_xyz)],
            "mol2": [rd(F.dendrobine_mol2), rd(F.pentane_confs_mol2), rd(F.benzene_mol2), rd(F.dmf_mol2), rd(F.fxyl_mol2)],
            "cdxml": [rd(F.substituents_cdxml), rd(F.charges_mult_cdxml), rd(F.BOX_bridge), rd(F.BOX_cores)],
        }
        # CONTENT ALPHABET: molecule names, atom labels and comment lines beyond ASCII (Latin-1 range, Greek, CJK, outside the
        # BMP), as the class-level writers render them and as another program would write them
        xm, xe = self.exotic_objects()
        self.xpool = {
            "xyz": [xm.dumps_xyz(), xe.dumps_xyz(),
                    _exotic_text(rd(F.pentane_confs_xyz), "xyz"),
                    "\ufeff" + rd(F.dendrobine_xyz),                                  # a byte order mark in front
                    _exotic_text(rd(F.dendrobine_xyz), "xyz").encode("latin-1", "ignore")],   # NOT text in UTF-8
            "mol2": [xm.dumps_mol2(), xe.dumps_mol2(),
                     _exotic_text(rd(F.pentane_confs_mol2), "mol2"),
                     "\ufeff" + rd(F.benzene_mol2),
                     _exotic_text(rd(F.dendrobine_mol2), "mol2").encode("latin-1", "ignore")],
        }
        for fmt in ("xyz", "mol2"):
            self.pool[fmt] += self.xpool[fmt][:2]
        for fmt in list(self.pool):
            self.pool[fmt] += [_variant(t, fmt) for t in self.pool[fmt][:2]]
        # generated files: other molecules rendered by the class-level xyz writer
        for p in (F.benzene_mol2, F.dmf_mol2):
            self.pool["xyz"].append(ml.Molecule.load_mol2(str(p)).dumps_xyz())
        self.otypes = {"molecule": ml.Molecule, "ensemble": ml.ConformerEnsemble, "Structure": ml.Structure}

    def faulty_object(self):
        """A molecule whose class-level writers fail half way: they write a first line and raise.  Whatever the class
        method does is what the entry point must do -- the same exception, the same partial text -- and the stream is
        still the caller's."""
        ml = self.ml

        class FailingWriter(RuntimeError):
            pass

        class Faulty(ml.Molecule):
            def dump_xyz(self, stream, *a, **kw):
                stream.write("12\n")
                raise FailingWriter("class-level xyz writer failed")

            def dump_mol2(self, stream, *a, **kw):
                stream.write("@<TRIPOS>MOLECULE\n")
                raise FailingWriter("class-level mol2 writer failed")

            def dumps_xyz(self, *a, **kw):
                raise FailingWriter("class-level xyz writer failed")

            def dumps_mol2(self, *a, **kw):
                raise FailingWriter("class-level mol2 writer failed")
        return Faulty(ml.Molecule.load_mol2(str(ml.files.benzene_mol2)))

    def exotic_objects(self):
        """A molecule and an ensemble whose name and atom labels hold characters beyond ASCII."""
        ml, F = self.ml, self.ml.files
        out = []
        for o, nm in ((ml.Molecule.load_mol2(str(F.dmf_mol2)), "\u03b2-pin\u00e8ne_25\u00b0C_\u6c34\U0001F600"),
                      (ml.ConformerEnsemble.load_mol2(str(F.pentane_confs_mol2)), "pentane_\u00c5_\u03b1\u03c9")):
            o.name = nm
            for i, a in enumerate(o.atoms):
                if i % 3 == 0:
                    a.label = (a.label or a.element.symbol) + "\u03b1\u00b0"
            out.append(o)
        return out

    def fresh_objects(self):
        ml, F = self.ml, self.ml.files
        return [ml.Molecule.load_mol2(str(F.dendrobine_mol2)), ml.ConformerEnsemble.load_mol2(str(F.pentane_confs_mol2)),
                ml.Molecule.load_mol2(str(F.benzene_mol2))] + self.exotic_objects()


def real_class_load(rw, verb, path, fmt, cls, name, key):
    """The class-level codec on the file as it is now."""
    ml = rw.ml
    if fmt == "cdxml":
        f = ml.CDXMLFile(path)
        if verb == "load":
            return cls(f._parse_fragment(f.xfrags[0], name=name)) if key is None else cls(f[key])
        return [cls(f._parse_fragment(x, name=name)) for x in f.xfrags]
    with open(path) as fh:
        return getattr(cls, ("load_" if verb == "load" else "load_all_") + fmt)(fh, name=name)


def run_real_prog(rw, prog, work):
    """Run one history on real files. Returns [(step index, signature, text)] of the steps that disagree
    with the class-level codec applied to the current source."""
    ml = rw.ml
    from pathlib import Path
    os.makedirs(work, exist_ok=True)
    paths = [os.path.join(work, n) for n, _ in SLOTS]
    cur = {}                      # slot -> (fmt, text) put there by the environment (None after a dump)
    objs = rw.fresh_objects()
    faulty = None
    # what the caller owns: stream #0 a StringIO, stream #1 a text file the caller opened
    streams = [CallerStream(0), CallerStream(1, os.path.join(work, "caller_stream.log"))]
    last = {}
    out = []
    try:
        _run_real_steps(rw, prog, work, paths, cur, objs, streams, last, out)
    finally:
        for cs in streams:
            cs.dispose()
    return out


def _run_real_steps(rw, prog, work, paths, cur, objs, streams, last, out):
    ml = rw.ml
    from pathlib import Path
    faulty = None
    ruined = set()      # streams of the caller that an earlier step of this history left in a state that was reported

    def bad(i, op, fmt, rel, what, text):
        out.append((i, f"C09:seq-real:{op[0] if op[0] != 'load' else op[1]}:{fmt}:{rel}:{what}",
                    f"step {i} {op!r} of the history {prog[:i + 1]!r}: {text}"))

    def compare(i, op, fmt, rel, want, got, listy, name):
        if isinstance(want, Exception) or isinstance(got, Exception):
            if isinstance(want, Exception) and isinstance(got, Exception) and type(got) is type(want):
                return
            return bad(i, op, fmt, rel, "raises" if isinstance(got, Exception) else "class-codec-raises",
                       f"class-level codec gave {want!r}, entry point gave {got!r}")
        if listy:
            if not isinstance(got, list):
                return bad(i, op, fmt, rel, "not-a-list", f"a list is promised, got {type(got).__name__}")
            if [type(x) for x in got] != [type(x) for x in want] or [mol_sig(x) for x in got] != [mol_sig(x) for x in want]:
                return bad(i, op, fmt, rel, "objects-differ",
                           f"{len(got)} object(s) {[getattr(x, 'formula', '?') for x in got][:3]} but the class-level reader gives "
                           f"{len(want)} {[getattr(x, 'formula', '?') for x in want][:3]} on the source as it is now")
            if name is not None and any(x.name != name for x in got):
                return bad(i, op, fmt, rel, "name-ignored", f"name override not honoured: {[x.name for x in got][:3]}")
        else:
            if type(got) is not type(want) or mol_sig(got) != mol_sig(want):
                return bad(i, op, fmt, rel, "objects-differ",
                           f"got {got!r} but the class-level reader gives {want!r} on the source as it is now")
            if name is not None and got.name != name:
                return bad(i, op, fmt, rel, "name-ignored", f"name override not honoured: {got.name!r}")

    def spoil(res):
        # the caller modifies what it was given: a later call must not hand the same objects out again
        for x in (res if isinstance(res, list) else [res]):
            try:
                x.name = "spoiled"
                x.coords = x.coords + 1.5
            except Exception:  # noqa
                pass

    for i, op in enumerate(prog):
        kind = op[0]
        if kind in ("put", "putx"):
            # putx: content beyond ASCII (names, labels, comment lines; a byte order mark; bytes that are not text in the
            # default encoding), written by the environment as BYTES / in the default encoding
            _, slot, fmt, idx, how = op
            text = rw.pool[fmt][idx % len(rw.pool[fmt])] if kind == "put" else rw.xpool[fmt][idx % len(rw.xpool[fmt])]
            p = paths[slot]
            st = os.stat(p) if os.path.exists(p) else None
            if how == "replace" and st is not None:
                tmp = p + ".new"
                _write(tmp, text)
                os.replace(tmp, p)
            else:
                _write(p, text)
            if how == "keep-mtime" and st is not None:
                os.utime(p, ns=(st.st_atime_ns, st.st_mtime_ns))
            cur[slot] = fmt
            last[("file", slot)] = "after-rewrite"
        elif kind == "load":
            _, verb, slot, explicit, otn, name, aspath, key, spoil_it = op
            fmt = cur.get(slot) or SLOTS[slot][1]
            if SLOTS[slot][1] is None:
                explicit = True
            cls = rw.otypes[otn]
            p = paths[slot]
            if key == "first":
                try:
                    key = list(ml.CDXMLFile(p).keys())[0] if fmt == "cdxml" else None
                except Exception:  # noqa
                    key = None
            try:
                want = real_class_load(rw, verb, p, fmt, cls, name, key)
            except Exception as e:  # noqa
                want = e
            src_before = _readb(p) if os.path.exists(p) else None
            with LeakWatch(work) as lw:
                try:
                    fn = ml.load if verb == "load" else ml.load_all
                    kw = {} if key is None else {"key": key}
                    got = fn(Path(p) if aspath else p, fmt if explicit else None, otype=(cls if otn == "Structure" else otn), name=name, **kw)
                except Exception as e:  # noqa
                    got = e
                    _detach(e)
            if lw.n:
                bad(i, op, fmt, last.get(("file", slot), "first"), "handle-left-open",
                    f"the reader left {lw.n} file handle(s) open: {lw.names[:2]}")
            elif src_before is not None and _readb(p) != src_before:
                bad(i, op, fmt, last.get(("file", slot), "first"), "source-file-changed", "the file read is not what it was before the call")
            compare(i, op, fmt, last.get(("file", slot), "first"), want, got, verb == "load_all", name if key is None else None)
            if spoil_it and not isinstance(got, Exception):
                spoil(got)
            last[("file", slot)] = "after-" + verb
        elif kind in ("loads", "loadsx"):
            _, verb, fmt, idx, otn, name, spoil_it = op
            if kind == "loads":
                text = rw.pool[fmt][idx % len(rw.pool[fmt])]
            else:
                xs = [t for t in rw.xpool[fmt] if isinstance(t, str)]
                text = xs[idx % len(xs)]
            cls = rw.otypes[otn]
            try:
                want = getattr(cls, verb + "_" + fmt)(text, name=name)
            except Exception as e:  # noqa
                want = e
            try:
                got = getattr(ml, verb)(text, fmt, otype=(cls if otn == "Structure" else otn), name=name)
            except Exception as e:  # noqa
                got = e
            src = ("str", kind, fmt, idx % len(rw.pool[fmt]))
            compare(i, op, fmt, last.get(src, "first"), want, got, verb == "loads_all", name)
            if spoil_it and not isinstance(got, Exception):
                spoil(got)
            last[src] = "after-" + verb
        elif kind == "seek":
            # the owner moves its stream: to its start (to overwrite), into its text, behind its text
            _, ti, frac = op
            cs = streams[ti % 2]
            val, st0 = cs.observe()
            if st0 != "SClosed" and val is not None:
                cs.seek_chars(None if frac is None else int(len(val) * frac))
            last[("stream", ti % 2)] = "after-seek"
        elif kind == "restream":
            # the owner replaces its stream by one that HOLDS TEXT already and is positioned at its start (a StringIO
            # built from a string, a file opened "r+") / somewhere in the text / behind it
            _, ti, fmt, idx, frac = op
            text = rw.pool[fmt][idx % len(rw.pool[fmt])]
            streams[ti % 2].dispose()
            streams[ti % 2] = CallerStream(ti % 2, os.path.join(work, "caller_stream.log"), pre=text,
                                           at=None if frac is None else int(len(text) * frac))
            last[("stream", ti % 2)] = "after-restream"
        elif kind == "mutate":
            o = objs[op[1] % len(objs)]
            o.coords = o.coords + 0.25
            o.name = (o.name + "x")[-12:]
            last[("obj", op[1] % len(objs))] = "after-mutate"
        elif kind == "dumps":
            _, oi, fmt = op
            if oi == "faulty":
                faulty = faulty or rw.faulty_object()
                o, okey = faulty, "faulty"
            else:
                o, okey = objs[oi % len(objs)], oi % len(objs)
            sig0 = mol_sig(o)
            try:
                want = getattr(o, "dumps_" + fmt)()
            except Exception as e:  # noqa
                want = e
            try:
                got = ml.dumps(o, fmt)
            except Exception as e:  # noqa
                got = e
            rel = last.get(("obj", okey), "first")
            if isinstance(want, Exception) or isinstance(got, Exception):
                compare(i, op, fmt, rel, want, got, False, None)
            elif got != want:
                bad(i, op, fmt, rel, "text-differs", "text differs from what the class-level writer renders for the object as it is now")
            if mol_sig(o) != sig0:
                bad(i, op, fmt, rel, "object-changed", "the object rendered is not what it was before the call")
            last[("obj", okey)] = "after-dumps"
        elif kind == "dump":
            _, oi, tkind, ti, fmt, explicit, mode, aspath = op
            if oi == "faulty":
                faulty = faulty or rw.faulty_object()
                o = faulty
            else:
                o = objs[oi % len(objs)]
            sig0 = mol_sig(o)
            def class_ref(fmt):
                # what the class-level writer does with this object on a stream of its own (text, or partial text + exception)
                buf, e1 = io.StringIO(), None
                if fmt in ("xyz", "mol2"):
                    try:
                        getattr(o, "dump_" + fmt)(buf)
                    except Exception as e:  # noqa
                        e1 = e
                return buf.getvalue(), e1
            if tkind == "stream":
                cs = streams[ti % 2]
                skind = CallerStream.KINDS[ti % 2]
                before, st0 = cs.observe()
                pos0 = cs.pos()
                rel = last.get(("stream", ti % 2), "first")
                if st0 == "SClosed" or before is None or pos0 is None or (ti % 2) in ruined:
                    continue        # an earlier step of this history already ruined (and reported) this stream
                supported = explicit and fmt in ("xyz", "mol2")
                # the reference: the class-level writer handed a stream of the same kind, holding the same text, AT THE SAME
                # POSITION (behind the text it appends; elsewhere it writes over what lies there -- it never jumps to the end)
                tw = CallerStream.twin(cs, os.path.join(work, "twin_stream.log"))
                ref_err = None
                try:
                    if supported:
                        try:
                            getattr(o, "dump_" + fmt)(tw.st)
                        except Exception as e:  # noqa
                            ref_err = e
                    want_after, want_st = tw.observe()
                    want_pos = tw.pos()
                finally:
                    tw.dispose()
                outcome = "refused" if not supported else "writer-failed" if ref_err is not None else "accepted"
                where = "behind-its-text" if st0 == "SOpenAtEnd" else "at-its-start" if pos0 == 0 else "inside-its-text"
                r, err = None, None
                with LeakWatch(work) as lw:
                    try:
                        # the open mode belongs to path targets: with or without one a stream is written at its position
                        r = ml.dump(o, cs.st, fmt if explicit else None, **({} if mode is None else {"mode": mode}))
                    except Exception as e:  # noqa
                        err = e
                        _detach(e)
                after, st1 = cs.observe()      # never raises: a closed / garbled stream is an observation
                pos1 = cs.pos()
                n_bad = len(out)
                if st1 == "SClosed":
                    bad(i, op, fmt, rel, f"caller-stream-closed:{skind}:{outcome}-call",
                        f"the {skind} stream of the caller is {st1} after a dump that was {outcome} ({err!r}); the stream given "
                        "is the caller's: it must be left open, positioned right behind the text written")
                elif not supported:
                    if not isinstance(err, (ValueError, NotImplementedError)):
                        bad(i, op, fmt, rel, "unsupported-not-refused", f"expected ValueError, got {err!r}")
                    elif after != before:
                        bad(i, op, fmt, rel, f"refused-dump-wrote:{skind}", "a refused dump changed what the caller's stream held")
                    elif pos1 != pos0:
                        bad(i, op, fmt, rel, f"caller-stream-position:{skind}:refused-call",
                            f"a refused dump moved the caller's stream from {pos0} to {pos1}")
                elif ref_err is not None and type(err) is not type(ref_err):
                    bad(i, op, fmt, rel, "class-codec-raises", f"class-level writer raised {ref_err!r}, entry point gave {err!r}")
                elif ref_err is None and err is not None:
                    bad(i, op, fmt, rel, "raises", f"{type(err).__name__}: {err}")
                elif ref_err is None and r is not None:
                    bad(i, op, fmt, rel, "stream-closed-or-result", f"returned {r!r}")
                elif after != want_after:
                    bad(i, op, fmt, rel, "text-differs" if where == "behind-its-text" else f"text-differs:stream-{where}",
                        f"the {skind} stream of the caller held {len(before)} characters and was positioned {where} (at {pos0}); "
                        f"it now holds {len(after)} characters, but the class-level writer handed the same stream at the same "
                        f"position leaves {len(want_after)} (it writes AT the position: {'what the stream held + ' if where == 'behind-its-text' else 'over what lies there, not behind the text: '}"
                        f"the {'partial text of the failing writer' if ref_err is not None else 'rendering of the object as it is now'})")
                elif pos1 != want_pos:
                    bad(i, op, fmt, rel, f"caller-stream-position:{skind}:{outcome}-call",
                        f"the {skind} stream of the caller (positioned {where} before the call) is left at {pos1}; the class-level "
                        f"writer handed the same stream leaves it at {want_pos}, right behind the text written")
                if len(out) > n_bad:
                    ruined.add(ti % 2)
                if lw.n:
                    bad(i, op, fmt, rel, f"handle-left-open:{outcome}-call", f"{lw.n} file handle(s) left open: {lw.names[:2]}")
                if mol_sig(o) != sig0:
                    bad(i, op, fmt, rel, "object-changed", f"the object dumped is not what it was before the ({outcome}) call")
                last[("stream", ti % 2)] = "after-dump"
            else:
                slot = ti
                p = paths[slot]
                sfmt = SLOTS[slot][1]
                if sfmt is None:
                    explicit = True
                if not explicit:
                    fmt = sfmt
                rel = last.get(("file", slot), "first")
                before = _read(p) if os.path.exists(p) else ""
                before_b = _readb(p) if os.path.exists(p) else b""
                kw = {} if mode is None else {"mode": mode}
                supported = fmt in ("xyz", "mol2")
                ref, ref_err = class_ref(fmt)
                outcome = "refused" if not supported else "writer-failed" if ref_err is not None else "accepted"
                err = None
                with LeakWatch(work) as lw:
                    try:
                        r = ml.dump(o, Path(p) if aspath else p, fmt if explicit else None, **kw)
                    except Exception as e:  # noqa
                        err = e
                        _detach(e)
                # a path target belongs to the library for the duration of the call: closed afterwards, however it ended
                if lw.n:
                    bad(i, op, fmt, rel, f"handle-left-open:{outcome}-call",
                        f"the file opened for the path target was not closed ({outcome} call): {lw.names[:2]}")
                if mol_sig(o) != sig0:
                    bad(i, op, fmt, rel, "object-changed", f"the object dumped is not what it was before the ({outcome}) call")
                if not supported or ref_err is not None:
                    if not supported and not isinstance(err, (ValueError, NotImplementedError)):
                        bad(i, op, fmt, rel, "unsupported-not-refused", f"expected ValueError, got {err!r}")
                    if supported and type(err) is not type(ref_err):
                        bad(i, op, fmt, rel, "class-codec-raises", f"class-level writer raised {ref_err!r}, entry point gave {err!r}")
                    # whether the refused target was created / truncated is not part of the property: put it back
                    if before_b or os.path.exists(p):
                        _write(p, before_b)
                    continue
                if err is not None:
                    bad(i, op, fmt, rel, "raises", f"{type(err).__name__}: {err}")
                else:
                    want = (before if mode in (None, "a") else "") + ref
                    after = _read(p)
                    if after != want:
                        bad(i, op, fmt, rel, "text-differs",
                            f"file holds {len(after)} chars, expected (previous content if appending, {len(before)} chars) + class-level "
                            f"rendering of the object as it is now = {len(want)} chars")
                cur[slot] = fmt if slot == 3 else None
                last[("file", slot)] = "after-dump"
    return out


def gen_real_progs(ctx, rw):
    """Directed 'call, change, call again' histories for every format x entry point x path spelling x way of
    rewriting, plus random histories."""
    rng = ctx.rng
    progs = []
    slot_of = {"xyz": [0, 4, 3], "mol2": [1, 5, 3], "cdxml": [2, 3]}
    for fmt in ("xyz", "mol2", "cdxml"):
        for verb in ("load", "load_all"):
            for aspath in (False, True):
                for how in ("inplace", "replace", "keep-mtime"):
                    for otn in ("molecule", "Structure") + (("ensemble",) if verb == "load" and fmt != "cdxml" else ()):
                        slot = rng.choice(slot_of[fmt])
                        a, b = rng.sample(range(len(rw.pool[fmt])), 2)
                        if how == "keep-mtime":       # same length, same mtime, other content
                            a = rng.randint(0, 1)
                            b = len(rw.pool[fmt]) - (4 if fmt == "xyz" else 2) + a
                            if rng.random() < 0.5:
                                a, b = b, a
                        if otn == "ensemble":
                            a, b = 1, len(rw.pool[fmt]) - (4 if fmt == "xyz" else 2) + 1
                        name = rng.choice([None, "renamed"])
                        expl = rng.random() < 0.5
                        other = "load_all" if verb == "load" else "load"
                        o2 = otn if otn != "ensemble" else "molecule"
                        p = [("put", slot, fmt, a, "inplace"),
                             ("load", verb, slot, expl, otn, None, aspath, None, rng.random() < 0.5),
                             ("put", slot, fmt, b, how),
                             ("load", verb, slot, expl, otn, name, aspath, None, True),
                             ("load", verb, slot, not expl, otn, None, not aspath, None, False),
                             ("load", other, slot, expl, o2, name, aspath, None, False),
                             ("put", slot, fmt, a, how),
                             ("load", other, slot, expl, o2, None, not aspath, None, False),
                             ("load", verb, slot, expl, otn, name, aspath, None, False)]
                        if fmt == "cdxml" and verb == "load":
                            p += [("load", "load", slot, expl, otn, None, aspath, "first", False),
                                  ("put", slot, fmt, b, how),
                                  ("load", "load", slot, expl, otn, None, aspath, "first", False)]
                        progs.append(("recall-load", p))
    for fmt in ("xyz", "mol2"):
        for verb in ("loads", "loads_all"):
            for otn in ("molecule", "Structure") + (("ensemble",) if verb == "loads" else ()):
                a, b = (1, len(rw.pool[fmt]) - (4 if fmt == "xyz" else 2) + 1) if otn == "ensemble" else rng.sample(range(len(rw.pool[fmt])), 2)
                name = rng.choice([None, "renamed"])
                progs.append(("recall-loads", [("loads", verb, fmt, a, otn, None, True), ("loads", verb, fmt, a, otn, name, True),
                                               ("loads", verb, fmt, b, otn, None, False), ("loads", verb, fmt, a, otn, None, False)]))
        for oi in (0, 1, 2):
            for aspath in (False, True):
                slot = rng.choice(slot_of[fmt])
                m1 = rng.choice([None, "a", "w"])
                progs.append(("recall-dump", [
                    ("dump", oi, "path", slot, fmt, rng.random() < 0.5, "w", aspath), ("mutate", oi),
                    ("dump", oi, "path", slot, fmt, rng.random() < 0.5, m1, aspath),
                    ("load", "load_all", slot, True, "molecule", None, aspath, None, True),
                    ("load", "load", slot, False, "molecule", "renamed", not aspath, None, False),
                    ("dump", oi + 1, "path", slot, fmt, True, None, not aspath),
                    ("load", "load_all", slot, True, "molecule", None, aspath, None, False),
                    ("put", slot, fmt, rng.randint(0, 4), rng.choice(["inplace", "replace"])),
                    ("dump", oi, "path", slot, fmt, False, "a", aspath),
                    ("load", "load_all", slot, True, "Structure", None, aspath, None, False),
                    ("dumps", oi, fmt), ("mutate", oi), ("dumps", oi, fmt), ("dumps", oi + 1, fmt), ("dumps", oi, fmt),
                    ("dump", oi, "stream", 0, fmt, True, None, False), ("mutate", oi),
                    ("dump", oi, "stream", 0, fmt, True, None, False), ("dump", oi + 1, "stream", 1, fmt, True, None, False),
                    ("dump", oi, "stream", 0, "xyz" if fmt == "mol2" else "mol2", True, None, False),
                    ("dump", oi, "path", 2, "cdxml", False, "w", aspath),
                    ("load", "load_all", slot, True, "molecule", None, aspath, None, False)]))
    # what the caller owns: refused dumps (unknown / openbabel-only / cdxml / no format) and a failing class-level writer
    # BETWEEN accepted dumps into the same caller stream (StringIO, file opened by the caller) and into paths
    for fmt in ("xyz", "mol2"):
        other = "xyz" if fmt == "mol2" else "mol2"
        for oi in (0, 1, 2):
            for ti in (0, 1):
                aspath = rng.random() < 0.5
                slot = rng.choice(slot_of[fmt])
                refusals = [("dump", oi, "stream", ti, f, True, None, False) for f in ("zzz", "sdf", "cdxml")] \
                    + [("dump", oi, "stream", ti, fmt, False, None, False)]
                rng.shuffle(refusals)
                progs.append(("owned", [
                    ("dump", oi, "stream", ti, fmt, True, None, False), refusals[0],
                    ("dump", oi + 1, "stream", ti, other, True, None, False), refusals[1], refusals[2],
                    ("dump", "faulty", "stream", ti, fmt, True, None, False),
                    ("mutate", oi), ("dump", oi, "stream", ti, fmt, True, None, False), refusals[3],
                    ("dump", oi, "stream", 1 - ti, other, True, None, False),
                    ("dump", oi, "path", slot, fmt, True, "w", aspath),
                    ("dump", oi, "path", 3, rng.choice(["zzz", "sdf", "cdxml"]), True, rng.choice([None, "a", "w"]), aspath),
                    ("dump", "faulty", "path", slot, fmt, rng.random() < 0.5, "a", aspath),
                    ("dump", oi + 1, "path", slot, fmt, False, None, not aspath),
                    ("load", "load_all", slot, True, "molecule", None, aspath, None, False),
                    ("dumps", "faulty", fmt), ("dumps", oi, fmt),
                    ("dump", oi + 2, "stream", ti, fmt, True, None, False)]))
    # CONTENT ALPHABET through every entry point: files whose names / labels / comment lines lie beyond ASCII (written by the
    # class-level writers and by another program), a byte order mark in front, bytes that are not text in the default
    # encoding -- by path (str / Path, format given / from the suffix), as strings; objects with such names and labels
    # rendered to strings, into paths and into the caller's streams, and read back
    for fmt in ("xyz", "mol2"):
        nx = len(rw.xpool[fmt])
        for xi in range(nx):
            for verb in ("load", "load_all"):
                for aspath in (False, True):
                    slot = rng.choice(slot_of[fmt])
                    otn = rng.choice(["molecule", "Structure"] + (["ensemble"] if verb == "load" else []))
                    other = "load_all" if verb == "load" else "load"
                    expl = rng.random() < 0.5
                    ti = rng.randint(0, 1)
                    p = [("putx", slot, fmt, xi, "inplace"),
                         ("load", verb, slot, expl, otn, None, aspath, None, False),
                         ("load", other, slot, not expl, "molecule", "renamed", not aspath, None, True),
                         ("loadsx", "loads" if verb == "load" else "loads_all", fmt, xi, "molecule" if otn == "ensemble" and verb != "load" else otn, None, False),
                         ("loadsx", "loads_all" if verb == "load" else "loads", fmt, xi + 1, "Structure", "renamed", False),
                         ("put", slot, fmt, rng.randint(0, 4), rng.choice(["inplace", "replace"])),
                         ("load", verb, slot, expl, otn, None, aspath, None, False),
                         ("putx", slot, fmt, xi + 1, rng.choice(["replace", "keep-mtime"])),
                         ("load", verb, slot, not expl, otn, "renamed", aspath, None, False),
                         ("dumps", 3, fmt), ("dumps", 4, fmt),
                         ("dump", 3 + xi % 2, "path", slot, fmt, expl, "w", aspath),
                         ("load", "load", slot, True, "molecule", None, not aspath, None, False),
                         ("dump", 4 - xi % 2, "path", slot, fmt, not expl, rng.choice([None, "a"]), not aspath),
                         ("load", "load_all", slot, False, "Structure", None, aspath, None, False),
                         ("dump", 3, "stream", ti, fmt, True, None, False), ("dump", 4, "stream", ti, fmt, True, None, False),
                         ("seek", ti, 0), ("dump", 3, "stream", ti, fmt, True, "a", False),
                         ("dump", 4, "stream", 1 - ti, fmt, True, None, False)]
                    progs.append(("alphabet", p))
    # POSITION AND PRIOR CONTENT of a stream the caller owns: the stream already holds text and is positioned at its start
    # (built from a string / opened "r+"), inside it or behind it; its owner rewinds / moves it between dumps; accepted,
    # refused and failing dumps, with and without an open mode.  Reference: the class-level writer on a twin stream.
    for fmt in ("xyz", "mol2"):
        other = "xyz" if fmt == "mol2" else "mol2"
        for ti in (0, 1):
            for frac in (0, 0.4, None):
                for oi in (0, 1, 3):
                    refusal = ("dump", oi, "stream", ti, rng.choice(["zzz", "sdf", "cdxml"]), True, None, False) if rng.random() < 0.7 \
                        else ("dump", oi, "stream", ti, fmt, False, None, False)
                    p = [("restream", ti, rng.choice([fmt, other]), rng.randint(0, 8), frac),
                         ("dump", oi, "stream", ti, fmt, True, None, False),
                         ("dump", oi + 1, "stream", ti, other, True, rng.choice([None, "a", "w"]), False),
                         ("seek", ti, 0), ("dump", oi, "stream", ti, fmt, True, rng.choice([None, "a"]), False), refusal,
                         ("seek", ti, rng.choice([0.25, 0.5, 0.75])), ("dump", "faulty", "stream", ti, fmt, True, None, False),
                         ("mutate", oi), ("dump", oi, "stream", ti, other, True, "w", False),
                         ("seek", ti, None), ("dump", oi + 3, "stream", ti, fmt, True, None, False),
                         ("dump", oi, "stream", 1 - ti, fmt, True, None, False),
                         ("seek", 1 - ti, 0), ("dump", oi + 1, "stream", 1 - ti, fmt, True, None, False)]
                    progs.append(("position", p))
    n_rand = 1200 if ctx.thorough else 120
    for _ in range(n_rand):
        p, have = [], set()
        for _ in range(rng.randint(5, 12)):
            r = rng.random()
            if rng.random() < 0.15:
                q = rng.random()
                if q < 0.3:
                    p.append(("seek", rng.randint(0, 1), rng.choice([0, 0, 0.3, 0.6, None])))
                elif q < 0.5:
                    p.append(("restream", rng.randint(0, 1), rng.choice(["xyz", "mol2"]), rng.randint(0, 8), rng.choice([0, 0.5, None])))
                elif q < 0.8:
                    fmt = rng.choice(["xyz", "mol2"])
                    slot = rng.choice(slot_of[fmt])
                    p.append(("putx", slot, fmt, rng.randint(0, 4), rng.choice(["inplace", "replace", "keep-mtime"])))
                    have.add(slot)
                else:
                    p.append(("loadsx", rng.choice(["loads", "loads_all"]), rng.choice(["xyz", "mol2"]), rng.randint(0, 3),
                              rng.choice(["molecule", "Structure"]), rng.choice([None, "renamed"]), False))
                continue
            if r < 0.25 or not have:
                fmt = rng.choice(["xyz", "mol2", "cdxml"])
                slot = rng.choice(slot_of[fmt])
                p.append(("put", slot, fmt, rng.randint(0, 9), rng.choice(["inplace", "replace", "keep-mtime"])))
                have.add(slot)
            elif r < 0.60:
                slot = rng.choice(sorted(have))
                verb = rng.choice(["load", "load_all"])
                otn = rng.choice(["molecule", "molecule", "Structure"] + (["ensemble"] if verb == "load" else []))
                p.append(("load", verb, slot, rng.random() < 0.5, otn, rng.choice([None, "renamed"]), rng.random() < 0.5,
                          rng.choice([None, None, None, "first"]) if verb == "load" else None, rng.random() < 0.5))
            elif r < 0.70:
                fmt = rng.choice(["xyz", "mol2"])
                verb = rng.choice(["loads", "loads_all"])
                p.append(("loads", verb, fmt, rng.randint(0, 3), rng.choice(["molecule", "Structure"]), rng.choice([None, "renamed"]),
                          rng.random() < 0.5))
            elif r < 0.80:
                p.append(("mutate", rng.randint(0, 2)))
            elif r < 0.88:
                p.append(("dumps", rng.randint(0, 2), rng.choice(["xyz", "mol2"])))
            elif r < 0.93:
                p.append(("dump", rng.choice([0, 1, 2, 0, 1, 2, "faulty"]), "stream", rng.randint(0, 1),
                          rng.choice(["xyz", "mol2", "xyz", "mol2", "zzz", "sdf", "cdxml"]), rng.random() < 0.85, None, False))
            else:
                slot = rng.choice([0, 1, 3, 4, 5])
                fmt = SLOTS[slot][1] or rng.choice(["xyz", "mol2"])
                p.append(("dump", rng.randint(0, 2), "path", slot, fmt, rng.random() < 0.5, rng.choice([None, "a", "w"]), rng.random() < 0.5))
                have.add(slot)
        progs.append(("random", p))
    return progs


def run_real_seqs(ctx, rep):
    import molli as ml
    rw = RealWorld(ml)
    work = ctx.sub("c09realseq")
    found = False
    conf = Confirm(ctx, "realseq")
    progs = gen_real_progs(ctx, rw)
    for n, (fam, prog) in enumerate(progs):
        d = os.path.join(work, f"h{n}")
        res = run_real_prog(rw, prog, d)
        shutil.rmtree(d, ignore_errors=True)
        rep.case(key="realseq:" + hashlib.sha1(json.dumps(prog).encode()).hexdigest()[:16])
        rep.count("realseq:family:" + fam)
        prev = "start"
        for op in prog:
            cur = op[1] if op[0] in ("load", "loads") else (op[0] + ("-" + op[2] if op[0] == "dump" else ""))
            rep.count(f"realseq:pair:{prev}>{cur}")
            if op[0] == "put":
                rep.count("realseq:rewrite:" + op[4])
            if op[0] in ("putx", "loadsx"):
                x = rw.xpool[op[2]] if op[0] == "putx" else [t for t in rw.xpool[op[2]] if isinstance(t, str)]
                x = x[op[3] % len(x)]
                rep.count(f"realseq:alphabet:{'file' if op[0] == 'putx' else 'string'}:{op[2]}:"
                          + ("not-text-in-default-encoding" if isinstance(x, bytes) else "byte-order-mark" if x.startswith("\ufeff")
                             else "beyond-ascii"))
            if op[0] in ("dump", "dumps") and op[1] in (3, 4):
                rep.count(f"realseq:alphabet:object:{op[0]}" + ("-" + op[2] if op[0] == "dump" else ""))
            if op[0] in ("seek", "restream"):
                fr = op[-1]
                rep.count(f"realseq:caller-stream-position:{op[0]}:{CallerStream.KINDS[op[1] % 2]}:"
                          + ("behind-its-text" if fr is None else "at-its-start" if fr == 0 else "inside-its-text"))
            if op[0] == "dump":
                sup = op[4] in ("xyz", "mol2") and (op[5] or op[2] == "path")
                rep.count(f"realseq:caller-owned:{'stream-' + CallerStream.KINDS[op[3] % 2] if op[2] == 'stream' else 'path'}:"
                          + ("refused" if not sup else "writer-failed" if op[1] == "faulty" else "accepted"))
            prev = cur
        if len(rep.samples) < 8 and fam == "recall-load" and n % 17 == 0:
            rep.samples.append("real history: " + json.dumps(prog)[:400])
        for i, sig, text in res[:1]:          # the first diverging step names the history
            found = True
            rd = conf.replay_dict(sig, [list(o) for o in prog[:i + 1]], [[list(o) for o in q] for _, q in progs[:n]])
            if rd:
                rep.violate(sig, text + (" (after the earlier histories of this run)" if "before" in rd else ""), rd)
    return found


def run(ctx, rep):
    rep.rule = ("exhaustive matrix verb x format-class x format-source x otype x name x target x parser under recording "
                "mocks (tie T), plus bundled real files through every supported cell compared with the direct class "
                "method; a case is non-trivial when it reaches a class-level codec or an explicit rejection; distinct by cell. "
                "Histories: 'call, change the source, call again' for every cell (quick: every cell with parser 'molli' and a "
                "quarter of the other spellings) plus random histories under one persistent mock environment, compared "
                "step by step with Model/DispatchSeq.v `run` by the kernel; directed and random histories on real files / "
                "objects / streams, each step compared with the class-level codec applied to the source as it is now; "
                "caller-owned streams holding text and positioned at their start / inside / behind it (families `position`), "
                "content beyond ASCII through every path / string / stream entry point (all mock records; family `alphabet`); "
                "distinct by history")
    rep.trusted += ["T-emitter harness/c09.py (recording mocks around molli.load/loads/load_all/loads_all/dump/dumps)",
                    "CPython 3.12 executing molli/reader.py and molli/writer.py",
                    "class-level codecs themselves are NOT verified here (C07, C08)",
                    "T-emitter for histories: harness/c09.py observe_prog (token texts <Dn>/<W:..> written to and parsed from "
                    "the files/streams; the Python mirror py_step only NAMES a diverging step, Coq check_seq decides); every "
                    "token has the same width in characters and in bytes and carries the non-ASCII sampler " + ascii(SAMPLER),
                    "the harness reads and writes files in the default text encoding of the process ("
                    + __import__("locale").getpreferredencoding(False) + "), the one the class-level codecs use"]
    rep.assumptions += ["format strings are only compared with literals / set membership, so five representatives "
                        "(xyz, mol2, cdxml, an openbabel-only one, an unknown one) cover all strings",
                        "openbabel is not installed: parser='openbabel' cells are outside the matrix",
                        "histories: whether a REFUSED dump (unsupported format) created or truncated the path it was given "
                        "is not observed (the property does not say); the file is put back before the next step",
                        "a caller's stream is positioned anywhere from its start to the end of its text, never beyond it (OSeek "
                        "clamps): what a stream does with the gap is not the entry point's business"]
    rows = gen_table(ctx)
    for c, a in rows:
        rep.case(key=cell_term(c))
        rep.count("action:" + a.split()[0].strip("()"))
    rep.samples += [f"{cell_term(c)} |-> {a}" for c, a in rows[::97]][:5]
    rep.exhaustive = True
    ok, out, where = vlib.build_props(ctx, rep, "C09")
    found = False
    # oracle on real objects (also what turns a broken table theorem into a concrete input)
    for desc, ep, cm, kind in real_cases(ctx):
        rep.case(key="real:" + json.dumps(desc, default=str))
        r = judge_real(desc, ep, cm, kind)
        if r:
            found = True
            rep.violate(r[0], r[1], {"kind": "real", "desc": list(desc)})
    # histories: hidden state between calls (mocks -> Coq model of histories; real files -> class-level codec now)
    import time, warnings
    t1 = time.time()
    found = run_seq_mocks(ctx, rep, coq=ok) or found
    t2 = time.time()
    with warnings.catch_warnings():
        warnings.simplefilter("ignore")
        found = run_real_seqs(ctx, rep) or found
    rep.extra["timing_s"] = {"table+props+oneshot": round(t1 - ctx.t0, 1), "histories_mocks": round(t2 - t1, 1),
                             "histories_real": round(time.time() - t2, 1)}
    if not ok:
        # search: name the cells where the regenerated table and the spec differ
        bad = [(c, a) for c, a in rows if a.split(" (*")[0] != py_spec(c)]
        for c, a in bad[:50]:
            found = True
            kind = a.split()[0].strip("()")
            if kind == "AOdd":
                code = int(re.sub(r"\D", "", a.split(" (*")[0]) or 0)
                kind += ":" + ODD_CODES.get(code, str(code))
            rep.violate("C09:cell:" + ":".join(str(x) for x in (c[0], c[1], c[3], c[5])) + ":" + kind,
                        f"cell {cell_term(c)}: observed {a}, specified {py_spec(c)}", {"kind": "cell", "cell": list(c)})
        vlib.broken_obligation(rep, "C09_matrix", f"{where}\n{out[-1500:]}", found)


def replay(ctx, data):
    import molli as ml
    out = []
    if data.get("kind") == "cell":
        c = tuple(data["cell"])
        a = observe_cell(ml, c, ctx.sub("rp"))
        if a.split(" (*")[0] != py_spec(c):
            out.append(vlib.Violation("C09:cell", f"cell {cell_term(c)}: observed {a}, specified {py_spec(c)}"))
    elif data.get("kind") == "real":
        for desc, ep, cm, kind in real_cases(ctx):
            if json.loads(json.dumps(list(desc), default=str)) == data["desc"]:
                r = judge_real(desc, ep, cm, kind)
                if r:
                    out.append(vlib.Violation(r[0], r[1]))
    elif data.get("kind") == "seq":
        for n, q in enumerate(data.get("before", [])):
            observe_prog(ml, [op_unjson(j) for j in q], os.path.join(ctx.sub("rpseq"), f"b{n}"))
        prog = [op_unjson(j) for j in data["prog"]]
        _, obs = observe_prog(ml, prog, os.path.join(ctx.sub("rpseq"), "p"))
        r = judge_prog(prog, obs)
        if r:
            out.append(vlib.Violation(r[0], r[1]))
    elif data.get("kind") == "realseq":
        prog = [tuple(o) for o in data["prog"]]
        import warnings
        warnings.simplefilter("ignore")
        rw = RealWorld(ml)
        for n, q in enumerate(data.get("before", [])):
            run_real_prog(rw, [tuple(o) for o in q], os.path.join(ctx.sub("rprealseq"), f"b{n}"))
        for i, sig, text in run_real_prog(rw, prog, os.path.join(ctx.sub("rprealseq"), "h"))[:1]:
            out.append(vlib.Violation(sig, text))
    return out
