"""C09 -- every public load/dump entry point agrees with the class-level codec.

Tie T (exhaustive, regenerated every run): the six entry points of molli/reader.py and
molli/writer.py are executed on the WHOLE configuration matrix with recording mock classes;
the observed action of every cell is emitted as Gen/DispatchTable.v and Coq proves
`table = spec` on all cells (Props/C09.v).
Tie H / oracle: real files and objects through the same matrix, compared with the direct
class-method call (deep equality of molecules / written text).
"""
import io, os, sys, itertools, json, tempfile
import vlib
from vlib import cq_list, cq_bool

VERBS = ["VLoad", "VLoads", "VLoadAll", "VLoadsAll", "VDump", "VDumps"]
FMTS = {"FXyz": "xyz", "FMol2": "mol2", "FCdxml": "cdxml", "FObabel": "sdf", "FUnknown": "zzz"}
FSRC = ["FsExplicit", "FsSuffix"]
OTYPES = ["OMol", "OEns", "OStructCls", "OEnsCls"]
TGTS = ["TPath", "TPathObj", "TStream", "TStr"]
PARSERS = {"PMolli": "molli", "PMolliUpper": "MOLLI", "PUnknown": "gaussian"}


def valid(verb, fmt, fsrc, otype, named, tgt, parser, dotted=False):
    if dotted and tgt not in ("TPath", "TPathObj"):
        return False          # the stem shape only exists for path sources / targets
    if verb in ("VLoad", "VLoadAll"):
        return tgt in ("TPath", "TPathObj")
    if verb in ("VLoads", "VLoadsAll"):
        return tgt == "TStr" and fsrc == "FsExplicit"
    if verb == "VDump":
        if otype not in ("OMol", "OEns") or named:
            return False
        if tgt == "TStream":
            return True   # FsSuffix with a stream = no format given at all
        return tgt in ("TPath", "TPathObj")
    if verb == "VDumps":
        return otype in ("OMol", "OEns") and not named and tgt == "TStr" and fsrc == "FsExplicit"
    return False


def all_cells():
    for c in itertools.product(VERBS, FMTS, FSRC, OTYPES, [False, True], TGTS, PARSERS, [False, True]):
        if valid(*c):
            yield c


def cell_term(c):
    verb, fmt, fsrc, otype, named, tgt, parser, dotted = c
    return f"(mk_cell {verb} {fmt} {fsrc} {otype} {cq_bool(named)} {tgt} {parser} {cq_bool(dotted)})"


# ------------------------------------------------------------------ mocks (tie T)
class Sent:
    """Result sentinel returned by a mock class method."""
    def __init__(self, **kw):
        self.__dict__.update(kw)


def observe_cell(ml, c, work):
    """Run one cell against recording mocks; return the Coq `action` term."""
    verb, fmt, fsrc, otype, named, tgt, parser, dotted = c
    ext = FMTS[fmt]
    stem = "in.put.v2" if dotted else "input"
    GIVEN_NAME = "given-name-7"
    log = []

    def classify_src(x, path, data):
        if isinstance(x, str) and x is data:
            return "SGivenStr"
        if isinstance(x, (str, os.PathLike)) and os.path.abspath(os.fspath(x)) == os.path.abspath(str(path)):
            return "SStreamOfPath"     # handing the path itself to the class method (which opens it) is the same source
        if hasattr(x, "read") and getattr(x, "name", None) is not None and os.path.abspath(str(x.name)) == os.path.abspath(str(path)) \
                and "r" in getattr(x, "mode", "") and "b" not in getattr(x, "mode", "") and not x.closed:
            return "SStreamOfPath"
        return "SOtherSrc"

    def name_kind(kw):
        if "name" not in kw:
            return "NNone"      # not passing name = passing the class method's default None
        if kw["name"] is None:
            return "NNone"
        return "NGiven" if kw["name"] == GIVEN_NAME else "NWrong"

    path = os.path.join(work, stem + "." + (ext if fsrc == "FsSuffix" else "dat"))
    open(path, "w").write("mock file body\n")
    data = "mock string body " + ext

    def mk_cls(base, kname):
        ns = {"_kname": kname}

        def mk(vb, f2):
            def meth(cls, src, *a, **kw):
                extra = bool(a) or bool(set(kw) - {"name"})
                return Sent(kind="call", cls=cls._kname, meth=(vb, f2), src=classify_src(src, path, data),
                            name=name_kind(kw), extra=extra)
            return classmethod(meth)
        for vb, pn in (("VLoad", "load"), ("VLoads", "loads"), ("VLoadAll", "load_all"), ("VLoadsAll", "loads_all")):
            for f2, fn in (("FXyz", "xyz"), ("FMol2", "mol2")):
                ns[f"{pn}_{fn}"] = mk(vb, f2)

        def __init__(self, other=None, *a, **kw):
            self.ctor_arg = other
            self.ctor_extra = bool(a) or bool(kw)
        ns["__init__"] = __init__
        return type("Mock" + kname, (base,), ns)

    real_mol, real_ens, real_cdx = ml.Molecule, ml.ConformerEnsemble, ml.CDXMLFile
    MMol = mk_cls(real_mol, "KMol")
    MEns = mk_cls(real_ens, "KEns")
    MStruct = mk_cls(ml.Structure, "KStruct")
    MEnsCls = mk_cls(MEns, "KEnsCls")

    class MockCDX:
        def __init__(self, p):
            self.path_ok = os.path.abspath(str(p)) == os.path.abspath(path)
            self.xfrags = ["frag0", "frag1", "frag2"]

        def _parse_fragment(self, fg, name=None, **kw):
            return Sent(kind="frag", idx=self.xfrags.index(fg), name=name_kind({"name": name}), path_ok=self.path_ok)

        def __getitem__(self, key):
            return Sent(kind="fragkey", key=key)

    class MockObj:
        def __init__(self):
            self.calls = []

        def _rec(self, meth, stream, a, kw):
            self.calls.append((meth, stream, bool(a) or bool(kw)))
            if stream is not None:
                stream.write(f"<<{meth}>>")

        def dump_xyz(self, stream, *a, **kw): self._rec(("VDump", "FXyz"), stream, a, kw)
        def dump_mol2(self, stream, *a, **kw): self._rec(("VDump", "FMol2"), stream, a, kw)

        def dumps_xyz(self, *a, **kw):
            self.calls.append((("VDumps", "FXyz"), None, bool(a) or bool(kw)))
            return Sent(kind="dumps", meth=("VDumps", "FXyz"))

        def dumps_mol2(self, *a, **kw):
            self.calls.append((("VDumps", "FMol2"), None, bool(a) or bool(kw)))
            return Sent(kind="dumps", meth=("VDumps", "FMol2"))

    class MockEnsObj(MockObj, real_ens):
        def __init__(self):
            MockObj.__init__(self)

    ml.Molecule, ml.ConformerEnsemble, ml.CDXMLFile = MMol, MEns, MockCDX
    try:
        ot = {"OMol": "molecule", "OEns": "ensemble", "OStructCls": MStruct, "OEnsCls": MEnsCls}[otype]
        kw = {"parser": PARSERS[parser]}
        if named:
            kw["name"] = GIVEN_NAME
        fmt_arg = ext if fsrc == "FsExplicit" else None
        p_arg = path if tgt == "TPath" else __import__("pathlib").Path(path)
        try:
            if verb in ("VLoad", "VLoadAll"):
                fn = ml.load if verb == "VLoad" else ml.load_all
                res = fn(p_arg, fmt_arg, otype=ot, **kw)
            elif verb in ("VLoads", "VLoadsAll"):
                fn = ml.loads if verb == "VLoads" else ml.loads_all
                res = fn(data, fmt_arg, otype=ot, **kw)
            elif verb == "VDump":
                obj = MockObj() if otype == "OMol" else MockEnsObj()
                opath = os.path.join(work, stem.replace("in", "out") + "." + (ext if fsrc == "FsSuffix" else "dat"))
                if os.path.exists(opath):
                    os.remove(opath)
                if tgt == "TStream":
                    stream = io.StringIO()
                    target = stream
                else:
                    stream = None
                    target = opath if tgt == "TPath" else __import__("pathlib").Path(opath)
                res = ml.dump(obj, target, fmt_arg, writer=PARSERS[parser], mode="w")
                if res is not None or len(obj.calls) != 1:
                    return "(AOdd 1)" if res is not None else ("ANothing" if not obj.calls else "(AOdd 2)")
                meth, st, extra = obj.calls[0]
                if extra:
                    return "(AOdd 3)"
                if tgt == "TStream":
                    ok = st is stream and not stream.closed and stream.getvalue() == f"<<{meth}>>"
                    return f"(AWrote ({meth[0]}, {meth[1]}) SGivenStream {cq_bool(ok)})"
                ok = st.closed and open(opath).read() == f"<<{meth}>>" and os.path.abspath(st.name) == os.path.abspath(opath)
                return f"(AWrote ({meth[0]}, {meth[1]}) SOpenedPath {cq_bool(ok)})"
            else:
                obj = MockObj() if otype == "OMol" else MockEnsObj()
                res = ml.dumps(obj, fmt_arg, writer=PARSERS[parser])
                if isinstance(res, Sent) and res.kind == "dumps" and len(obj.calls) == 1 and not obj.calls[0][2]:
                    return f"(ARet (RDumps ({res.meth[0]}, {res.meth[1]})))"
                return "ANothing" if res is None and not obj.calls else "(AOdd 4)"
        except (ValueError, NotImplementedError):
            return "(ARaise XUnsupported)"
        except BaseException as e:  # noqa
            return f"(ARaise XOther) (* {type(e).__name__} *)"
        # classify a load-like result
        def one(r):
            if isinstance(r, Sent) and r.kind == "call":
                if r.extra:
                    return "(ROdd 5)"
                return f"(RCall {r.cls} ({r.meth[0]}, {r.meth[1]}) {r.src} {r.name})"
            if hasattr(r, "ctor_arg") and isinstance(r.ctor_arg, Sent) and r.ctor_arg.kind == "frag" and not r.ctor_extra \
                    and r.ctor_arg.path_ok:
                return f"(RCtor {type(r)._kname} {r.ctor_arg.idx}%nat {r.ctor_arg.name})"
            return "(ROdd 6)"
        if res is None:
            return "ANothing"
        if isinstance(res, list):
            return "(ARet (RList " + cq_list(one(r) for r in res) + "))"
        return f"(ARet {one(res)})"
    finally:
        ml.Molecule, ml.ConformerEnsemble, ml.CDXMLFile = real_mol, real_ens, real_cdx


def gen_table(ctx):
    import molli as ml
    work = ctx.sub("c09mock")
    rows = []
    for c in all_cells():
        rows.append((c, observe_cell(ml, c, work)))
    txt = ("(* REGENERATED on every run by harness/c09.py from the behaviour of molli/reader.py and\n"
           "   molli/writer.py under recording mocks -- do not edit. *)\n"
           "From Coq Require Import List. Import ListNotations.\nFrom Molli Require Import Model.Dispatch.\n\n"
           "Definition table : list (cell * action) := [\n  "
           + ";\n  ".join(f"({cell_term(c)}, {a})" for c, a in rows) + "\n].\n")
    vlib.write_if_changed(os.path.join(vlib.COQ, "Gen", "DispatchTable.v"), txt)
    return rows


# ------------------------------------------------------------------ spec mirror (for the search) + oracle on real objects
def py_spec(c):
    """Python mirror of Model/Dispatch.v `spec` -- used only to name mismatching cells."""
    verb, fmt, fsrc, otype, named, tgt, parser, dotted = c
    nm = "NGiven" if named else "NNone"
    cls = {"OMol": "KMol", "OEns": "KEns", "OStructCls": "KStruct", "OEnsCls": "KEnsCls"}[otype]
    ens = otype in ("OEns", "OEnsCls")
    if parser == "PUnknown":
        return "(ARaise XUnsupported)"
    if verb in ("VLoadAll", "VLoadsAll") and ens:
        return "(ARaise XUnsupported)"
    if verb == "VDump" and tgt == "TStream" and fsrc == "FsSuffix":
        return "(ARaise XUnsupported)"
    if fmt in ("FObabel", "FUnknown"):
        return "(ARaise XUnsupported)"
    if fmt == "FCdxml":
        if verb == "VLoad":
            return f"(ARet (RCtor {cls} 0%nat {nm}))"
        if verb == "VLoadAll":
            return "(ARet (RList " + cq_list(f"(RCtor {cls} {i}%nat {nm})" for i in range(3)) + "))"
        return "(ARaise XUnsupported)"
    if verb in ("VLoad", "VLoadAll"):
        return f"(ARet (RCall {cls} ({verb}, {fmt}) SStreamOfPath {nm}))"
    if verb in ("VLoads", "VLoadsAll"):
        return f"(ARet (RCall {cls} ({verb}, {fmt}) SGivenStr {nm}))"
    if verb == "VDump":
        return f"(AWrote (VDump, {fmt}) {'SGivenStream' if tgt == 'TStream' else 'SOpenedPath'} true)"
    return f"(ARet (RDumps (VDumps, {fmt})))"


def mol_sig(m):
    """Deep, comparable description of a molecule / ensemble."""
    import numpy as np
    import molli as ml
    d = {"cls": type(m).__name__, "name": m.name, "n": m.n_atoms,
         "atoms": [(a.element.name, a.label, str(a.atype), a.isotope) for a in m.atoms],
         "bonds": [(m.get_atom_index(b.a1), m.get_atom_index(b.a2), str(b.btype)) for b in getattr(m, "bonds", [])],
         "coords": np.round(np.asarray(m.coords, dtype=float), 6).tolist()}
    if isinstance(m, ml.ConformerEnsemble):
        d["nc"] = m.n_conformers
    return json.dumps(d, sort_keys=True)


def real_cases(ctx):
    """Real-object matrix: (cell-like description, thunk via entry point, thunk via class method)."""
    import molli as ml
    from pathlib import Path
    F = ml.files
    work = ctx.sub("c09real")
    import shutil
    single, multi = {}, {}
    for fmt, a, b in (("xyz", F.dendrobine_xyz, F.pentane_confs_xyz), ("mol2", F.dendrobine_mol2, F.pentane_confs_mol2)):
        # file names with a dotted stem: the format must come from the LAST suffix only
        single[fmt] = Path(shutil.copy(a, os.path.join(work, f"dendrobine.v2.final.{fmt}")))
        multi[fmt] = Path(shutil.copy(b, os.path.join(work, f"pentane.confs.{fmt}")))
    cases = []
    for fmt in ("xyz", "mol2"):
        for otn, cls in (("molecule", ml.Molecule), ("ensemble", ml.ConformerEnsemble), ("Structure", ml.Structure)):
            ot = cls if otn == "Structure" else otn
            for name in (None, "renamed"):
                for explicit in (True, False):
                    src = multi[fmt] if cls is ml.ConformerEnsemble else single[fmt]
                    for aspath in (True, False):
                        p = Path(src) if aspath else str(src)
                        def ep(p=p, fmt=fmt, ot=ot, name=name, explicit=explicit):
                            return ml.load(p, fmt if explicit else None, otype=ot, name=name)
                        def cm(src=src, fmt=fmt, cls=cls, name=name):
                            with open(src) as f:
                                return getattr(cls, "load_" + fmt)(f, name=name)
                        cases.append((("load", fmt, otn, name, explicit, aspath), ep, cm, "obj"))
                    if explicit:
                        txt = Path(src).read_text()
                        cases.append((("loads", fmt, otn, name), (lambda txt=txt, fmt=fmt, ot=ot, name=name: ml.loads(txt, fmt, otype=ot, name=name)),
                                      (lambda txt=txt, fmt=fmt, cls=cls, name=name: getattr(cls, "loads_" + fmt)(txt, name=name)), "obj"))
                    if cls is not ml.ConformerEnsemble:
                        src2 = multi[fmt]
                        def ep2(src2=src2, fmt=fmt, ot=ot, name=name, explicit=explicit):
                            return ml.load_all(src2, fmt if explicit else None, otype=ot, name=name)
                        def cm2(src2=src2, fmt=fmt, cls=cls, name=name):
                            with open(src2) as f:
                                return getattr(cls, "load_all_" + fmt)(f, name=name)
                        cases.append((("load_all", fmt, otn, name, explicit), ep2, cm2, "list"))
                        if explicit:
                            txt2 = Path(src2).read_text()
                            cases.append((("loads_all", fmt, otn, name),
                                          (lambda txt2=txt2, fmt=fmt, ot=ot, name=name: ml.loads_all(txt2, fmt, otype=ot, name=name)),
                                          (lambda txt2=txt2, fmt=fmt, cls=cls, name=name: getattr(cls, "loads_all_" + fmt)(txt2, name=name)), "list"))
    # dump / dumps on real objects
    mol = ml.Molecule.load_mol2(str(F.dendrobine_mol2))
    ens = ml.ConformerEnsemble.load_mol2(str(F.pentane_confs_mol2))
    for oname, obj in (("molecule", mol), ("ensemble", ens)):
        for fmt in ("xyz", "mol2"):
            def direct(obj=obj, fmt=fmt):
                return getattr(obj, "dumps_" + fmt)()
            cases.append((("dumps", fmt, oname), (lambda obj=obj, fmt=fmt: ml.dumps(obj, fmt)), direct, "text"))
            def to_stream(obj=obj, fmt=fmt):
                s = io.StringIO(); s.write("PRE\n")
                r = ml.dump(obj, s, fmt)
                assert r is None and not s.closed
                return s.getvalue()
            cases.append((("dump-stream", fmt, oname), to_stream, (lambda d=direct: "PRE\n" + d()), "text"))
            for explicit in (True, False):
                def to_path(obj=obj, fmt=fmt, explicit=explicit):
                    p = os.path.join(work, f"o.{fmt}.{explicit}." + (fmt if not explicit else "out"))
                    if os.path.exists(p): os.remove(p)
                    ml.dump(obj, p, fmt if explicit else None)
                    ml.dump(obj, p, fmt if explicit else None)     # default mode appends
                    ml.dump(obj, Path(p), fmt if explicit else None, mode="w")
                    ml.dump(obj, p, fmt if explicit else None)
                    return open(p).read()
                cases.append((("dump-path", fmt, oname, explicit), to_path, (lambda d=direct: d() + d()), "text"))
    # unsupported formats must raise ValueError on real objects as well
    for fmt in ("sdf", "zzz", "cdxml"):
        cases.append((("dumps-unsupported", fmt), (lambda fmt=fmt: ml.dumps(mol, fmt)), None, "valueerror"))
        cases.append((("dump-unsupported", fmt), (lambda fmt=fmt: ml.dump(mol, io.StringIO(), fmt)), None, "valueerror"))
    for fmt in ("sdf", "zzz"):
        cases.append((("loads-unsupported", fmt), (lambda fmt=fmt: ml.loads("x", fmt)), None, "valueerror"))
        cases.append((("load-unsupported", fmt), (lambda fmt=fmt: ml.load(str(F.dendrobine_xyz), fmt)), None, "valueerror"))
    return cases


def judge_real(desc, ep, cm, kind):
    """Returns None when the entry point agrees with the class method, else (signature, text)."""
    tag = ":".join(str(x) for x in desc[:3])
    if kind == "valueerror":
        try:
            r = ep()
        except (ValueError, NotImplementedError):
            return None
        except Exception as e:
            return (f"C09:real:{tag}:raises-{type(e).__name__}", f"{desc}: expected ValueError, got {type(e).__name__}: {e}")
        return (f"C09:real:{tag}:no-error", f"{desc}: unsupported format accepted silently, returned {r!r}")
    try:
        want = cm()
    except Exception as e:
        want = e
    try:
        got = ep()
    except Exception as e:
        got = e
    if isinstance(want, Exception):
        if isinstance(got, Exception) and type(got) is type(want):
            return None
        return (f"C09:real:{tag}:class-method-raises", f"{desc}: class method raised {want!r} but entry point gave {got!r}")
    if isinstance(got, Exception):
        return (f"C09:real:{tag}:raises-{type(got).__name__}", f"{desc}: entry point raised {type(got).__name__}: {got}")
    if kind == "text":
        if got != want:
            return (f"C09:real:{tag}:text-differs", f"{desc}: written text differs from the class-level writer")
        return None
    if kind == "list":
        if not isinstance(got, list):
            return (f"C09:real:{tag}:not-a-list", f"{desc}: a list is promised, got {type(got).__name__}")
        if [mol_sig(x) for x in got] != [mol_sig(x) for x in want]:
            return (f"C09:real:{tag}:objects-differ", f"{desc}: objects differ from the class-level reader")
        if desc[3] is not None and any(x.name != desc[3] for x in got):
            return (f"C09:real:{tag}:name-ignored", f"{desc}: name override not honoured: {[x.name for x in got][:3]}")
        return None
    if type(got) is not type(want) or mol_sig(got) != mol_sig(want):
        return (f"C09:real:{tag}:objects-differ", f"{desc}: object differs from the class-level reader")
    if desc[3] is not None and got.name != desc[3]:
        return (f"C09:real:{tag}:name-ignored", f"{desc}: name override not honoured: {got.name!r}")
    return None


def run(ctx, rep):
    rep.rule = ("exhaustive matrix verb x format-class x format-source x otype x name x target x parser under recording "
                "mocks (tie T), plus bundled real files through every supported cell compared with the direct class "
                "method; a case is non-trivial when it reaches a class-level codec or an explicit rejection; distinct by cell")
    rep.trusted += ["T-emitter harness/c09.py (recording mocks around molli.load/loads/load_all/loads_all/dump/dumps)",
                    "CPython 3.12 executing molli/reader.py and molli/writer.py",
                    "class-level codecs themselves are NOT verified here (C07, C08)"]
    rep.assumptions += ["format strings are only compared with literals / set membership, so five representatives "
                        "(xyz, mol2, cdxml, an openbabel-only one, an unknown one) cover all strings",
                        "openbabel is not installed: parser='openbabel' cells are outside the matrix"]
    rows = gen_table(ctx)
    for c, a in rows:
        rep.case(key=cell_term(c))
        rep.count("action:" + a.split()[0].strip("()"))
    rep.samples += [f"{cell_term(c)} |-> {a}" for c, a in rows[::97]][:5]
    rep.exhaustive = True
    ok, out, where = vlib.build_props(ctx, rep, "C09")
    found = False
    # oracle on real objects (also what turns a broken table theorem into a concrete input)
    for desc, ep, cm, kind in real_cases(ctx):
        rep.case(key="real:" + json.dumps(desc, default=str))
        r = judge_real(desc, ep, cm, kind)
        if r:
            found = True
            rep.violate(r[0], r[1], {"kind": "real", "desc": list(desc)})
    if not ok:
        # search: name the cells where the regenerated table and the spec differ
        bad = [(c, a) for c, a in rows if a.split(" (*")[0] != py_spec(c)]
        for c, a in bad[:50]:
            found = True
            rep.violate("C09:cell:" + ":".join(str(x) for x in (c[0], c[1], c[3], c[5])) + ":" + a.split()[0].strip("()"),
                        f"cell {cell_term(c)}: observed {a}, specified {py_spec(c)}", {"kind": "cell", "cell": list(c)})
        vlib.broken_obligation(rep, "C09_matrix", f"{where}\n{out[-1500:]}", found)


def replay(ctx, data):
    import molli as ml
    out = []
    if data.get("kind") == "cell":
        c = tuple(data["cell"])
        a = observe_cell(ml, c, ctx.sub("rp"))
        if a.split(" (*")[0] != py_spec(c):
            out.append(vlib.Violation("C09:cell", f"cell {cell_term(c)}: observed {a}, specified {py_spec(c)}"))
    elif data.get("kind") == "real":
        for desc, ep, cm, kind in real_cases(ctx):
            if json.loads(json.dumps(list(desc), default=str)) == data["desc"]:
                r = judge_real(desc, ep, cm, kind)
                if r:
                    out.append(vlib.Violation(r[0], r[1]))
    return out
