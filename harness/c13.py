"""C13 -- CDXML parsing reproduces the drawing: constitution, charges, handedness.

Theorems (coq/Props/C13.v) are about coq/Model/Cdx.v.  Ties:
 T  the per-node / per-bond / per-Display decisions of the RUNNING parser are tabulated over a finite attribute
    product through the public API only (one probe fragment per row in generated CDXML files) and emitted as
    coq/Gen/CdxTables.v; Coq checks table = model on every row and that the rows are the whole product.
 H  every fragment of every bundled CDXML file and of generated variants (stereo marks mirrored, page translated,
    page children permuted, ids renumbered, combinations) is parsed by CDXMLFile; the typed view of the drawing
    (own ElementTree walk) and what the parser returned are compared INSIDE Coq with the model (`check_const`:
    atoms, bonds, hapto expansion, nested joins, charge, multiplicity; `check_geom`: the 3-D coordinates wherever
    the geometric model applies; `check_resolve`: label -> fragment).
 Oracle (implementation alone): independent constitution walk, signed volumes of non-planar centres (mirror =>
    inverted, other variants => kept), parsing twice gives identical results, a label resolves to the same fragment
    whatever was accessed before; SESSIONS on CDXMLFile objects (f[label], f[int], iteration, load / load_all, keys(),
    two objects of one file) interleaved with in-place edits of molecules handed out earlier: every lookup equals the
    one-shot parse, a held molecule changes only through the caller's own edits (`check_session` in Coq).
"""
import os, re, json, math, itertools, copy, warnings
import xml.etree.ElementTree as ET
from fractions import Fraction as Fr
import vlib
from vlib import cq_list, cq_Q, cq_nat, cq_Z, cq_opt, cq_str

HEADER = ("From Coq Require Import List ZArith NArith QArith String.\nImport ListNotations.\n"
          "From Molli Require Import Common.Field3 Model.Cdx.\nLocal Open Scope string_scope.\n")
BUNDLED = ["BOX_4position_fragments", "BOX_bridging_fragments", "BOX_cores", "charges_mult", "parser_demo",
           "parser_demo2", "substituents"]
SWAP = {"WedgeBegin": "WedgedHashBegin", "WedgedHashBegin": "WedgeBegin", "WedgeEnd": "WedgedHashEnd",
        "WedgedHashEnd": "WedgeEnd", "Bold": "Hash", "Hash": "Bold"}
DISPLAYS = ["Solid", "Dash", "Hash", "WedgedHashBegin", "WedgedHashEnd", "Bold", "WedgeBegin", "WedgeEnd", "Wavy",
            "HollowWedgeBegin", "HollowWedgeEnd", "WavyWedgeBegin", "WavyWedgeEnd", "Dot", "DashDot"]
# what the drawing means (written from the CDXML convention, NOT read from the parser): (a1 is the E end, sign)
ACTION = {"WedgeBegin": (False, 1), "WedgedHashBegin": (False, -1), "WedgeEnd": (True, 1), "WedgedHashEnd": (True, -1),
          "Bold": (False, 2), "Hash": (False, -2)}
NTYPES = {None: "NTAbsent", "ExternalConnectionPoint": "NTExt", "Fragment": "NTFragment", "Nickname": "NTNickname",
          "GenericNickname": "NTGeneric", "Unspecified": "NTUnspecified", "MultiAttachment": "NTMulti"}
SPECIAL = {"ExternalConnectionPoint", "Fragment", "Nickname", "GenericNickname", "Unspecified"}
PLANAR = 0.05          # |triple product| below this: the centre is planar in the model
KNOWN_RING = "C13:handedness:mirror-not-inverted:ring-bond"


class Untypable(Exception):
    """the drawing uses an attribute value the typed view does not represent (outside the model)"""


def np_():
    import numpy
    return numpy


# ====================================================================== typed view of a drawing (for the model)
def to_int(s):
    if s is None:
        return None
    if not re.fullmatch(r"[+-]?[0-9]+", s):
        raise Untypable(f"integer attribute {s!r}")
    return int(s)


def nonempty(s):
    if s == "":
        raise Untypable("empty attribute")
    return s


def position(elt):
    if "BoundingBox" in elt.attrib:
        l, t, r, b = map(float, elt.attrib["BoundingBox"].split())
        return (l + r) / 2, (t + b) / 2
    l, t = map(float, elt.attrib["p"].split())
    return l, t


def typed_order(s):
    if s is None:
        return ("OAbsent",)
    if s == "1.5":
        return ("OOneHalf",)
    if re.fullmatch(r"[+-]?[0-9]+", s):
        return ("OInt", int(s))
    if re.fullmatch(r"\s*[+-]?[0-9_]+\s*", s):
        raise Untypable(f"order {s!r}")
    return ("OBad",)


def typed_display(s):
    if s is None:
        return "DAbsent"
    return "D" + s if s in DISPLAYS else "DOther"


def typed_frag(frag):
    nodes = []
    for n in frag.findall("./n"):
        nt = n.get("NodeType")
        ts = n.find("./t/s")
        if ts is not None and ts.text is None and nt == "Unspecified":
            raise Untypable("empty label text")
        sub = n.find("./fragment")
        d = dict(id=n.get("id"), type=NTYPES.get(nt, "NTOther"), elem=to_int(nonempty(n.get("Element"))),
                 iso=to_int(n.get("Isotope")), charge=to_int(n.get("Charge")),
                 rad={None: "RadAbsent", "Doublet": "RadDoublet", "Singlet": "RadSinglet"}.get(n.get("Radical"), "RadOther"),
                 numh=to_int(nonempty(n.get("NumHydrogens"))), anum=nonempty(n.get("AtomNumber")),
                 extnum=nonempty(n.get("ExternalConnectionNum")), gnick=n.get("GenericNickname"),
                 text=(ts.text if ts is not None else None),
                 attach=(n.get("Attachments") or "").split() if nt == "MultiAttachment" else [],
                 sub=typed_frag(sub) if sub is not None else None)
        if d["id"] is None:
            raise Untypable("node without id")
        if nt == "MultiAttachment" and n.get("Attachments") is None:
            raise Untypable("MultiAttachment without Attachments")
        nodes.append(d)
    bonds = []
    for b in frag.findall("./b"):
        if b.get("B") is None or b.get("E") is None:
            raise Untypable("bond without B/E")
        bonds.append(dict(id=b.get("id"), B=b.get("B"), E=b.get("E"), order=typed_order(b.get("Order")),
                          disp=typed_display(b.get("Display")), rawdisp=b.get("Display")))
    return dict(nodes=nodes, bonds=bonds)


def cq_s(s):
    if not all(32 <= ord(c) < 127 for c in s):
        raise Untypable("non-ASCII text")
    return cq_str(s)


def cq_node(d):
    os_ = lambda x: cq_opt(x, cq_s)
    oz = lambda x: cq_opt(x, cq_Z)
    return (f"(mkNode {cq_s(d['id'])} {d['type']} {oz(d['elem'])} {oz(d['iso'])} {oz(d['charge'])} {d['rad']} "
            f"{oz(d['numh'])} {os_(d['anum'])} {os_(d['extnum'])} {os_(d['gnick'])} {os_(d['text'])} "
            f"{cq_list(cq_s(x) for x in d['attach'])})")


def cq_order(o):
    return o[0] if len(o) == 1 else f"(OInt {cq_Z(o[1])})"


def cq_xfrag(t):
    ns = cq_list(f"({cq_node(d)}, {'None' if d['sub'] is None else '(Some ' + cq_xfrag(d['sub']) + ')'})" for d in t["nodes"])
    bs = cq_list(f"(mkXBond {cq_s(b['B'])} {cq_s(b['E'])} {cq_order(b['order'])} {b['disp']})" for b in t["bonds"])
    return f"(XFrag {ns} {bs})"


# ====================================================================== observation of a parsed molecule
def observe(ml, m):
    """Plain-data observation at the granularity of the property."""
    AT = ml.AtomType
    atoms = []
    for a in m.atoms:
        at = {AT.Regular: "ATRegular", AT.AttachmentPoint: "ATAttachment", AT.CoordinationCenter: "ATCoord"}.get(a.atype, "ATOther")
        atoms.append(dict(Z=int(a.element), iso=a.isotope, label=a.label, atype=at, q=a.formal_charge, spin=a.formal_spin,
                          nh=a.attrib.get("__implicit_hydrogens")))
    idx = {id(a): i for i, a in enumerate(m.atoms)}
    bonds = [dict(a1=idx[id(b.a1)], a2=idx[id(b.a2)], bt=int(b.btype), fo=float(b.f_order), order=float(b.order)) for b in m.bonds]
    return dict(atoms=atoms, bonds=bonds, charge=m.charge, mult=m.mult,
                coords=np_().asarray(m.coords, dtype=float).copy(), name=m.name)


def cq_atom(a):
    for k in ("q", "spin"):
        if not isinstance(a[k], int):
            raise Untypable("non-integer charge/spin")
    lbl = a["label"]
    return (f"(mkAtom {cq_Z(a['Z'])} {cq_opt(a['iso'], cq_Z)} {cq_opt(lbl, cq_s)} {a['atype']} {cq_Z(a['q'])} "
            f"{cq_Z(a['spin'])} {cq_opt(a['nh'], cq_Z)})")


def cq_mol(o):
    ats = cq_list(cq_atom(a) for a in o["atoms"])
    bs = cq_list(f"(mkBond {cq_nat(b['a1'])} {cq_nat(b['a2'])} {b['bt']}%N {cq_Q(Fr(b['fo']))})" for b in o["bonds"])
    return f"(mkMol {ats} {bs} {cq_Z(int(o['charge']))} {cq_Z(int(o['mult']))})"


# ====================================================================== independent constitution oracle
RADCODE = {"Doublet": 1, "Singlet": 2}


def expect(frag):
    """Independent ElementTree walk: what the drawing shows.  atoms: list of dicts; bonds: (i, j, kind, f_order)
    with kind = drawn order as text, 'L' for dashed / hapto bonds."""
    nodes = frag.findall("./n")
    ma = {n.get("id"): n.get("Attachments").split() for n in nodes if n.get("NodeType") == "MultiAttachment"}
    atoms, idx = [], {}
    for n in nodes:
        if n.get("id") in ma:
            continue
        nt = n.get("NodeType")
        a = dict(id=n.get("id"), Z=(0 if nt in SPECIAL else int(n.get("Element") or 6)),
                 iso=(int(n.get("Isotope")) if n.get("Isotope") else None), q=int(n.get("Charge", 0)),
                 spin=RADCODE.get(n.get("Radical"), 0), ap=nt in SPECIAL,
                 nh=(int(n.get("NumHydrogens")) if n.get("NumHydrogens") else None), cc=False)
        idx[a["id"]] = len(atoms)
        atoms.append(a)
    bonds, marks = [], []
    for b in frag.findall("./b"):
        B, E = b.get("B"), b.get("E")
        if B in ma or E in ma:
            c, att = (E, ma[B]) if B in ma else (B, ma[E])
            atoms[idx[c]]["cc"] = True
            for t in att:
                bonds.append((idx[c], idx[t], "L", 1.0 / len(att)))
        else:
            o = b.get("Order")
            k = "L" if b.get("Display") == "Dash" else ("1" if o is None else o)
            bonds.append((idx[B], idx[E], k, 1.0))
            if b.get("Display") in ACTION:
                marks.append((idx[B], idx[E], b.get("Display")))
    nested = False
    for n in nodes:
        sub = n.find("./fragment")
        if sub is None:
            continue
        nested = True
        satoms, sbonds, smarks, _ = expect(sub)
        i = [k for k, a in enumerate(atoms) if a.get("id") == n.get("id")][0]
        j = [k for k, a in enumerate(satoms) if a["ap"]][0]
        bi = [b for b in bonds if i in b[:2]]
        bj = [b for b in sbonds if j in b[:2]]
        if len(bi) != 1 or len(bj) != 1:
            raise Untypable("expanded node with more than one bond")
        ri = [x for x in bi[0][:2] if x != i][0]
        rj = [x for x in bj[0][:2] if x != j][0]
        keep1 = [k for k in range(len(atoms)) if k != i]
        keep2 = [k for k in range(len(satoms)) if k != j]
        m1 = {k: p for p, k in enumerate(keep1)}
        m2 = {k: p + len(keep1) for p, k in enumerate(keep2)}
        nb = [(m1[b[0]], m1[b[1]], b[2], b[3]) for b in bonds if i not in b[:2]] \
            + [(m2[b[0]], m2[b[1]], b[2], b[3]) for b in sbonds if j not in b[:2]]
        nb.append((m1[ri], m2[rj], "1", 1.0))
        atoms = [atoms[k] for k in keep1] + [satoms[k] for k in keep2]
        bonds = nb
        marks = [(m1[x], m1[y], d) for x, y, d in marks if i not in (x, y)] \
            + [(m2[x], m2[y], d) for x, y, d in smarks if j not in (x, y)]
    return atoms, bonds, marks, nested


BT_KIND = {1: "1", 2: "2", 3: "3", 4: "4", 5: "5", 6: "6", 20: "1.5", 98: "L"}


def constitution_diffs(exp_atoms, exp_bonds, obs):
    """List of (what, text) differences between the drawing and the parsed molecule."""
    out = []
    oa = obs["atoms"]
    if len(oa) != len(exp_atoms):
        out.append(("atom-count", f"{len(exp_atoms)} nodes drawn, {len(oa)} atoms parsed"))
    else:
        for i, (e, a) in enumerate(zip(exp_atoms, oa)):
            if e["Z"] != a["Z"]:
                out.append(("element", f"atom {i}: drawn Z={e['Z']}, parsed Z={a['Z']}"))
            if e["iso"] != a["iso"]:
                out.append(("isotope", f"atom {i}: drawn isotope {e['iso']}, parsed {a['iso']}"))
            if e["q"] != a["q"]:
                out.append(("formal-charge", f"atom {i}: drawn charge {e['q']}, parsed {a['q']}"))
            if e["spin"] != a["spin"]:
                out.append(("radical", f"atom {i}: drawn radical code {e['spin']}, parsed {a['spin']}"))
            if e["ap"] != (a["atype"] == "ATAttachment"):
                out.append(("attachment-point", f"atom {i}: drawn attachment point {e['ap']}, parsed atype {a['atype']}"))
            if e["cc"] != (a["atype"] == "ATCoord"):
                out.append(("hapto-centre", f"atom {i}: drawn hapto centre {e['cc']}, parsed atype {a['atype']}"))
            if e["nh"] != a["nh"]:
                out.append(("implicit-h", f"atom {i}: drawn NumHydrogens {e['nh']}, parsed {a['nh']}"))
    def key(i, j, k, fo):
        return (min(i, j), max(i, j), k, round(fo, 9))
    eb = sorted(key(*b) for b in exp_bonds)
    ob = sorted(key(b["a1"], b["a2"], BT_KIND.get(b["bt"], f"bt{b['bt']}"), b["fo"]) for b in obs["bonds"])
    if len(eb) != len(ob):
        out.append(("bond-count", f"{len(eb)} bonds drawn, {len(ob)} parsed"))
    elif eb != ob:
        d = sorted(set(eb) ^ set(ob))[:4]
        out.append(("bond-order", f"drawn and parsed bonds differ: {d}"))
    for b in obs["bonds"]:
        k = BT_KIND.get(b["bt"])
        if k not in (None, "L") and abs(b["order"] - float(k)) > 1e-9:
            out.append(("bond-order", f"bond {b['a1']}-{b['a2']} of type {b['bt']} reports order {b['order']}"))
    q = sum(e["q"] for e in exp_atoms)
    s = sum(e["spin"] for e in exp_atoms)
    if obs["charge"] != q:
        out.append(("total-charge", f"formal charges sum to {q}, molecule charge {obs['charge']}"))
    if obs["mult"] != s + 1:
        out.append(("multiplicity", f"radical codes sum to {s}, multiplicity {obs['mult']} (expected {s + 1})"))
    return out


# ====================================================================== graph helpers (oracle side)
def adjacency(n, bonds):
    adj = [[] for _ in range(n)]
    for b in bonds:
        adj[b[0]].append(b[1])
        adj[b[1]].append(b[0])
    return adj


def side(adj, start, direction):
    """atoms reachable from `direction` without passing through `start` (what yield_bfs(start, direction) yields)"""
    seen = {start, direction}
    out, todo = [direction], [direction]
    while todo:
        x = todo.pop()
        for y in adj[x]:
            if y not in seen:
                seen.add(y)
                out.append(y)
                todo.append(y)
    return sorted(out)


def in_ring(adj, a, b):
    """the bond a-b lies on a cycle: b reaches a neighbour of a (other than b) without passing through a"""
    others = [x for x in adj[a] if x != b]
    if len(others) != len(adj[a]) - 1:
        return None          # parallel bonds: not judged
    s = set(side(adj, a, b))
    return any(x in s for x in others)


def volumes(obs, adj):
    """{centre: [((x, y, z), triple product)]} over neighbour triples; hapto neighbourhoods excluded"""
    np = np_()
    p = obs["coords"]
    cc = {i for i, a in enumerate(obs["atoms"]) if a["atype"] == "ATCoord"}
    out = {}
    for i in range(len(obs["atoms"])):
        nb = sorted(set(adj[i]))
        if len(nb) < 3 or i in cc or any(x in cc for x in nb):
            continue
        out[i] = [((x, y, z), float(np.dot(p[x] - p[i], np.cross(p[y] - p[i], p[z] - p[i]))))
                  for x, y, z in itertools.combinations(nb, 3)]
    return out


# ====================================================================== variants of a file
def indent_free(root):
    return ET.tostring(root, encoding="unicode")


def variant_tree(src_root, kind, rng):
    """Returns (new root, index map of top-level fragments or None)."""
    root = copy.deepcopy(src_root)
    kinds = kind.split("+")
    if "mirror" in kinds:
        for b in root.iter("b"):
            d = b.get("Display")
            if d in SWAP:
                b.set("Display", SWAP[d])
    if "translate" in kinds:
        dx, dy = rng.choice([-64, 32, 128, 1000]) + rng.randint(0, 7) / 8.0, rng.choice([-48, 16, 256]) + rng.randint(0, 7) / 8.0
        for e in root.iter():
            if "p" in e.attrib:
                x, y = map(float, e.get("p").split())
                e.set("p", f"{x + dx!r} {y + dy!r}")
            if "BoundingBox" in e.attrib:
                l, t, r, b = map(float, e.get("BoundingBox").split())
                e.set("BoundingBox", f"{l + dx!r} {t + dy!r} {r + dx!r} {b + dy!r}")
    if "permute" in kinds:
        for page in root.findall("./page"):
            ch = list(page)
            for c in ch:
                page.remove(c)
            rng.shuffle(ch)
            for c in ch:
                page.append(c)
    if "renumber" in kinds:
        ids = sorted({e.get("id") for e in root.iter() if e.get("id") is not None})
        new = [str(100000 + k) for k in range(len(ids))]
        rng.shuffle(new)
        mp = dict(zip(ids, new))
        for e in root.iter():
            if e.get("id") is not None:
                e.set("id", mp[e.get("id")])
            for k in ("B", "E"):
                if e.tag == "b" and e.get(k) in mp:
                    e.set(k, mp[e.get(k)])
            for k in ("Attachments", "BondOrdering", "BondCircularOrdering"):
                if e.get(k) is not None:
                    e.set(k, " ".join(mp.get(x, x) for x in e.get(k).split()))
    return root


def top_fragments(root):
    """the fragments the property speaks about, in the order CDXMLFile lists them (own walk)"""
    fr = root.findall("./page/fragment") + root.findall("./page/group/fragment")
    return [f for f in fr if any(c.tag == "b" for c in f)]


def labels_of(root):
    out = {}
    for t in root.findall("./page/t") + root.findall("./page/group/t"):
        s = t.findall("./s")
        if len(s) == 1 and s[0].get("face", "0") == "1" and s[0].text not in out:
            out[s[0].text] = t
    return out


# ====================================================================== geometry cases (model of _cdxml_3dify_)
def planar_start(frag, bl):
    np = np_()
    pos = [position(n) for n in frag.findall("./n") if n.get("NodeType") != "MultiAttachment"]
    X = np.zeros((len(pos), 3))
    X[:, :2] = pos
    X *= 1.5 / bl
    X *= [1, -1, 1]
    X -= np.average(X, axis=0)
    return X


def geom_steps(exp_atoms, exp_bonds, marks):
    """The stereo steps in the order of the drawing's marked bonds, as Coq `gstep` terms + tags."""
    n = len(exp_atoms)
    adj = adjacency(n, exp_bonds)
    natl = lambda l: cq_list(cq_nat(int(i)) for i in l)
    sides = lambda a, ring_of: cq_list(natl(side(adj, a, x)) for x in adj[a] if ring_of(a, x) is False)
    steps, tags = [], []
    for (iB, iE, disp) in marks:
        sw, sign = ACTION[disp]
        a1, a2 = (iE, iB) if sw else (iB, iE)
        ring = in_ring(adj, a1, a2)
        if ring is None or any(in_ring(adj, a, x) is None for a in (a1, a2) for x in adj[a]):
            return None, ["parallel-bonds"]
        if abs(sign) == 1 and not ring:
            ang = math.radians(90) if len(adj[a1]) == 4 else math.radians(60)
            s, c = math.sin(sign * ang), math.cos(sign * ang)
            steps.append(f"(GAcyc {natl(side(adj, a1, a2))} {natl(adj[a1])} {cq_nat(a1)} {cq_nat(a2)} {cq_Q(Fr(s))} {cq_Q(Fr(c))})")
            tags.append("acyclic")
        elif abs(sign) == 1:
            steps.append(f"(GRing {cq_Q(Fr(sign))} {cq_nat(a1)} {cq_nat(a2)} {sides(a1, lambda a, x: in_ring(adj, a, x))} {sides(a2, lambda a, x: in_ring(adj, a, x))})")
            tags.append("ring")
        else:
            steps.append(f"(GFlat {cq_Q(Fr(sign))} {cq_nat(a1)} {cq_nat(a2)} {sides(a1, lambda a, x: in_ring(adj, a, x))} {sides(a2, lambda a, x: in_ring(adj, a, x))})")
            tags.append("flat")
    return steps, tags


def vq(v):
    return "(" + ", ".join(cq_Q(Fr(float(x))) for x in v) + ")"


def rowsq(X):
    return cq_list(vq(r) for r in X)


# ====================================================================== probe documents (tie T and synthetic drawings)
class Doc:
    """A small CDXML page built from scratch: labelled fragments on a grid, every label right below its fragment."""

    def __init__(self, bl=30.0):
        self.bl = bl
        self.parts = []
        self.k = 0
        self.nid = 1000

    def cell(self):
        k = self.k
        self.k += 1
        return 100.0 + 400.0 * (k % 40), 100.0 + 400.0 * (k // 40)

    def add(self, label, nodes, bonds, at=None, label_at=None):
        """nodes: list of (attrs, (x, y) in bond lengths, inner xml); bonds: list of attrs (B/E are node ids)"""
        cx, cy = at if at is not None else self.cell()
        xs, ys = [], []
        body = []
        for attrs, (x, y), inner in nodes:
            px, py = cx + x * self.bl, cy + y * self.bl
            xs.append(px)
            ys.append(py)
            a = " ".join(f'{k}="{v}"' for k, v in attrs.items() if v is not None)
            body.append(f'<n {a} p="{px!r} {py!r}">{inner}</n>')
        for attrs in bonds:
            self.nid += 1
            a = " ".join(f'{k}="{v}"' for k, v in attrs.items() if v is not None)
            body.append(f'<b id="{self.nid}" {a}/>')
        self.nid += 1
        bb = f"{min(xs)!r} {min(ys)!r} {max(xs)!r} {max(ys)!r}"
        self.parts.append(f'<fragment id="{self.nid}" BoundingBox="{bb}">' + "".join(body) + "</fragment>")
        if label is not None:
            lx, ly = label_at if label_at is not None else ((min(xs) + max(xs)) / 2, max(ys) + 25.0)
            self.nid += 1
            self.parts.append(f'<t id="{self.nid}" p="{lx!r} {ly!r}"><s face="1">{label}</s></t>')

    def text(self):
        return (f'<?xml version="1.0" encoding="UTF-8" ?><CDXML BondLength="{self.bl!r}"><page id="1">'
                + "".join(self.parts) + "</page></CDXML>")

    def write(self, path):
        with open(path, "w") as f:
            f.write(self.text())
        return path


def parse_key(ml, f, key):
    """('ok', observation) | ('raise', exception class name)"""
    try:
        with warnings.catch_warnings():
            warnings.simplefilter("ignore")
            m = f[key]
    except SyntaxError as e:
        return ("raise", type(e.__cause__).__name__ if e.__cause__ is not None else "SyntaxError")
    except Exception as e:   # noqa  KeyError (no candidate fragment), IndexError, ... : the drawing was not parsed
        return ("raise", type(e).__name__)
    try:
        return ("ok", observe(ml, m))
    except Exception as e:   # noqa  a molecule that cannot even be inspected
        return ("raise", "observe:" + type(e).__name__)


# ---------------------------------------------------------------------- T: node table
NODE_TYPES = [(None, "NTAbsent"), ("Element", "NTOther"), ("ExternalConnectionPoint", "NTExt"), ("Fragment", "NTFragment"),
              ("Nickname", "NTNickname"), ("GenericNickname", "NTGeneric"), ("Unspecified", "NTUnspecified")]
DOM_ELEM = [None, 8, 119]
DOM_ISO = [None, 13]
DOM_CHARGE = [None, -1]
DOM_RAD = [(None, "RadAbsent"), ("Doublet", "RadDoublet"), ("Singlet", "RadSinglet"), ("Triplet", "RadOther")]
DOM_NUMH = [None, 0, 2]
DOM_ANUM = [None, "7"]
DOM_EXT = [None, "3"]
DOM_EXTRA = [(None, None), ("R", "Ar")]


def node_domain():
    for (nt, cnt), el, iso, q, (rad, crad), nh, an, ex, (gn, tx) in itertools.product(
            NODE_TYPES, DOM_ELEM, DOM_ISO, DOM_CHARGE, DOM_RAD, DOM_NUMH, DOM_ANUM, DOM_EXT, DOM_EXTRA):
        attrs = {"id": "1", "NodeType": nt, "Element": el, "Isotope": iso, "Charge": q, "Radical": rad, "NumHydrogens": nh,
                 "AtomNumber": an, "ExternalConnectionNum": ex, "GenericNickname": gn}
        inner = f"<t><s>{tx}</s></t>" if tx is not None else ""
        typed = dict(id="1", type=cnt, elem=el, iso=iso, charge=q, rad=crad, numh=nh, anum=an, extnum=ex, gnick=gn,
                     text=tx, attach=[])
        yield attrs, inner, typed


def gen_node_table(ctx, ml):
    doc = Doc()
    rows = []
    for k, (attrs, inner, typed) in enumerate(node_domain()):
        doc.add(f"K{k}", [(attrs, (0, 0), inner), ({"id": "2"}, (1, 0), "")], [{"B": "1", "E": "2"}])
        rows.append(typed)
    f = ml.CDXMLFile(doc.write(os.path.join(ctx.sub("tables"), "nodes.cdxml")))
    out = []
    for k, typed in enumerate(rows):
        r = parse_key(ml, f, f"K{k}")
        if r[0] == "ok":
            o = r[1]
            if len(o["atoms"]) != 2 or len(o["bonds"]) != 1:
                raise RuntimeError(f"node probe {k} parsed to {len(o['atoms'])} atoms")
            out.append((typed, f"(Ok {cq_atom(o['atoms'][0])})", o["atoms"][0]))
        else:
            out.append((typed, "Raise", None))
    return out


# ---------------------------------------------------------------------- T: bond table
DOM_ORDER = [None, "0", "1", "2", "3", "4", "5", "6", "7", "10", "11", "20", "21", "98", "99", "100", "101", "-1",
             "1.5", "0.5", "2.5", "dative"]
DOM_DISPLAY = [None] + DISPLAYS + ["Foo"]


def gen_bond_table(ctx, ml):
    doc = Doc()
    keys = []
    for k, (o, d) in enumerate(itertools.product(DOM_ORDER, DOM_DISPLAY)):
        doc.add(f"K{k}", [({"id": "1"}, (0, 0), ""), ({"id": "2"}, (1, 0), "")], [{"B": "1", "E": "2", "Order": o, "Display": d}])
        keys.append((o, d))
    f = ml.CDXMLFile(doc.write(os.path.join(ctx.sub("tables"), "bonds.cdxml")))
    out = []
    for k, (o, d) in enumerate(keys):
        r = parse_key(ml, f, f"K{k}")
        if r[0] == "ok":
            b = r[1]["bonds"]
            if len(b) != 1:
                raise RuntimeError(f"bond probe {k} parsed to {len(b)} bonds")
            out.append((o, d, f"(Ok ({b[0]['bt']}%N, {cq_Q(Fr(b[0]['order']))}))", b[0]))
        else:
            out.append((o, d, "Raise", None))
    return out


# ---------------------------------------------------------------------- T: display table
def sgn(x, eps=1e-9):
    return 0 if abs(x) < eps else (1 if x > 0 else -1)


def gen_display_table(ctx, ml):
    doc = Doc()
    for k, d in enumerate(DOM_DISPLAY):
        # ring probe: square B-E-C-D ;  star probe: B with neighbours E, C, D
        doc.add(f"R{k}", [({"id": "1"}, (0, 0), ""), ({"id": "2"}, (1, 0), ""), ({"id": "3"}, (1, 1), ""), ({"id": "4"}, (0, 1), "")],
                [{"B": "1", "E": "2", "Display": d}, {"B": "2", "E": "3"}, {"B": "3", "E": "4"}, {"B": "4", "E": "1"}])
        doc.add(f"S{k}", [({"id": "1"}, (0, 0), ""), ({"id": "2"}, (1, 0), ""), ({"id": "3"}, (-0.5, 0.866), ""), ({"id": "4"}, (-0.5, -0.866), "")],
                [{"B": "1", "E": "2", "Display": d}, {"B": "1", "E": "3"}, {"B": "1", "E": "4"}])
    f = ml.CDXMLFile(doc.write(os.path.join(ctx.sub("tables"), "displays.cdxml")))
    out = []
    for k, d in enumerate(DOM_DISPLAY):
        r, s = parse_key(ml, f, f"R{k}"), parse_key(ml, f, f"S{k}")
        if r[0] != "ok" or s[0] != "ok":
            raise RuntimeError(f"display probe {d!r} did not parse")
        zr, zs = r[1]["coords"][:, 2], s[1]["coords"][:, 2]
        if sgn(zr[2]) != 0 or sgn(zr[3]) != 0:
            raise RuntimeError(f"display probe {d!r}: unmarked ring atoms left the plane")
        cmp_ = "Eq" if abs(abs(zr[0]) - abs(zr[1])) < 1e-9 else ("Lt" if abs(zr[0]) < abs(zr[1]) else "Gt")
        moved = [sgn(z) != 0 for z in zs]
        signs = {sgn(z) for z in zs if sgn(z) != 0}
        if len(signs) > 1 or moved[2] != moved[3]:
            raise RuntimeError(f"display probe {d!r}: star atoms moved inconsistently {zs.tolist()}")
        common = signs.pop() if signs else 0
        b = lambda x: "true" if x else "false"
        out.append((d, f"({typed_display(d)}, ({cq_Z(sgn(zr[0]))}, {cq_Z(sgn(zr[1]))}, {cmp_}), ({b(moved[0])}, {b(moved[1])}, {b(moved[2])}, {cq_Z(common)}))",
                    (sgn(zr[0]), sgn(zr[1]), cmp_, moved[0], moved[1], moved[2], common)))
    return out


def py_ring_star(d):
    """Python mirror of ring_pattern / star_pattern (display_action d) -- used only to name mismatching rows."""
    a = ACTION.get(d)
    if a is None:
        return (0, 0, "Eq", False, False, False, 0)
    sw, s = a
    g = 1 if s > 0 else -1
    if abs(s) == 1:
        return (g, g, "Gt" if sw else "Lt") + ((True, False, True, g) if sw else (False, True, False, g))
    return (g, g, "Eq", True, True, True, g)


def write_tables(ctx, ml):
    nodes = gen_node_table(ctx, ml)
    bonds = gen_bond_table(ctx, ml)
    disps = gen_display_table(ctx, ml)
    chunks = [nodes[i:i + 1000] for i in range(0, len(nodes), 1000)]
    txt = ["(* REGENERATED on every run by harness/c13.py: the decisions of the running CDXML parser, observed through",
           "   CDXMLFile[key] on generated one-probe-per-row drawings -- do not edit. *)",
           "From Coq Require Import List ZArith NArith QArith String.", "Import ListNotations.",
           "From Molli Require Import Model.Cdx.", "Local Open Scope string_scope.", ""]
    for i, ch in enumerate(chunks):
        txt.append(f"Definition node_table_{i} : list node_row := [\n  "
                   + ";\n  ".join(f"({cq_node(t)}, {o})" for t, o, _ in ch) + "\n].")
    txt.append("Definition node_tables : list (list node_row) := " + cq_list(f"node_table_{i}" for i in range(len(chunks))) + ".")
    txt.append("Definition bond_table : list bond_row := [\n  "
               + ";\n  ".join(f"({cq_order(typed_order(o))}, {typed_display(d)}, {obs})" for o, d, obs, _ in bonds) + "\n].")
    txt.append("Definition display_table : list display_row := [\n  " + ";\n  ".join(t for _, t, _ in disps) + "\n].")
    vlib.write_if_changed(os.path.join(vlib.COQ, "Gen", "CdxTables.v"), "\n".join(txt) + "\n")
    return nodes, bonds, disps


# ---------------------------------------------------------------------- python mirrors of the model (search only)
def py_parse_node(t):
    q = t["charge"] or 0
    sp = {"RadDoublet": 1, "RadSinglet": 2}.get(t["rad"], 0)
    sp_atom = lambda lbl: dict(Z=0, iso=t["iso"], label=lbl, atype="ATAttachment", q=q, spin=sp, nh=t["numh"])
    ty = t["type"]
    if ty == "NTExt":
        return sp_atom(t["anum"] if t["anum"] is not None else "AP" + (t["extnum"] if t["extnum"] is not None else "0"))
    if ty in ("NTFragment", "NTNickname"):
        return sp_atom(t["id"])
    if ty == "NTGeneric":
        return sp_atom(t["gnick"])
    if ty == "NTUnspecified":
        return sp_atom(t["text"]) if t["text"] is not None else None
    z = 6 if t["elem"] is None else t["elem"]
    if not 0 <= z <= 118:
        return None
    return dict(Z=z, iso=t["iso"], label=t["anum"], atype="ATRegular", q=q, spin=sp, nh=t["numh"])


BT_VALUES = [0, 1, 2, 3, 4, 5, 6, 10, 11, 20, 21, 98, 99, 100, 101]


def py_bond_type(o, d):
    to = typed_order(o)
    if to[0] == "OBad":
        return None
    if to[0] == "OInt" and to[1] not in BT_VALUES:
        return None
    if d == "Dash":
        return 98
    return {"OAbsent": 1, "OOneHalf": 20}.get(to[0], to[1] if len(to) > 1 else None)


# ====================================================================== the run
def load_file(ml, path):
    with warnings.catch_warnings():
        warnings.simplefilter("ignore")
        return ml.CDXMLFile(path)


def match_fragment(exp_list, obs):
    """index of the top-level fragment whose drawing the observation reproduces (constitution), unique or None"""
    hits = [i for i, (ea, eb) in enumerate(exp_list) if not constitution_diffs(ea, eb, obs)]
    return hits


class FileRun:
    """One CDXML file (bundled or variant) parsed through the public API, with own-walk expectations."""

    def __init__(self, ml, path, tag):
        self.ml, self.path, self.tag = ml, path, tag
        self.root = ET.parse(path).getroot()
        self.bl = float(self.root.get("BondLength"))
        self.frags = top_fragments(self.root)
        self.labels = labels_of(self.root)
        self.exp = []
        for fr in self.frags:
            try:
                self.exp.append(expect(fr))
            except Untypable:
                self.exp.append(None)
        try:
            self.f = load_file(ml, path)
        except Exception:   # noqa  the reader refuses the whole file
            self.f = None

    def parse_all(self):
        """[(status, observation)] for every top-level fragment, in order, through molli.load_all"""
        ml = self.ml
        out = []
        try:
            with warnings.catch_warnings():
                warnings.simplefilter("ignore")
                mols = ml.load_all(self.path, fmt="cdxml")
            out = [("ok", observe(ml, m)) for m in mols]
        except Exception:   # noqa
            # at least one fragment is refused: fall back to the per-label route
            out = None
        return out


def frag_class(marks, exp_atoms, exp_bonds):
    adj = adjacency(len(exp_atoms), exp_bonds)
    ring_touch = set()
    for (iB, iE, disp) in marks:
        sw, sign = ACTION[disp]
        a1, a2 = (iE, iB) if sw else (iB, iE)
        if abs(sign) == 1 and in_ring(adj, a1, a2):
            ring_touch |= {a1, a2} | set(adj[a1]) | set(adj[a2])
    return adj, ring_touch


def run(ctx, rep):
    import molli as ml
    np = np_()
    rng = ctx.rng
    rep.rule = ("every top-level fragment of the 7 bundled CDXML files and of generated variants (mirror, translate, permute, "
                "renumber and combinations), plus synthetic drawings (one stereo bond on random trees / rings, label pages); "
                "a case is non-trivial when the fragment has at least one bond and parses; distinct by (file, variant, fragment "
                "index); T tables: the whole attribute product (8064 node rows, 374 bond rows, 17 x 2 display probes)")
    rep.trusted += ["T-emitter harness/c13.py (probe drawings through CDXMLFile[key]); typed view of a drawing = own ElementTree walk",
                    "xml.etree, numpy (SVD in mean_plane), scipy KDTree: modelled / differential only",
                    "CPython 3.12 executing molli/ftypes/cdxml.py"]
    rep.assumptions += ["attribute VALUES only flow through int(); control flow depends on presence/absence and on the enumerated "
                        "strings, so one or two representatives per attribute cover the node/bond decision tables",
                        "PARTIAL: XML parsing, KD-tree label resolution (modelled as 5 nearest in L1, ties excluded), mean_plane/SVD "
                        "(normal = +ez on coplanar neighbours is checked differentially) and accumulated out-of-plane displacements "
                        "are covered by the differential run and the oracle only"]
    known = set()

    def found_real():
        return any(not v.no_input for v in rep.violations)

    # ---------------------------------------------------------------- tie T
    try:
        nodes_t, bonds_t, disps_t = write_tables(ctx, ml)
        tables_ok = True
    except Exception as e:   # noqa  fail closed: a probe that cannot be decoded is a broken obligation
        tables_ok = False
        table_err = f"{type(e).__name__}: {e}"
    ok, out, where = (False, "", "Gen/CdxTables.v") if not tables_ok else vlib.build_props(ctx, rep, "C13")
    if tables_ok:
        rep.exhaustive = True
        for t, o, _ in nodes_t:
            rep.case(key=("node", json.dumps(t, sort_keys=True)))
        for o, d, obs, _ in bonds_t:
            rep.case(key=("bond", o, d))
        for d, _, _ in disps_t:
            rep.case(key=("display", d))
        rep.count("table:node-rows", len(nodes_t))
        rep.count("table:bond-rows", len(bonds_t))
        rep.count("table:display-rows", len(disps_t))

    # ---------------------------------------------------------------- tie H + oracle
    work = ctx.sub("variants")
    kinds = ["orig", "mirror", "translate", "permute", "renumber", "mirror+renumber+permute", "translate+permute+renumber"]
    if ctx.thorough:
        kinds += ["mirror+translate", "permute+renumber", "mirror+translate+permute+renumber"] * 3
    ccases, cmeta, gcases, gmeta, rcases, rmeta = [], [], [], [], [], []
    SESS["cases"], SESS["meta"] = [], []

    def viol(sig, text, replay):
        rep.violate(sig, text, replay)

    sources = [(nm, str(getattr(ml.files, nm + "_cdxml", os.path.join(vlib.REPO, "molli", "files", nm + ".cdxml")))) for nm in BUNDLED]
    synth = synth_documents(ctx, rng)
    sources += synth
    for nm, src in sources:
        src_root = ET.parse(src).getroot()
        base = None
        for vi, kind in enumerate(kinds):
            if nm.startswith("synth") and kind not in ("orig", "mirror", "mirror+renumber+permute"):
                continue
            path = os.path.join(work, f"{nm}.{vi}.cdxml")
            if kind == "orig":
                path = src
            else:
                root = variant_tree(src_root, kind, rng)
                with open(path, "w") as fh:
                    fh.write(indent_free(root))
            fr = FileRun(ml, path, f"{nm}:{kind}")
            res = judge_file(ctx, rep, ml, fr, nm, kind, src, base, viol, ccases, cmeta, gcases, gmeta, rcases, rmeta)
            if kind == "orig":
                base = res

    import time
    t0 = time.time()
    rep.extra["phase_s"] = {"drive+oracle": round(t0 - ctx.t0, 1)}
    bad_c = vlib.run_shards(ctx, rep, "const", HEADER, "check_const", ccases, shard=60) if ccases else []
    rep.extra["phase_s"]["shards_const"] = round(time.time() - t0, 1); t0 = time.time()
    bad_g = vlib.run_shards(ctx, rep, "geom", HEADER, "check_geom", gcases, shard=12) if gcases else []
    rep.extra["phase_s"]["shards_geom"] = round(time.time() - t0, 1); t0 = time.time()
    bad_r = vlib.run_shards(ctx, rep, "resolve", HEADER, "check_resolve", rcases, shard=10) if rcases else []
    rep.extra["phase_s"]["shards_resolve"] = round(time.time() - t0, 1); t0 = time.time()
    bad_s = vlib.run_shards(ctx, rep, "session", HEADER, "check_session", SESS["cases"], shard=8, case_type="scase") if SESS["cases"] else []
    rep.extra["phase_s"]["shards_session"] = round(time.time() - t0, 1); t0 = time.time()
    coverage_flags(ctx, rep, gcases, gmeta)
    rep.extra["phase_s"]["geom_coverage"] = round(time.time() - t0, 1)
    rep.extra["case_counts"] = {"const": len(ccases), "geom": len(gcases), "resolve": len(rcases), "session": len(SESS["cases"])}

    # ---------------------------------------------------------------- verdict on broken obligations
    if not tables_ok:
        vlib.broken_obligation(rep, "C13_tables", "the decision tables could not be regenerated: " + table_err, found_real())
    elif not ok:
        # search: name the rows where the running parser and the model / the property disagree
        for t, o, atom in nodes_t:
            want = py_parse_node(t)
            got = atom
            if (want is None) != (got is None) or (want is not None and any(want[k] != got[k] for k in want)):
                rep.violate(f"C13:node-decision:{t['type']}", f"probe node {t}: the parser made {got}, the drawing says {want}",
                            {"kind": "node-row", "typed": t})
                break
        for o, d, obs, b in bonds_t:
            want = py_bond_type(o, d)
            got = None if b is None else b["bt"]
            if want != got:
                rep.violate(f"C13:bond-decision:order={o}:display={d}", f"probe bond Order={o!r} Display={d!r}: parsed bond type {got}, "
                            f"the drawing says {want}", {"kind": "bond-row", "order": o, "display": d})
                break
        for d, _, pat in disps_t:
            if tuple(pat) != py_ring_star(d):
                rep.violate(f"C13:display-decision:{d}", f"probe bond Display={d!r}: observed out-of-plane pattern {pat}, the drawing "
                            f"convention gives {py_ring_star(d)}", {"kind": "display-row", "display": d})
        vlib.broken_obligation(rep, "C13_props", f"{where}\n{out[-1500:]}", found_real())
    for tag, bad, meta in (("const", bad_c, cmeta), ("geom", bad_g, gmeta), ("resolve", bad_r, rmeta), ("session", bad_s, SESS["meta"])):
        if bad is None:
            vlib.broken_obligation(rep, f"corr_{tag}", "a correspondence shard did not compile: " + json.dumps(rep.extra.get("shard_errors", ""))[-1500:], found_real())
        elif bad:
            rep.extra[f"mismatching_{tag}_cases"] = [meta[i] for i in bad[:20]]
            vlib.broken_obligation(rep, f"corr_{tag}", f"model and parser disagree on {len(bad)} case(s), e.g. {[meta[i] for i in bad[:5]]}", found_real())
    return tuple(known)


def coverage_flags(ctx, rep, gcases, gmeta):
    """How many geometry cases the model really covers (g_covered), evaluated by Coq: evidence only."""
    if not gcases:
        return
    if not ctx.thorough:
        gcases = gcases[::4]          # quick tier: every fourth case (evidence only)
    d = ctx.sub("shards_geomcov")
    files = []
    for k in range(0, len(gcases), 12):
        p = os.path.join(d, f"cov_{k // 12}.v")
        with open(p, "w") as f:
            f.write(HEADER + "Definition cases := [\n" + ";\n".join(gcases[k:k + 12]) + "\n].\n"
                    "Eval vm_compute in (map g_covered cases).\n")
        files.append(p)
    res = vlib.coqc_many(files, 600)
    cov = tot = 0
    for p in files:
        rc, out = res[p]
        if rc == 0:
            cov += out.count("true")
            tot += out.count("true") + out.count("false")
    rep.count("geom:model-covered", cov)
    rep.count("geom:outside-model", tot - cov)


def judge_file(ctx, rep, ml, fr, nm, kind, src, base, viol, ccases, cmeta, gcases, gmeta, rcases, rmeta):
    """Parse every fragment / label of one file; oracle + Coq cases.  Returns per-fragment data for later variants."""
    np = np_()
    per_frag = []
    replay = {"kind": "file", "source": nm, "variant": kind, "seed": ctx.seed}
    if fr.f is None:
        viol(f"C13:parse:raises:{kind.split('+')[0]}", f"{fr.tag}: CDXMLFile refused the file", replay)
        return None
    mols = fr.parse_all()
    if mols is None:
        mols = []
        for fg in fr.frags:
            mols.append(("raise", None))
    if len(mols) != len(fr.frags):
        viol(f"C13:fragments:count:{kind.split('+')[0]}", f"{fr.tag}: {len(fr.frags)} fragments drawn, {len(mols)} molecules returned", replay)
        return None
    # which original fragment each fragment of a permuted file is: match by (renumbering-invariant) drawing content
    for k, (frag, (st, obs)) in enumerate(zip(fr.frags, mols)):
        exp = fr.exp[k]
        rec = dict(obs=obs if st == "ok" else None, exp=exp, frag=frag)
        per_frag.append(rec)
        rp = dict(replay, fragment=k)
        if st != "ok":
            rep.case(key=None)
            rep.count("parse:refused")
            viol(f"C13:parse:raises:{kind.split('+')[0]}", f"{fr.tag} fragment {k}: the parser refused the drawing", rp)
            continue
        rep.case(key=(nm, kind, k), sample={"file": nm, "variant": kind, "fragment": k, "atoms": len(obs["atoms"]), "bonds": len(obs["bonds"])})
        rep.count("variant:" + kind)
        if exp is None:
            rep.count("oracle:untypable")
            continue
        ea, eb, marks, nested = exp
        rep.count("frag:nested" if nested else "frag:flat")
        if any(a["cc"] for a in ea):
            rep.count("frag:hapto")
        for what, text in constitution_diffs(ea, eb, obs):
            viol(f"C13:constitution:{what}", f"{fr.tag} fragment {k}: {text}", rp)
        # Coq: constitution
        try:
            t = typed_frag(frag)
            ccases.append(f"({cq_xfrag(t)}, Ok {cq_mol(obs)})")
            cmeta.append(f"{fr.tag}#{k}")
        except Untypable:
            rep.count("model:untypable")
        # absolute handedness of a simple centre (convention: page y points down, a wedge comes towards the viewer =
        # +z; with b, d two unmarked in-plane neighbours, triple(a - c, b - c, d - c) = z_a * ((b - c) x (d - c))_z)
        if len(marks) == 1 and not nested and not any(a["cc"] for a in ea) and abs(ACTION[marks[0][2]][1]) == 1:
            adj0 = adjacency(len(ea), eb)
            sw, sign = ACTION[marks[0][2]]
            c_, a_ = (marks[0][1], marks[0][0]) if sw else (marks[0][0], marks[0][1])
            if in_ring(adj0, c_, a_) is False:
                P0 = planar_start(frag, fr.bl)
                Y = obs["coords"]
                for b_, d_ in itertools.combinations([x for x in sorted(set(adj0[c_])) if x != a_], 2):
                    cr = float(np.cross(P0[b_] - P0[c_], P0[d_] - P0[c_])[2])
                    if abs(cr) < 0.2:
                        continue
                    vol = float(np.dot(Y[a_] - Y[c_], np.cross(Y[b_] - Y[c_], Y[d_] - Y[c_])))
                    rep.count("absolute-handedness-triples")
                    if not vol * sign * cr > 0:
                        viol("C13:handedness:absolute", f"{fr.tag} fragment {k}: bond {c_}->{a_} is drawn {marks[0][2]} but the centre {c_} "
                             f"with neighbours ({a_}, {b_}, {d_}) has signed volume {vol:.4f} (the drawing gives the sign of {sign * cr:.3f})",
                             dict(rp, centre=c_, triple=[a_, b_, d_]))
        # Coq: geometry (flat fragments without hapto centres that carry stereo marks)
        if marks and not nested and not any(a["cc"] for a in ea):
            steps, tags = geom_steps(ea, eb, marks)
            for tg in tags:
                rep.count("stereo-step:" + tg)
            if steps is not None:
                X0 = planar_start(frag, fr.bl)
                gcases.append(f"(GCase {rowsq(X0)} {cq_list(steps)} {rowsq(obs['coords'])})")
                gmeta.append(f"{fr.tag}#{k}")
        # determinism: the same fragment parsed again by a fresh reader
    # determinism of the whole file
    again = FileRun(ml, fr.path, fr.tag).parse_all()
    if again is not None and mols and all(s == "ok" for s, _ in mols):
        for k, ((_, o1), (_, o2)) in enumerate(zip(mols, again)):
            same = (o1["atoms"] == o2["atoms"] and o1["bonds"] == o2["bonds"] and o1["charge"] == o2["charge"]
                    and o1["mult"] == o2["mult"] and np.array_equal(o1["coords"], o2["coords"]))
            if not same:
                viol("C13:determinism:reparse-differs", f"{fr.tag} fragment {k}: two parses of the same file differ", dict(replay, fragment=k))
    # relation to the original file
    if base is not None and kind != "orig":
        relate(rep, fr, kind, base, per_frag, viol, replay)
    # labels
    judge_labels(ctx, rep, ml, fr, nm, kind, per_frag, viol, replay, rcases, rmeta)
    # sessions on one CDXMLFile object: lookups through every accessor, interleaved with edits of earlier results
    if kind in SESSION_KINDS:
        judge_sessions(ctx, rep, ml, fr, nm, kind, per_frag, viol)
    return per_frag


def frag_key(frag_elem):
    """renumbering- and translation-invariant fingerprint of a drawn fragment: used to pair fragments of a
    permuted / renumbered variant with the original ones"""
    ns = frag_elem.findall("./n")
    return (len(ns), len(frag_elem.findall("./b")), tuple(n.get("Element") for n in ns), tuple(n.get("NodeType") for n in ns),
            tuple((b.get("Order"), SWAP.get(b.get("Display"), b.get("Display")) if b.get("Display") in ("WedgedHashBegin", "WedgedHashEnd", "Hash") else b.get("Display")) for b in frag_elem.findall("./b")),
            tuple(round(position(n)[0] - position(ns[0])[0], 3) for n in ns), tuple(round(position(n)[1] - position(ns[0])[1], 3) for n in ns))


def relate(rep, fr, kind, base, per_frag, viol, replay):
    """handedness / constitution of a variant against the original file"""
    keys0 = [frag_key(r["frag"]) for r in base]
    pairing = []
    for k, r in enumerate(per_frag):
        fk = frag_key(r["frag"])
        hits = [i for i, x in enumerate(keys0) if x == fk]
        if "permute" not in kind:
            pairing.append(k if k < len(base) else None)
        else:
            pairing.append(hits[0] if len(hits) == 1 else None)
    mirrored = "mirror" in kind.split("+")
    for k, (r, i0) in enumerate(zip(per_frag, pairing)):
        if i0 is None or r["obs"] is None or base[i0]["obs"] is None or r["exp"] is None:
            continue
        o, o0 = r["obs"], base[i0]["obs"]
        rp = dict(replay, fragment=k, original_fragment=i0)
        strip = lambda ats: [{kk: v for kk, v in a.items() if kk != "label"} for a in ats]
        if strip(o["atoms"]) != strip(o0["atoms"]) or [(b["a1"], b["a2"], b["bt"]) for b in o["bonds"]] != [(b["a1"], b["a2"], b["bt"]) for b in o0["bonds"]] \
                or o["charge"] != o0["charge"] or o["mult"] != o0["mult"]:
            viol(f"C13:constitution:variant-differs:{kind.split('+')[0]}", f"{fr.tag} fragment {k}: constitution differs from the original drawing's", rp)
            continue
        ea, eb, marks, nested = r["exp"]
        adj, ring_touch = frag_class(base[i0]["exp"][2], ea, eb)
        v, v0 = volumes(o, adj), volumes(o0, adj)
        for c in v0:
            for (tr, x0), (_, x) in zip(v0[c], v.get(c, [])):
                if abs(x0) < PLANAR and abs(x) < PLANAR:
                    rep.count("centre-triples:planar")
                    continue
                rep.count("centre-triples:non-planar")
                if mirrored and not x0 * x < 0:
                    sig = KNOWN_RING if c in ring_touch else "C13:handedness:mirror-not-inverted:acyclic"
                    viol(sig, f"{fr.tag} fragment {k}: centre {c} with neighbours {tr} has signed volume {x0:.4f} in the original "
                         f"and {x:.4f} in the mirrored drawing (not inverted)", dict(rp, centre=c, triple=list(tr)))
                elif not mirrored and not x0 * x > 0:
                    viol(f"C13:handedness:variant-changed:{kind.split('+')[0]}", f"{fr.tag} fragment {k}: centre {c} {tr}: signed volume "
                         f"{x0:.4f} became {x:.4f} although only the page layout / numbering changed", dict(rp, centre=c, triple=list(tr)))


def judge_labels(ctx, rep, ml, fr, nm, kind, per_frag, viol, replay, rcases, rmeta):
    """a label resolves to one fragment, whatever was accessed before; Coq: which fragment"""
    np = np_()
    keys = list(fr.labels)
    if not keys:
        return
    f1 = fr.f
    f2 = load_file(ml, fr.path)
    order2 = list(reversed(keys))
    ctx.rng.shuffle(order2)
    first = {}
    exp_list = [(e[0], e[1]) if e is not None else None for e in fr.exp]
    fpos = [position(fg) for fg in fr.frags]
    obs_pairs = []
    for key in keys:
        r = parse_key(ml, f1, key) if key is not None else ("raise", "None")
        first[key] = r
    second = {}
    for key in order2:
        second[key] = parse_key(ml, f2, key)
        second[key] = parse_key(ml, f2, key)      # and once more through the cache
    for key in keys:
        a, b = first[key], second[key]
        rp = dict(replay, label=key)
        rep.case(key=(nm, kind, "label", key))
        rep.count("labels")
        if a[0] != b[0]:
            viol("C13:label:resolves-differently", f"{fr.tag} label {key!r}: {a[0]} on first access, {b[0]} after other labels", rp)
            continue
        if a[0] != "ok":
            rep.count("labels:unresolved")
            continue
        o1, o2 = a[1], b[1]
        if not (o1["atoms"] == o2["atoms"] and o1["bonds"] == o2["bonds"] and np.array_equal(o1["coords"], o2["coords"])):
            viol("C13:label:resolves-differently", f"{fr.tag} label {key!r}: a different molecule after accessing other labels first", rp)
            continue
        if o1["name"] != key:
            viol("C13:label:name", f"{fr.tag} label {key!r}: the molecule is named {o1['name']!r}", rp)
        # which fragment: identify by content (own walk), only when unique
        hits = [i for i, e in enumerate(exp_list) if e is not None and per_frag[i]["obs"] is not None
                and per_frag[i]["obs"]["atoms"] == o1["atoms"] and per_frag[i]["obs"]["bonds"] == o1["bonds"]
                and np.array_equal(per_frag[i]["obs"]["coords"], o1["coords"])]
        lp = position(fr.labels[key])
        d = sorted((abs(p[0] - lp[0]) + abs(p[1] - lp[1]), i) for i, p in enumerate(fpos))
        tie = any(abs(d[i][0] - d[i + 1][0]) < 1e-3 for i in range(min(5, len(d) - 1))) \
            or any(abs(fpos[i][1] - lp[1]) < 1e-3 for _, i in d[:5])
        if len(hits) == 1 and not tie and len(fpos) >= 5:
            obs_pairs.append((key, hits[0]))
        else:
            rep.count("labels:not-modelled(" + ("ambiguous" if len(hits) != 1 else "tie" if tie else "few-fragments") + ")")
    if obs_pairs:
        try:
            # positions on the 2^-16 grid, scaled to integers (order and the L1 ranking are scale-invariant; ties and
            # near-equal heights, where rounding could matter, were excluded above)
            qp = lambda p: f"({cq_Q(Fr(round(p[0] * 65536)))}, {cq_Q(Fr(round(p[1] * 65536)))})"
            term = ("(" + cq_list(qp(p) for p in fpos) + ", "
                    + cq_list(f"(mkLabel {cq_s(k)} {qp(position(fr.labels[k]))})" for k, _ in obs_pairs) + ", "
                    + cq_list(f"({cq_s(k)}, Some {cq_nat(i)})" for k, i in obs_pairs) + ")")
            rcases.append(term)
            rmeta.append(fr.tag)
        except Untypable:
            rep.count("labels:not-modelled(non-ascii)")


# ====================================================================== sessions on one CDXMLFile object
# The molecule a lookup hands out belongs to the caller: whatever the caller does to it, a later lookup (same label or
# another one, same accessor or another one, same CDXMLFile object or another one of the same file) must again describe
# the DRAWING, and a molecule handed out earlier must change only through the caller's own edits of it.
SESSION_KINDS = ("orig", "mirror")
SESS = {"cases": [], "meta": []}
EDITS = ["add_h", "translate", "turn", "scale", "coords_inplace", "del_ap", "del_atom", "add_atom", "rename", "charge_mult",
         "element", "atom_label", "atom_charge", "atom_spin", "atom_iso", "atom_attrib", "atom_type", "bond_type",
         "del_bond", "mol_attrib"]
SNAP_FIELDS = ("atoms", "bonds", "charge", "mult")


def snap(ml, m):
    """observation of a molecule in the caller's hands (observe + the attribute dictionaries)"""
    try:
        o = observe(ml, m)
        o["attribs"] = [dict(a.attrib) for a in m.atoms]
        o["mattrib"] = dict(getattr(m, "attrib", {}) or {})
        return o
    except Exception as e:   # noqa  an edit left it in a state that cannot be inspected: that state is its snapshot
        return {"unobservable": type(e).__name__}


def snap_diff(a, b, name=True, attribs=True):
    """None when equal at the granularity of the property, else a short text"""
    if ("unobservable" in a) or ("unobservable" in b):
        return None if a == b else f"{a.get('unobservable', 'observable')} / {b.get('unobservable', 'observable')}"
    if len(a["atoms"]) != len(b["atoms"]):
        return f"{len(a['atoms'])} atoms / {len(b['atoms'])} atoms"
    if len(a["bonds"]) != len(b["bonds"]):
        return f"{len(a['bonds'])} bonds / {len(b['bonds'])} bonds"
    for i, (x, y) in enumerate(zip(a["atoms"], b["atoms"])):
        if x != y:
            return f"atom {i}: {x} / {y}"
    for i, (x, y) in enumerate(zip(a["bonds"], b["bonds"])):
        if x != y:
            return f"bond {i}: {x} / {y}"
    if a["charge"] != b["charge"] or a["mult"] != b["mult"]:
        return f"charge, multiplicity {a['charge']}, {a['mult']} / {b['charge']}, {b['mult']}"
    # (NaN rows -- hydrogens placed on a degenerate drawing -- are the same rows when they are NaN on both sides)
    if a["coords"].shape != b["coords"].shape or not np_().array_equal(a["coords"], b["coords"], equal_nan=True):
        dv = float(np_().max(np_().abs(a["coords"] - b["coords"]))) if a["coords"].shape == b["coords"].shape else float("nan")
        return f"coordinates differ (max deviation {dv:.4f})"
    if name and a["name"] != b["name"]:
        return f"name {a['name']!r} / {b['name']!r}"
    if attribs and "attribs" in a and "attribs" in b and (a["attribs"] != b["attribs"] or a["mattrib"] != b["mattrib"]):
        return "attribute dictionaries differ"
    return None


def apply_edit(ml, m, what, arg):
    """the ordinary next steps of a caller, all IN PLACE on a molecule it was handed"""
    np = np_()
    n = m.n_atoms
    a = m.atoms[arg % n] if n else None
    if what == "add_h":
        m.add_implicit_hydrogens()
    elif what == "translate":
        m.translate([1.0 + arg % 3, 2.0, -3.0])
    elif what == "turn":
        m.coords = np.ascontiguousarray(m.coords[:, [1, 2, 0]]) * [1.0, -1.0, 1.0]
    elif what == "scale":
        m.scale(2.0)
    elif what == "coords_inplace":
        m.coords[:, 2] += 5.0
        m.coords[arg % n] = 0.25
    elif what == "del_ap":
        aps = m.attachment_points
        m.del_atom(aps[arg % len(aps)] if aps else m.atoms[-1])
    elif what == "del_atom":
        m.del_atom(a)
    elif what == "add_atom":
        m.add_atom(ml.Atom("Cl", label="new"), [9.0, 9.0, 9.0])
    elif what == "rename":
        m.name = "edited"
    elif what == "charge_mult":
        m.charge = m.charge + 3
        m.mult = m.mult + 2
    elif what == "element":
        a.element = "Si" if int(a.element) != 14 else "Ge"
    elif what == "atom_label":
        a.label = "ZZ"
    elif what == "atom_charge":
        a.formal_charge = (a.formal_charge or 0) + 2
    elif what == "atom_spin":
        a.formal_spin = (a.formal_spin or 0) + 1
    elif what == "atom_iso":
        a.isotope = 99
    elif what == "atom_attrib":
        a.attrib["__implicit_hydrogens"] = 7
        a.attrib["edited"] = 1
    elif what == "atom_type":
        a.atype = ml.AtomType.Dummy
    elif what == "bond_type":
        if m.n_bonds:
            m.bonds[arg % m.n_bonds].btype = ml.BondType.Triple
    elif what == "del_bond":
        if m.n_bonds:
            m.del_bond(m.bonds[arg % m.n_bonds])
    elif what == "mol_attrib":
        m.attrib["edited"] = True
    else:
        raise ValueError(what)


def gen_session(rng, keys, n_frags, length):
    """ops (plain JSON): lookups through every accessor on two CDXMLFile objects of the file and through the reader's
    entry points, interleaved with edits of results handed out earlier (addressed as [op index, sub index])"""
    ops, handles = [], []
    focus = rng.sample(keys, min(len(keys), rng.randint(1, 3))) if keys else []
    n = len(keys)
    while len(ops) < length:
        r = rng.random()
        j = len(ops)
        if handles and r < 0.42:
            h = rng.choice(handles[-4:]) if rng.random() < 0.7 else rng.choice(handles)
            ops.append(["edit", h, rng.choice(EDITS), rng.randrange(0, 64)])
            continue
        if r < 0.47 and keys:
            ops.append(["keys", rng.randrange(2)])
            continue
        k = rng.choice(focus) if (focus and rng.random() < 0.8) else (rng.choice(keys) if keys else None)
        acc = rng.choice(["get", "get", "get", "geti", "geti", "iter", "load", "load0", "load_all"] if keys else ["load0", "load_all"])
        o = 0 if rng.random() < 0.75 else 1
        if acc == "get":
            ops.append(["get", o, k]); handles.append([j, 0])
        elif acc == "geti":
            i = keys.index(k)
            ops.append(["geti", o, i - n if rng.random() < 0.3 else i]); handles.append([j, 0])
        elif acc == "iter":
            # the iteration protocol on an object with __getitem__ only: f[0], f[1], ... until IndexError
            m = -1 if (n <= 20 and rng.random() < 0.4) else min(n, max(keys.index(k) + 1, 1), 12)
            ops.append(["iter", o, m])
            cnt = n if m < 0 else m
            handles.append([j, keys.index(k) if keys.index(k) < cnt else 0])
        elif acc == "load":
            ops.append(["load", k]); handles.append([j, 0])
        elif acc == "load0":
            ops.append(["load0"]); handles.append([j, 0])
        else:
            ops.append(["load_all"]); handles.append([j, rng.randrange(n_frags)])
    return ops


class SessionEnv:
    """what a session is judged against: the labels of the file and the ONE-SHOT result of every lookup (a fresh
    CDXMLFile object per label, nothing done before) and of every top-level fragment (load_all)"""

    def __init__(self, ml, path, keys, per_frag):
        self.ml, self.path, self.keys = ml, path, keys
        self.ref = {}
        for k in keys:
            try:
                with warnings.catch_warnings():
                    warnings.simplefilter("ignore")
                    self.ref[k] = ("ok", snap(ml, load_file(ml, path)[k]))
            except Exception as e:   # noqa
                self.ref[k] = ("raise", type(e).__name__)
        self.frag_ref = [r["obs"] for r in per_frag]


def run_session(env, ops, events=None):
    """Drive the real reader through `ops`.  Returns None or (signature, text, index of the op that showed it).
    events: optional list receiving ('get', obj, key, status, snap) / ('parse', i, snap) / ('edit', h, snap) /
    ('look', h, snap) for the Coq case (h = allocation number of the molecule)."""
    ml, keys = env.ml, env.keys
    files = [load_file(ml, env.path), load_file(ml, env.path)]
    # the order in which an object lists its labels is its own business (f[int] and the iteration follow it); it must
    # list the labels of the file and must not change during the session
    order = [list(f.keys()) for f in files]
    held = {}          # (op, sub) -> [molecule, last snapshot, allocation number, history of own edits]
    alloc = [0]

    def hand_out(j, sub, m, want, accessor, name, what):
        s = snap(ml, m)
        d = snap_diff(want, s, name=name, attribs=("attribs" in want))
        if d is not None:
            done = [f"{o[2]} of the result of op {o[1][0]}" for o in ops[:j] if o[0] == "edit"]
            return (f"C13:session:result-differs:{accessor}",
                    f"op {j} {ops[j]}: {what} does not describe the drawing any more (one-shot parse / this lookup: {d}); "
                    f"edits made by the caller to EARLIER results: {done[-6:]}", j)
        held[(j, sub)] = [m, s, alloc[0], []]
        alloc[0] += 1
        return None

    def lookup(j, accessor, obj, key, fn):
        want = env.ref[key]
        try:
            with warnings.catch_warnings():
                warnings.simplefilter("ignore")
                m = fn()
        except Exception as e:   # noqa
            if events is not None:
                events.append(("get", obj, key, "raise", None))
            if want[0] == "ok":
                return (f"C13:session:raises:{accessor}", f"op {j} {ops[j]}: label {key!r} parses on its own but raised "
                        f"{type(e).__name__} in this session", j)
            return None
        if want[0] != "ok":
            return (f"C13:session:raises:{accessor}", f"op {j} {ops[j]}: label {key!r} is refused on its own ({want[1]}) "
                    f"but was parsed in this session", j)
        bad = hand_out(j, 0, m, want[1], accessor, True, f"the lookup of {key!r}")
        if events is not None:
            events.append(("get", obj, key, "ok", snap(ml, m)))
        return bad

    fresh = [2]
    for j, op in enumerate(ops):
        kind = op[0]
        bad = None
        if kind == "get":
            bad = lookup(j, "getitem-label", op[1], op[2], lambda: files[op[1]][op[2]])
        elif kind == "geti":
            if len(order[op[1]]) == len(keys) and order[op[1]][op[2]] in env.ref:
                bad = lookup(j, "getitem-int", op[1], order[op[1]][op[2]], lambda: files[op[1]][op[2]])
        elif kind == "iter":
            got = []
            try:
                with warnings.catch_warnings():
                    warnings.simplefilter("ignore")
                    for m in files[op[1]]:
                        got.append(m)
                        if op[2] >= 0 and len(got) >= op[2]:
                            break
            except Exception as e:   # noqa  a refused drawing stops the iteration: judged for the labels before it
                pass
            ikeys = order[op[1]]
            if op[2] < 0 and all(env.ref[k][0] == "ok" for k in keys) and len(got) != len(keys):
                bad = ("C13:session:iteration-length", f"op {j} {op}: iterating the file gave {len(got)} molecules for {len(keys)} labels", j)
            for i, m in enumerate(got):
                if bad is None and i < len(ikeys) and ikeys[i] in env.ref and env.ref[ikeys[i]][0] == "ok":
                    bad = hand_out(j, i, m, env.ref[ikeys[i]][1], "iteration", True, f"item {i} ({ikeys[i]!r}) of the iteration")
                    if events is not None:
                        events.append(("get", op[1], ikeys[i], "ok", snap(ml, m)))
        elif kind == "load":
            obj = fresh[0]
            fresh[0] += 1
            bad = lookup(j, "load-key", obj, op[1], lambda: ml.load(env.path, fmt="cdxml", key=op[1]))
        elif kind in ("load0", "load_all"):
            try:
                with warnings.catch_warnings():
                    warnings.simplefilter("ignore")
                    got = [ml.load(env.path, fmt="cdxml")] if kind == "load0" else ml.load_all(env.path, fmt="cdxml")
            except Exception as e:   # noqa
                got = None
                if all(r is not None for r in (env.frag_ref[:1] if kind == "load0" else env.frag_ref)):
                    bad = (f"C13:session:raises:{kind}", f"op {j} {op}: raised {type(e).__name__} in this session, parses on its own", j)
            if got is not None and kind == "load_all" and len(got) != len(env.frag_ref):
                bad = ("C13:session:iteration-length", f"op {j} {op}: {len(got)} molecules for {len(env.frag_ref)} drawn fragments", j)
            for i, m in enumerate(got or []):
                if bad is None and env.frag_ref[i] is not None:
                    bad = hand_out(j, i, m, env.frag_ref[i], kind.replace("_", "-"), False, f"fragment {i}")
                    if events is not None:
                        events.append(("parse", i, snap(ml, m)))
        elif kind == "keys":
            f = files[op[1]]
            now = list(f.keys())
            if now != order[op[1]] or len(f) != len(now) or {k for k in now if k is not None} != set(keys):
                bad = ("C13:session:keys-changed", f"op {j} {op}: keys() lists {list(f.keys())[:8]}... (len {len(f)}), the file has "
                       f"the labels {keys[:8]}... ({len(keys)})", j)
        elif kind == "edit":
            h = held.get(tuple(op[1]))
            if h is not None:
                try:
                    with warnings.catch_warnings():
                        warnings.simplefilter("ignore")
                        apply_edit(ml, h[0], op[2], op[3])
                except Exception:   # noqa  an edit the molecule refuses: whatever state it is in now is the caller's
                    pass
                h[1] = snap(ml, h[0])
                h[3].append(op[2])
                if events is not None:
                    events.append(("edit", h[2], h[1]))
        else:
            raise ValueError(op)
        if bad is not None:
            return bad
        # frame: a molecule handed out earlier changes only through the caller's own edits of it
        for hk, h in held.items():
            if kind == "edit" and tuple(op[1]) == hk:
                continue
            d = snap_diff(h[1], snap(ml, h[0]))
            if d is not None:
                return (f"C13:session:earlier-result-changed:{kind if kind != 'edit' else 'edit-of-another-result'}",
                        f"op {j} {op}: the molecule handed out by op {hk[0]} (item {hk[1]}; own edits so far {h[3]}) changed although "
                        f"the caller did not touch it (before / after: {d})", j)
    if events is not None:
        for hk, h in held.items():
            events.append(("look", h[2], snap(ml, h[0])))
    return None


def minimise_session(env, ops, sig):
    """greedy removal of ops that are not needed for the same signature (edits of a removed lookup become no-ops)"""
    ops = [list(o) for o in ops]
    i = len(ops) - 2
    budget = 60
    while i >= 0 and budget > 0:
        budget -= 1
        cand = [o for k, o in enumerate(ops) if k != i]
        # re-address the edits
        cand2 = []
        for o in cand:
            if o[0] == "edit":
                if o[1][0] == i:
                    continue
                o = ["edit", [o[1][0] - (1 if o[1][0] > i else 0), o[1][1]], o[2], o[3]]
            cand2.append(o)
        try:
            r = run_session(env, cand2)
        except Exception:   # noqa
            r = None
        if r is not None and r[0] == sig:
            ops = cand2[:r[2] + 1]
        i = min(i, len(ops) - 1) - 1
    return ops


def cq_snap(s):
    if "unobservable" in s:
        raise Untypable("unobservable molecule")
    return cq_mol(s)


def session_case(env, fr, per_frag, events):
    """Coq term of one session: (typed drawings, label -> drawing, events)"""
    np = np_()
    typed = []
    for fg in fr.frags:
        typed.append(cq_xfrag(typed_frag(fg)))
    keymap = []
    for k in env.keys:
        if env.ref[k][0] != "ok":
            continue
        o1 = env.ref[k][1]
        hits = [i for i, r in enumerate(per_frag) if r["obs"] is not None and snap_diff(r["obs"], o1, name=False, attribs=False) is None]
        if not hits:
            raise Untypable("label not identified")
        keymap.append(f"({cq_s(k)}, {cq_nat(hits[0])})")
    evs = []
    for e in events:
        if e[0] == "get":
            evs.append(f"(EGet {cq_nat(e[1])} {cq_s(e[2])} {'Raise' if e[3] != 'ok' else '(Ok ' + cq_snap(e[4]) + ')'})")
        elif e[0] == "parse":
            evs.append(f"(EParse {cq_nat(e[1])} (Ok {cq_snap(e[2])}))")
        elif e[0] == "edit":
            evs.append(f"(EEdit {cq_nat(e[1])} {cq_snap(e[2])})")
        else:
            evs.append(f"(ELook {cq_nat(e[1])} {cq_snap(e[2])})")
    return f"({cq_list(typed)}, {cq_list(keymap)}, {cq_list(evs)})"


def judge_sessions(ctx, rep, ml, fr, nm, kind, per_frag, viol):
    import random
    keys = [k for k in fr.labels if k is not None]
    if fr.f is None or not per_frag:
        return
    env = SessionEnv(ml, fr.path, keys, per_frag)
    n_sess = (6 if not ctx.thorough else 24) if not nm.startswith("synth") else (3 if not ctx.thorough else 8)
    n_coq = 2 if not ctx.thorough else 6
    for si in range(n_sess):
        rng = random.Random(f"{ctx.seed}:{nm}:{kind}:{si}")
        ops = gen_session(rng, keys, len(per_frag), rng.randint(6, 18))
        events = [] if si < n_coq else None
        r = run_session(env, ops, events)
        rep.case(key=(nm, kind, "session", si), sample={"file": nm, "variant": kind, "ops": ops[:6]})
        rep.count("sessions")
        for o in ops:
            rep.count("session-op:" + o[0] + (":" + o[2] if o[0] == "edit" else ""))
        # a lookup of a label after an edit of an earlier result of the SAME label: the dimension that matters
        seen_edit = set()
        for o in ops:
            if o[0] == "edit":
                tgt = ops[o[1][0]]
                seen_edit.add(tgt[2] if tgt[0] == "get" else keys[tgt[2]] if tgt[0] == "geti" else None)
            elif o[0] in ("get", "geti") and (o[2] if o[0] == "get" else keys[o[2]]) in seen_edit:
                rep.count("session:lookup-after-edit-of-same-label")
                break
        if r is not None:
            sig, text, at = r
            small = minimise_session(env, ops[:at + 1], sig)
            viol(sig, f"{fr.tag} session {si}: {text}", {"kind": "session", "source": nm, "variant": kind, "seed": ctx.seed,
                                                       "ops": small, "all_ops": ops[:at + 1]})
            break            # one report per file is enough
        if events:
            try:
                SESS["cases"].append(session_case(env, fr, per_frag, events))
                SESS["meta"].append(f"{fr.tag} session {si}")
            except Untypable:
                rep.count("session:not-modelled")


# ====================================================================== synthetic drawings
def synth_documents(ctx, rng):
    """Generated drawings: random trees / rings with ONE stereo bond each (every Display, both directions, centres of
    degree 1..4), charged / radical / isotope-labelled atoms, hapto centres, and pages of labels for resolution."""
    out = []
    d = ctx.sub("synth")
    n_docs = 2 if not ctx.thorough else 8
    for di in range(n_docs):
        doc = Doc(bl=rng.choice([10.8, 17.0, 30.0]))
        n_frag = 40 if not ctx.thorough else 80
        for k in range(n_frag):
            nodes, bonds = random_fragment(rng)
            doc.add(f"S{di}_{k}", nodes, bonds)
        p = doc.write(os.path.join(d, f"synth{di}.cdxml"))
        out.append((f"synth{di}", p))
    return out


def random_fragment(rng):
    """a planar drawing on the unit grid: a tree or a ring with substituents"""
    pts = [(0.0, 0.0)]
    edges = []
    if rng.random() < 0.4:
        m = rng.choice([3, 4, 5, 6])
        R = 0.5 / math.sin(math.pi / m)
        pts = [(round(R * math.cos(2 * math.pi * i / m), 4), round(R * math.sin(2 * math.pi * i / m), 4)) for i in range(m)]
        edges = [(i, (i + 1) % m) for i in range(m)]
    target = len(pts) + rng.randint(1, 7)
    tries = 0
    while len(pts) < target and tries < 200:
        tries += 1
        i = rng.randrange(len(pts))
        deg = sum(1 for e in edges if i in e)
        if deg >= 4:
            continue
        ang = rng.choice(range(0, 360, 30))
        q = (round(pts[i][0] + math.cos(math.radians(ang)), 4), round(pts[i][1] + math.sin(math.radians(ang)), 4))
        if any(abs(q[0] - p[0]) + abs(q[1] - p[1]) < 0.6 for p in pts):
            continue
        pts.append(q)
        edges.append((i, len(pts) - 1))
    nodes = []
    for i, p in enumerate(pts):
        a = {"id": str(i + 1)}
        r = rng.random()
        if r < 0.15:
            a["Element"] = rng.choice([7, 8, 9, 15, 16, 17, 35])
        if rng.random() < 0.08:
            a["Charge"] = rng.choice([-2, -1, 1, 2])
        if rng.random() < 0.06:
            a["Radical"] = rng.choice(["Doublet", "Singlet"])
        if rng.random() < 0.06:
            a["Isotope"] = rng.choice([2, 13, 14, 18])
        if rng.random() < 0.2:
            a["NumHydrogens"] = rng.choice([0, 1, 2, 3])
        deg = sum(1 for e in edges if i in e)
        if deg == 1 and rng.random() < 0.1:
            a["NodeType"] = "ExternalConnectionPoint"
            a["ExternalConnectionNum"] = str(rng.randint(1, 3))
        nodes.append((a, p, ""))
    bonds = []
    marked = rng.randrange(len(edges))
    for k, (i, j) in enumerate(edges):
        b = {"B": str(i + 1), "E": str(j + 1)}
        if rng.random() < 0.5:
            b["B"], b["E"] = b["E"], b["B"]
        if rng.random() < 0.15:
            b["Order"] = rng.choice(["2", "3", "1.5", "1"])
        if k == marked:
            b["Display"] = rng.choice(["WedgeBegin", "WedgedHashBegin", "WedgeEnd", "WedgedHashEnd", "Bold", "Hash", "Wavy", "Dash", "Solid"])
        bonds.append(b)
    return nodes, bonds


# ====================================================================== replay
def replay(ctx, data):
    import molli as ml
    out = []

    class R:
        def __init__(self):
            self.v = []

        def case(self, *a, **k): pass
        def count(self, *a, **k): pass

    if data.get("kind") == "file":
        import random
        rng = random.Random(data.get("seed", 0))
        nm, kind = data["source"], data["variant"]
        got = []
        viol = lambda sig, text, rp: got.append(vlib.Violation(sig, text, rp))
        if nm.startswith("synth"):
            return out           # synthetic drawings are regenerated from the seed by a full run
        src = os.path.join(vlib.REPO, "molli", "files", nm + ".cdxml")
        rep = R()
        base = judge_file(ctx, rep, ml, FileRun(ml, src, f"{nm}:orig"), nm, "orig", src, None, viol, [], [], [], [], [], [])
        if kind != "orig":
            # the recorded variants are deterministic for mirror (no randomness); others are re-drawn from the seed
            root = variant_tree(ET.parse(src).getroot(), kind, rng)
            p = os.path.join(ctx.sub("replay"), "variant.cdxml")
            with open(p, "w") as fh:
                fh.write(indent_free(root))
            judge_file(ctx, rep, ml, FileRun(ml, p, f"{nm}:{kind}"), nm, kind, src, base, viol, [], [], [], [], [], [])
        want = data.get("fragment")
        for v in got:
            if want is None or v.replay.get("fragment") == want:
                out.append(v)
    elif data.get("kind") == "session":
        import random
        nm, kind = data["source"], data["variant"]
        if nm.startswith("synth"):
            # the synthetic documents are the first thing drawn from the run's generator
            src = dict(synth_documents(ctx, random.Random(data.get("seed", 0) * 1000003 + 13)))[nm]
        else:
            src = os.path.join(vlib.REPO, "molli", "files", nm + ".cdxml")
        path = src
        if kind != "orig":
            path = os.path.join(ctx.sub("replay"), "variant.cdxml")
            with open(path, "w") as fh:
                fh.write(indent_free(variant_tree(ET.parse(src).getroot(), kind, random.Random(0))))
        fr = FileRun(ml, path, f"{nm}:{kind}")
        mols = fr.parse_all() or []
        per_frag = [dict(obs=o if st == "ok" else None) for st, o in mols]
        env = SessionEnv(ml, path, [k for k in fr.labels if k is not None], per_frag)
        r = run_session(env, data["ops"])
        if r is None and data.get("all_ops"):
            r = run_session(env, data["all_ops"])
        if r is not None:
            out.append(vlib.Violation(r[0], f"{fr.tag}: {r[1]}", data))
    elif data.get("kind") in ("node-row", "bond-row", "display-row"):
        nodes_t, bonds_t, disps_t = write_tables(ctx, ml)
        for t, o, atom in nodes_t:
            if data.get("kind") == "node-row" and t == data["typed"]:
                want = py_parse_node(t)
                if (want is None) != (atom is None) or (want is not None and any(want[k] != atom[k] for k in want)):
                    out.append(vlib.Violation("C13:node-decision", f"probe node {t}: parser {atom}, drawing {want}"))
        for o, d, obs, b in bonds_t:
            if data.get("kind") == "bond-row" and (o, d) == (data["order"], data["display"]):
                if py_bond_type(o, d) != (None if b is None else b["bt"]):
                    out.append(vlib.Violation("C13:bond-decision", f"Order={o!r} Display={d!r}: parsed {b}"))
        for d, _, pat in disps_t:
            if data.get("kind") == "display-row" and d == data["display"] and tuple(pat) != py_ring_star(d):
                out.append(vlib.Violation("C13:display-decision", f"Display={d!r}: pattern {pat}"))
    return out
