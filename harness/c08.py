"""C08 -- xyz round trip and unit handling.

Ties:
  T  Gen/XyzElements.v (Element[name], Element(z).symbol), Gen/Units.v (DistanceUnit members incl. aliases)
  S  Gen/ScaleExpr.v: fail-closed ast extraction, from yield_from_xyz and yield_from_mol2, of (a) the argument of the
     `scale(...)` call guarded by `DistanceUnit[source_units] != DistanceUnit.Angstrom` and (b) the body of the block
     loop in continuation form: every path to `yield`, with the conditions it depends on opaque (Model.XyzEdit.tail)
  H  writer: random geometries / ensembles -> dumps_xyz compared character by character with the model's
     text inside Coq; reader: the written text read back by loads_all_xyz compared with the model inside Coq;
     sessions: write / edit in place / write again on ONE object, every text compared with the model's own state
     evolution (Model.XyzEdit.run_session) inside Coq.
     views: Substructures over a Molecule / Structure / Conformer whose atoms were selected in any order (permuted, repeated,
     breadth-first, nested, ...), written, the parent edited directly and through the view, written again; every text compared
     with Model.XyzView.run_view inside Coq and judged against the selection -- in selection order -- of the parent's state
     kept by the harness; a quarter re-read with source_units=U.
Oracle: round trip (count, order, elements, coordinates to the written precision, frame by frame) of every write, judged
against the state the object has at the time of that write; and for every DistanceUnit member a geometry expressed in
that unit (physical constants, not the table) read with source_units=U through every class-level entry point of the
xyz and the mol2 reader x target class x charge-type header must come back in Angstrom, block by block.
"""
import ast, io, os, math, inspect, json, warnings
from fractions import Fraction
import vlib
from vlib import cq_str, cq_list, cq_Z, cq_nat, cq_Q
import c10

# units per Angstrom, from the definitions of the units (NOT from molli)
PHYS = {"A": 1.0, "Angstrom": 1.0, "Bohr": 1.8897259886, "au": 1.8897259886, "pm": 100.0, "nm": 0.1, "fm": 1.0e5}


# ------------------------------------------------------------------ tie T: units table
def gen_units_text(ml):
    from molli.chem.geometry import DistanceUnit
    rows = []
    for n, m in DistanceUnit.__members__.items():
        rows.append(f"  ({cq_str(n)}, {cq_Q(Fraction(float(m.value)))}, {'true' if m is DistanceUnit.Angstrom else 'false'})")
    return ("(* regenerated from molli.chem.geometry.DistanceUnit on every run (tie T): member name (aliases included),\n"
            "   value, member-is-DistanceUnit.Angstrom *)\n"
            "From Coq Require Import List ZArith QArith String.\nImport ListNotations.\nLocal Open Scope string_scope.\n"
            "Definition units : list (string * Q * bool) := [\n" + ";\n".join(rows) + "\n].\n")


# ------------------------------------------------------------------ tie S: scale expression and the paths to the yield
class Refuse(Exception):
    pass


MAX_CONDS = 8
_LOOPS = (ast.For, ast.While, ast.AsyncFor)
_COMPOUND = (ast.For, ast.While, ast.AsyncFor, ast.With, ast.AsyncWith, ast.Try, ast.FunctionDef, ast.AsyncFunctionDef,
             ast.ClassDef) + ((ast.Match,) if hasattr(ast, "Match") else ()) + ((ast.TryStar,) if hasattr(ast, "TryStar") else ())


def _is_raw_lookup(n):
    return (isinstance(n, ast.Subscript) and isinstance(n.value, ast.Name) and n.value.id == "DistanceUnit"
            and isinstance(n.slice, ast.Name) and n.slice.id == "source_units")


def _is_angstrom(n):
    return (isinstance(n, ast.Attribute) and isinstance(n.value, ast.Name) and n.value.id == "DistanceUnit"
            and n.attr in ("Angstrom", "A"))


def _bound_names(fn):
    """name -> list of binding nodes inside fn (assignments of every kind, loop / with / except / import targets)."""
    out = {}

    def add(t, node):
        if isinstance(t, ast.Name):
            out.setdefault(t.id, []).append(node)
        elif isinstance(t, (ast.Tuple, ast.List)):
            for e in t.elts:
                add(e, node)
        elif isinstance(t, ast.Starred):
            add(t.value, node)

    for n in ast.walk(fn):
        if isinstance(n, ast.Assign):
            for t in n.targets:
                add(t, n)
        elif isinstance(n, (ast.AugAssign, ast.AnnAssign, ast.NamedExpr)):
            add(n.target, n)
        elif isinstance(n, (ast.For, ast.AsyncFor, ast.comprehension)):
            add(n.target, n)
        elif isinstance(n, (ast.With, ast.AsyncWith)):
            for it in n.items:
                if it.optional_vars is not None:
                    add(it.optional_vars, n)
        elif isinstance(n, ast.ExceptHandler) and n.name:
            out.setdefault(n.name, []).append(n)
        elif isinstance(n, (ast.Import, ast.ImportFrom)):
            for a in n.names:
                out.setdefault((a.asname or a.name).split(".")[0], []).append(n)
        elif isinstance(n, (ast.Global, ast.Nonlocal)):
            for nm in n.names:
                out.setdefault(nm, []).append(n)
        elif isinstance(n, (ast.FunctionDef, ast.AsyncFunctionDef, ast.ClassDef)) and n is not fn:
            out.setdefault(n.name, []).append(n)
    return out


class _Extractor:
    """Fail-closed reading of ONE reader generator (yield_from_xyz / yield_from_mol2):
       * the argument of its only `<obj>.scale(...)` call, over the grammar of Model.XyzText.sexpr;
       * whether that call sits under `DistanceUnit[source_units] != DistanceUnit.Angstrom`;
       * the body of the block loop in continuation form (Model.XyzEdit.tail): every path from the top of the loop
         body to a `yield <obj>`, with the conditions it depends on left opaque.
       A name bound once, before the loop, to `DistanceUnit[source_units]` is read as that lookup (hoisting the lookup
       is a harmless rewrite)."""

    def __init__(self, path, funcname):
        self.fname = funcname
        tree = ast.parse(open(path).read())
        fns = [n for n in ast.walk(tree) if isinstance(n, ast.FunctionDef) and n.name == funcname]
        if len(fns) != 1:
            raise Refuse(f"{funcname}: {len(fns)} definitions")
        self.fn = fn = fns[0]
        self.parent = {}
        for n in ast.walk(fn):
            for c in ast.iter_child_nodes(n):
                self.parent[c] = n
        binds = _bound_names(fn)
        for nm in ("source_units", "DistanceUnit"):
            if nm in binds:
                raise Refuse(f"{funcname}: {nm} rebound")
        # the block loop: the only loop that contains the yields
        if any(isinstance(n, (ast.YieldFrom, ast.Await)) for n in ast.walk(fn)):
            raise Refuse(f"{funcname}: yield from / await")
        yields = [n for n in ast.walk(fn) if isinstance(n, ast.Yield)]
        if not yields:
            raise Refuse(f"{funcname}: no yield")
        loops = [n for n in ast.walk(fn) if isinstance(n, _LOOPS) and any(y in set(ast.walk(n)) for y in yields)]
        outer = [l for l in loops if not any(l is not m and l in set(ast.walk(m)) for m in loops)]
        if len(outer) != 1 or not isinstance(outer[0], ast.For) or outer[0].orelse:
            raise Refuse(f"{funcname}: the yields are not inside exactly one for loop")
        self.loop = loop = outer[0]
        inloop = set(ast.walk(loop))
        if not all(y in inloop for y in yields):
            raise Refuse(f"{funcname}: a yield outside the block loop")
        # aliases of the unit lookup
        self.aliases = set()
        top_before = []
        for st in fn.body:
            if st is loop or loop in set(ast.walk(st)):
                break
            top_before.append(st)
        for nm, nodes in binds.items():
            if len(nodes) == 1 and isinstance(nodes[0], ast.Assign) and len(nodes[0].targets) == 1 \
                    and isinstance(nodes[0].targets[0], ast.Name) and _is_raw_lookup(nodes[0].value) \
                    and any(nodes[0] is st for st in top_before):
                self.aliases.add(nm)
        # the scale call
        calls = [n for n in ast.walk(fn) if isinstance(n, ast.Call) and isinstance(n.func, ast.Attribute) and n.func.attr == "scale"]
        if len(calls) != 1:
            raise Refuse(f"{funcname}: {len(calls)} scale(...) calls (exactly one expected)")
        self.call = call = calls[0]
        if call not in inloop:
            raise Refuse(f"{funcname}: the scale call is outside the block loop")
        if len(call.args) != 1 or call.keywords or not isinstance(call.func.value, ast.Name):
            raise Refuse(f"{funcname}: scale call shape")
        self.target = target = call.func.value.id
        for y in yields:
            if not (isinstance(y.value, ast.Name) and y.value.id == target):
                raise Refuse(f"{funcname}: the scaled object is not the yielded one")
            st = self.parent.get(y)
            if not (isinstance(st, ast.Expr) and st.value is y):
                raise Refuse(f"{funcname}: a yield that is not a statement")
        if not any(b in inloop for b in binds.get(target, [])):
            raise Refuse(f"{funcname}: {target} is not built inside the block loop")
        # the statement that scales: the call itself, or the unit guard holding just it
        est = self.parent.get(call)
        if not (isinstance(est, ast.Expr) and est.value is call):
            raise Refuse(f"{funcname}: the scale call is not a statement")
        self.scale_stmt, self.guarded = est, False
        par = self.parent.get(est)
        if isinstance(par, ast.If) and self.mentions_unit(par.test):
            t = par.test
            ok = (isinstance(t, ast.Compare) and len(t.ops) == 1 and isinstance(t.ops[0], (ast.NotEq, ast.IsNot))
                  and ((self.is_lookup(t.left) and _is_angstrom(t.comparators[0]))
                       or (_is_angstrom(t.left) and self.is_lookup(t.comparators[0]))))
            if not ok or par.orelse or len(par.body) != 1 or par.body[0] is not est:
                raise Refuse(f"{funcname}: guard of the scale call is not `DistanceUnit[source_units] != DistanceUnit.Angstrom`")
            self.scale_stmt, self.guarded = par, True
        self.conds = {}
        self.cond_text = []
        self.expr = self.sexpr(call.args[0])
        self.tail = self.conv(list(loop.body), False)

    # -- unit lookup and the scale argument
    def is_lookup(self, n):
        return _is_raw_lookup(n) or (isinstance(n, ast.Name) and n.id in self.aliases)

    def mentions_unit(self, n):
        return any(isinstance(c, ast.Name) and (c.id in ("source_units", "DistanceUnit") or c.id in self.aliases) for c in ast.walk(n))

    def sexpr(self, n):
        if isinstance(n, ast.Attribute) and n.attr == "value" and self.is_lookup(n.value):
            return "SVal"
        if isinstance(n, ast.Constant) and isinstance(n.value, (int, float)) and not isinstance(n.value, bool):
            return f"(SConst {cq_Q(Fraction(n.value))})"
        if isinstance(n, ast.UnaryOp) and isinstance(n.op, ast.USub) and isinstance(n.operand, ast.Constant) \
                and isinstance(n.operand.value, (int, float)) and not isinstance(n.operand.value, bool):
            return f"(SConst {cq_Q(-Fraction(n.operand.value))})"
        if isinstance(n, ast.BinOp) and isinstance(n.op, ast.Mult):
            return f"(SMul {self.sexpr(n.left)} {self.sexpr(n.right)})"
        if isinstance(n, ast.BinOp) and isinstance(n.op, ast.Div):
            return f"(SDiv {self.sexpr(n.left)} {self.sexpr(n.right)})"
        if isinstance(n, ast.BinOp) and isinstance(n.op, ast.Pow):
            r = n.right
            if (isinstance(r, ast.UnaryOp) and isinstance(r.op, ast.USub) and isinstance(r.operand, ast.Constant)
                    and r.operand.value == 1) or (isinstance(r, ast.Constant) and r.value == -1):
                return f"(SInv {self.sexpr(n.left)})"
        raise Refuse(f"{self.fname}: scale argument outside the grammar: " + ast.dump(n)[:200])

    # -- control flow of the loop body
    def _flow(self, node, own_loop=True):
        """Does `node` contain something that decides whether / in which state the object is yielded: a yield, the scale
        call, a return, or a continue/break that belongs to the block loop."""
        for c in ast.walk(node):
            if isinstance(c, (ast.Yield, ast.Return)) or c is self.call:
                return True
        if own_loop:
            stack = [node]
            while stack:
                c = stack.pop()
                if isinstance(c, (ast.Continue, ast.Break)):
                    return True
                for ch in ast.iter_child_nodes(c):
                    if not isinstance(ch, _LOOPS + (ast.FunctionDef, ast.AsyncFunctionDef, ast.ClassDef, ast.Lambda)):
                        stack.append(ch)
        return False

    def cond(self, ifnode):
        k = self.conds.get(id(ifnode))
        if k is None:
            if self.mentions_unit(ifnode.test):
                raise Refuse(f"{self.fname}: a second condition on the unit: {ast.unparse(ifnode.test)[:120]}")
            k = self.conds[id(ifnode)] = len(self.conds)
            self.cond_text.append(ast.unparse(ifnode.test))
            if k >= MAX_CONDS:
                raise Refuse(f"{self.fname}: more than {MAX_CONDS} conditions decide the path to the yield")
        return k

    def rebinds(self, node, scaled):
        """The yielded name may be bound several times while the object is being built, but not after it was scaled."""
        if scaled and self.target in _bound_names(node):
            raise Refuse(f"{self.fname}: {self.target} is bound again after the scale statement")

    def conv(self, stmts, scaled):
        if not stmts:
            return "TEnd"
        s, rest = stmts[0], stmts[1:]
        if s is self.scale_stmt:
            return f"(TScale {self.conv(rest, True)})"
        if isinstance(s, ast.Expr) and isinstance(s.value, ast.Yield):
            return f"(TYield {self.conv(rest, scaled)})"
        if isinstance(s, (ast.Continue, ast.Break, ast.Return, ast.Raise)):
            return "TStop"
        if isinstance(s, ast.If):
            if self._flow(s):
                self.rebinds(s.test, scaled)
                return f"(TIf {self.cond(s)} {self.conv(list(s.body) + rest, scaled)} {self.conv(list(s.orelse) + rest, scaled)})"
            self.rebinds(s, scaled)
            return self.conv(rest, scaled)
        self.rebinds(s, scaled)
        if isinstance(s, _COMPOUND):
            if self._flow(s, own_loop=not isinstance(s, _LOOPS + (ast.FunctionDef, ast.AsyncFunctionDef, ast.ClassDef))):
                raise Refuse(f"{self.fname}: yield / scale / loop exit inside a {type(s).__name__} statement")
            return self.conv(rest, scaled)
        if self._flow(s, own_loop=False):
            raise Refuse(f"{self.fname}: yield or scale call inside a {type(s).__name__} statement")
        return self.conv(rest, scaled)


def extract_scale(path, funcname):
    """Returns (coq sexpr, guarded: bool). Raises Refuse on anything outside the grammar."""
    x = _Extractor(path, funcname)
    return x.expr, x.guarded


def _cq_comment(t):
    return t.replace("(*", "( *").replace("*)", "* )")


def gen_scale_text():
    xx = _Extractor(os.path.join(vlib.REPO, "molli/chem/geometry.py"), "yield_from_xyz")
    xm = _Extractor(os.path.join(vlib.REPO, "molli/chem/structure.py"), "yield_from_mol2")
    out = ("(* regenerated by the fail-closed ast extractor of harness/c08.py on every run (tie S): the argument of the\n"
           "   scale(...) call in yield_from_xyz / yield_from_mol2, whether it sits under the != Angstrom guard, and the body\n"
           "   of the block loop in continuation form (every path to `yield`, conditions opaque) *)\n"
           "From Coq Require Import QArith.\nFrom Molli Require Import Model.XyzText Model.XyzEdit.\n")
    for tag, x in (("xyz", xx), ("mol2", xm)):
        out += (f"Definition {tag}_scale_expr : sexpr := {x.expr}.\n"
                f"Definition {tag}_scale_guarded : bool := {'true' if x.guarded else 'false'}.\n"
                f"Definition {tag}_tail : tail := {x.tail}.\n"
                f"Definition {tag}_tail_conds : nat := {len(x.cond_text)}%nat.\n")
        for k, t in enumerate(x.cond_text):
            out += f"(* {tag} condition {k}: {_cq_comment(t)} *)\n"
    return out


# ------------------------------------------------------------------ writer side: micro-units
def dec_of(x):
    """(neg, mag) with format(x, '.6f') == ('-' if neg else '') + str(mag // 10**6) + '.' + six digits; exact."""
    fr = Fraction(x) * 10**6
    mag = abs(fr)
    q, r = divmod(mag.numerator, mag.denominator)
    if 2 * r > mag.denominator or (2 * r == mag.denominator and q % 2 == 1):
        q += 1
    return (math.copysign(1.0, x) < 0, q)


def dec_term(x):
    neg, mag = dec_of(x)
    return f"({'true' if neg else 'false'}, {mag}%N)"


def wgeom_term(m):
    atoms = cq_list(f"(mk_watom {cq_Z(int(a.element.z))} {dec_term(float(c[0]))} {dec_term(float(c[1]))} {dec_term(float(c[2]))})"
                    for a, c in zip(m.atoms, m.coords))
    name = f"{m.name}" if hasattr(m, "name") else f"{type(m)}"
    return f"(mk_wgeom (s2l {cq_str(name)}) {atoms})"


def rand_ensemble(ml, rng):
    from molli.chem import ConformerEnsemble
    m = c10.rand_molecule(ml, rng, n=rng.randint(1, 4), name=rng.choice(c10.NAMES))
    k = rng.randint(1, 4)
    e = ConformerEnsemble(m, n_conformers=k)
    import numpy as np
    e.coords = np.array([[[c10.rand_coord(rng) for _ in range(3)] for _ in range(m.n_atoms)] for _ in range(k)])
    return e


# ------------------------------------------------------------------ oracle
def judge_roundtrip(tag, orig, back):
    """orig: list of (elements, dummy flags, coords); back: outcome of loads_all_xyz."""
    if back[0] == "hang":
        return (f"C08:{tag}:no-termination", "reader did not return")
    if back[0] == "err":
        return (f"C08:{tag}:cannot-read-back:{back[1]}", f"text written by molli is rejected by its own reader: {back[1]}")
    ret = back[1]
    if len(ret) != len(orig):
        return (f"C08:{tag}:frame-count", f"{len(orig)} frame(s) written, {len(ret)} read back")
    for k, ((el, du, co), s) in enumerate(zip(orig, ret)):
        if s["n_atoms"] != len(el) or s["elems"] != el:
            return (f"C08:{tag}:elements", f"frame {k}: elements written {el[:8]} read {s['elems'][:8]}")
        for i, (p, q) in enumerate(zip(co, s["coords"])):
            for a, b in zip(p, q):
                if not abs(a - b) <= 0.5000001e-6 + 1e-12 * abs(a):
                    return (f"C08:{tag}:coordinates", f"frame {k} atom {i}: written {a!r} read {b!r}")
        if any(d and not e for d, e in zip(du, s["dummy"])):
            return ("C08:xyz:dummy-atype-lost", f"frame {k}: a dummy atom is written as {'Unknown'!r}-style symbol and read back as a regular atom")
    return None


def multi_readers(ml, ctx, text):
    """Every way of reading all frames of one xyz text."""
    from molli.chem import Molecule, Structure, CartesianGeometry
    path = os.path.join(ctx.sub("multi"), "frames.xyz")
    open(path, "w").write(text)
    sig = lambda ms: [c10.mol_sig(m) for m in ms]
    return [
        ("Molecule.load_all_xyz", lambda: sig(Molecule.load_all_xyz(path))),
        ("Structure.loads_all_xyz", lambda: sig(Structure.loads_all_xyz(text))),
        ("CartesianGeometry.yield_from_xyz", lambda: sig(list(CartesianGeometry.yield_from_xyz(io.StringIO(text))))),
        ("Molecule.yield_from_xyz", lambda: sig(list(Molecule.yield_from_xyz(io.StringIO(text))))),
        ("ml.load_all", lambda: sig(ml.load_all(path, "xyz"))),
        ("ml.loads_all", lambda: sig(ml.loads_all(text, "xyz"))),
    ]


# ---- unit law: every reader entry point x target class x charge-type header x every DistanceUnit member
UNIT_SYMS = ["C", "N", "O"]
UNIT_REF = [[1.0, 0.0, 0.0], [0.0, -2.5, 0.25], [3.125, 4.0, -1.5]]
UNIT_SHIFT = [0.25, -0.5, 1.0]                         # second frame / block
CHARGE_HEADERS = ["USER_CHARGES", "NO_CHARGES", "GASTEIGER", "MMFF94_CHARGES"]


def unit_xyz_text(f):
    """Two frames of the reference geometry expressed in a unit with f units per Angstrom (written by the harness)."""
    out = ""
    for k in range(2):
        out += f"{len(UNIT_SYMS)}\nframe{k}\n"
        for s, c in zip(UNIT_SYMS, UNIT_REF):
            out += s + "".join(f" {(x + k * d) * f:.10f}" for x, d in zip(c, UNIT_SHIFT)) + "\n"
    return out


def unit_mol2_text(f, hdr):
    out = ""
    for k in range(2):
        out += f"@<TRIPOS>MOLECULE\nu\n{len(UNIT_SYMS)} 2 0 0 0\nSMALL\n{hdr}\n\n@<TRIPOS>ATOM\n"
        for i, (s, c) in enumerate(zip(UNIT_SYMS, UNIT_REF)):
            xyz = "".join(f" {(x + k * d) * f:>18.10f}" for x, d in zip(c, UNIT_SHIFT))
            out += f"{i + 1:>6} {s}{i + 1:<3}{xyz} {s + '.3':<6} 1 UNL1 {0.1 * (i - 1):.4f}\n"
        out += "@<TRIPOS>BOND\n     1      1      2   1\n     2      2      3   1\n"
    return out


_SUBCLASSES = {}


def unit_classes(fmt):
    """Target classes: the library's and user subclasses of them (the readers build `cls(...)`)."""
    from molli.chem import Molecule, Structure, CartesianGeometry
    if not _SUBCLASSES:
        _SUBCLASSES["MoleculeSubclass"] = type("MoleculeSubclass", (Molecule,), {})
        _SUBCLASSES["StructureSubclass"] = type("StructureSubclass", (Structure,), {})
    cl = {"Structure": Structure, "Molecule": Molecule, **_SUBCLASSES}
    if fmt == "xyz":
        cl = {"CartesianGeometry": CartesianGeometry, **cl}
    return cl


def unit_entry_points(fmt, cls_name):
    if cls_name == "ConformerEnsemble":
        return ["loads", "load:path", "load:stream"] + (["from_mol2"] if fmt == "mol2" else [])
    return ["loads", "load:path", "load:stream", "loads_all", "load_all:path", "load_all:stream", "yield_from:stream"] + \
        (["yield_from:str"] if fmt == "mol2" else [])


def unit_call(ml, ctx, fmt, cls_name, api, hdr, uname, named):
    """Runs one cell; returns the list of coordinate blocks the entry point handed out (one per frame it returns)."""
    from molli.chem import ConformerEnsemble
    f = PHYS[uname]
    text = unit_xyz_text(f) if fmt == "xyz" else unit_mol2_text(f, hdr)
    kw = {"source_units": uname}
    if named:
        kw["name"] = "given"
    if ":path" in api:
        src = os.path.join(ctx.sub("units"), f"u.{fmt}")
        open(src, "w").write(text)
    elif ":stream" in api:
        src = io.StringIO(text)
    else:
        src = text
    verb = api.split(":")[0]
    if cls_name == "ConformerEnsemble":
        fn = getattr(ConformerEnsemble, "from_mol2" if verb == "from_mol2" else f"{verb}_{fmt}")
        e = fn(src, **kw)
        return [e.coords[k] for k in range(e.n_conformers)]
    cls = unit_classes(fmt)[cls_name]
    if verb == "yield_from":
        fn = getattr(cls, f"yield_from_{fmt}")
        if fmt == "xyz":
            return [g.coords for g in fn(src, **kw)]
        return [g.coords for g in fn(src, kw.get("name"), uname)] if named else [g.coords for g in fn(src, source_units=uname)]
    r = getattr(cls, f"{verb}_{fmt}")(src, **kw)
    return [g.coords for g in r] if verb.endswith("_all") else [r.coords]


def unit_cells(ml):
    """(fmt, class, entry point, header or None, unit, name given) -- the whole product."""
    from molli.chem.geometry import DistanceUnit
    cells = []
    for uname in DistanceUnit.__members__:
        for fmt in ("xyz", "mol2"):
            for hdr in ([None] if fmt == "xyz" else CHARGE_HEADERS):
                for cls_name in list(unit_classes(fmt)) + ["ConformerEnsemble"]:
                    for j, api in enumerate(unit_entry_points(fmt, cls_name)):
                        cells.append((fmt, cls_name, api, hdr, uname, (j + len(cells)) % 3 == 0))
    return cells


def unit_judge_cell(ml, ctx, cell):
    """None, or (what, detail) when the cell breaks the unit law."""
    import numpy as np
    fmt, cls_name, api, hdr, uname, named = cell
    r = c10.run_limited(lambda: [np.array(c, dtype=float) for c in unit_call(ml, ctx, fmt, cls_name, api, hdr, uname, named)])
    if r[0] != "ok":
        return (r[0], f"failed: {r[1]}")
    got = r[1]
    want_frames = 1 if api.split(":")[0] in ("loads", "load") and cls_name != "ConformerEnsemble" else 2
    if len(got) != want_frames:
        return ("frames", f"{len(got)} geometries returned, {want_frames} expected")
    ref = np.array(UNIT_REF)
    for k, g in enumerate(got):
        exp = ref + k * np.array(UNIT_SHIFT)
        if g.shape != exp.shape or not np.allclose(g, exp, rtol=2e-5, atol=2e-6):
            return ("distances-changed", f"block {k}: expected first rows {exp[:2].tolist()} in Angstrom, got {g[:2].tolist() if g.size else g}")
    return None


def judge_units(ml, ctx, rep, rng):
    found = False
    reported = {}
    cells = unit_cells(ml)
    rng.shuffle(cells)          # consecutive calls differ in unit / class / header: a reader that remembers its last call shows
    for cell in cells:
        fmt, cls_name, api, hdr, uname, named = cell
        if uname not in PHYS:
            rep.count("units:member-without-physical-value")
            continue
        rep.case(key=f"units:{fmt}:{cls_name}:{api}:{hdr}:{uname}",
                 sample={"reader": fmt, "class": cls_name, "api": api, "header": hdr, "unit": uname})
        rep.count(f"units:{fmt}")
        rep.count(f"units:class={cls_name}")
        rep.count(f"units:unit={uname}")
        if hdr:
            rep.count(f"units:mol2-header={hdr}")
        v = unit_judge_cell(ml, ctx, cell)
        if v:
            sig = f"C08:units:{fmt}:{uname}:{v[0]}"
            reported.setdefault(sig, []).append((cell, v[1]))
            found = True
    for sig, lst in reported.items():
        (fmt, cls_name, api, hdr, uname, named), detail = lst[0]
        others = sorted({f"{c[1]}.{c[2]}" + (f"[{c[3]}]" if c[3] else "") for c, _ in lst[1:]})
        rep.violate(sig, f"{cls_name} {api.split(':')[0]}_{fmt}({'header ' + hdr + ', ' if hdr else ''}source_units={uname!r}"
                         f"{', name given' if named else ''}): a geometry expressed in {uname} (1 A = {PHYS[uname]} {uname}) is not "
                         f"read back in Angstrom: {detail}" + (f"; also {len(lst) - 1} more cell(s): {', '.join(others[:12])}" if others else ""),
                    {"kind": "units", "cell": [fmt, cls_name, api, hdr, uname, named]})
    return found


# ---- write / edit / write sessions on one object
SESSION_CLASSES = ["ConformerEnsemble", "ConformerEnsemble", "Molecule", "Structure", "CartesianGeometry"]
WRITE_HOW = ["dumps_xyz", "dump_xyz:stream", "ml.dumps"]


def gen_session(rng):
    """A jsonable session: class, initial state, steps.  The generator tracks atom / frame counts so that every index is valid."""
    cls = rng.choice(SESSION_CLASSES)
    ens = cls == "ConformerEnsemble"
    n = rng.randint(1, 5)
    k = rng.randint(1, 4) if ens else 1
    trip = lambda: [c10.rand_coord(rng) for _ in range(3)]
    spec = {"cls": cls, "name": rng.choice(c10.NAMES), "syms": [rng.choice(c10.ELEMS) for _ in range(n)],
            "frames": [[trip() for _ in range(n)] for _ in range(k)], "steps": []}
    steps = spec["steps"]

    def write():
        if ens and rng.random() < 0.3:
            steps.append(["write_frame", rng.randrange(k), rng.choice(["index", "held"]), rng.choice(WRITE_HOW[:2])])
        else:
            steps.append(["write", rng.choice(WRITE_HOW if cls in ("Molecule", "ConformerEnsemble") else WRITE_HOW[:2])])

    if rng.random() < 0.9:
        write()
    for _ in range(rng.randint(1, 4)):
        for _ in range(rng.randint(1, 3)):
            ops = ["rename"]
            if n >= 1:
                ops += ["set_elem", "set_elem", "set_elem", "set_coord", "set_frame"]
            if n >= 2:
                ops += ["swap", "swap"]
            if not ens:
                ops += ["add_atom"] + (["del_atom"] if n >= 1 else [])
            elif n >= 1:
                ops += ["append_frame"]
            op = rng.choice(ops)
            if op == "set_elem":
                steps.append([op, rng.randrange(n), rng.choice(c10.ELEMS), rng.choice(["atoms", "get_atom"])])
            elif op == "swap":
                i, j = rng.sample(range(n), 2)
                steps.append([op, i, j])
            elif op == "set_coord":
                steps.append([op, rng.randrange(k), rng.randrange(n), trip()])
            elif op == "set_frame":
                steps.append([op, rng.randrange(k), [trip() for _ in range(n)], rng.choice(["slice", "conformer"])])
            elif op == "rename":
                steps.append([op, rng.choice(c10.NAMES)])
            elif op == "add_atom":
                steps.append([op, rng.choice(c10.ELEMS), trip()])
                n += 1
            elif op == "del_atom":
                steps.append([op, rng.randrange(n)])
                n -= 1
            elif op == "append_frame":
                steps.append([op, [trip() for _ in range(n)]])
                k += 1
        for _ in range(rng.randint(1, 2)):
            write()
    return spec


def exec_session(ml, spec):
    """Drives the real classes through the session.  Returns (writes, applied steps): for every write the text, the state the
    object shows through its accessors at that moment [(elements, dummy flags, coords)] and the step; steps that molli
    refused are dropped (and reported by the caller as such)."""
    import numpy as np
    from molli.chem import Molecule, Structure, CartesianGeometry, ConformerEnsemble, Atom, Element
    cls = {"Molecule": Molecule, "Structure": Structure, "CartesianGeometry": CartesianGeometry}.get(spec["cls"])
    ens = cls is None
    base = (Molecule if ens else cls)(n_atoms=0, name=spec["name"])
    for sym, c in zip(spec["syms"], spec["frames"][0]):
        base.add_atom(Atom(sym), c)
    if ens:
        obj = ConformerEnsemble(base, n_conformers=len(spec["frames"]))
        obj.coords = np.array(spec["frames"], dtype=float).reshape(len(spec["frames"]), len(spec["syms"]), 3)
        held = [obj[i] for i in range(obj.n_conformers)]          # conformer handles taken BEFORE any edit
    else:
        obj = base
    state = lambda g: ([int(a.element.z) for a in g.atoms], [a.atype.name == "Dummy" for a in g.atoms],
                       [tuple(float(x) for x in c) for c in np.asarray(g.coords, dtype=float).reshape(-1, 3)])

    def text_of(g, how):
        if how == "dumps_xyz":
            return g.dumps_xyz()
        if how == "dump_xyz:stream":
            buf = io.StringIO()
            g.dump_xyz(buf)
            return buf.getvalue()
        return ml.dumps(g, "xyz")

    writes, applied, refused = [], [], []
    for st in spec["steps"]:
        op = st[0]
        try:
            if op == "write":
                txt = text_of(obj, st[1])
                frames = [state(obj[i]) for i in range(obj.n_conformers)] if ens else [state(obj)]
                writes.append({"text": txt, "orig": frames, "step": st, "name": str(obj.name) if hasattr(obj, "name") else None})
            elif op == "write_frame":
                if st[2] == "held" and st[1] >= len(held):
                    st = [st[0], st[1], "index", st[3]]
                c = held[st[1]] if st[2] == "held" else obj[st[1]]
                txt = text_of(c, st[3])
                writes.append({"text": txt, "orig": [state(c)], "step": st, "name": str(c.name)})
            elif op == "set_elem":
                (obj.atoms[st[1]] if st[3] == "atoms" else obj.get_atom(st[1])).element = Element.get(st[2])
            elif op == "swap":
                a, b = obj.atoms[st[1]], obj.atoms[st[2]]
                a.element, b.element = b.element, a.element
            elif op == "set_coord":
                if ens:
                    obj.coords[st[1], st[2]] = st[3]
                else:
                    obj.coords[st[2]] = st[3]
            elif op == "set_frame":
                arr = np.array(st[2], dtype=float).reshape(-1, 3)
                if ens and st[3] == "conformer":
                    obj[st[1]].coords = arr
                elif ens:
                    obj.coords[st[1]] = arr
                else:
                    obj.coords = arr
            elif op == "rename":
                obj.name = st[1]
            elif op == "add_atom":
                obj.add_atom(Atom(st[1]), st[2])
            elif op == "del_atom":
                obj.del_atom(st[1])
            elif op == "append_frame":
                g = Molecule(obj[0])
                g.coords = np.array(st[1], dtype=float).reshape(-1, 3)
                obj.append(g)
            else:
                raise ValueError(op)
            applied.append(st)
        except Exception as e:  # noqa: an edit molli refuses is not part of this property
            if op in ("write", "write_frame"):
                writes.append({"text": None, "orig": [], "step": st, "error": type(e).__name__})
                applied.append(st)
            else:
                refused.append((st, type(e).__name__))
                break               # the counts tracked by the generator are no longer valid
    return writes, applied, refused


def judge_session(ml, spec, writes):
    """Oracle: every write reads back as the state the object had when it was written."""
    from molli.chem import ConformerEnsemble
    for n, w in enumerate(writes):
        where = f"write #{n} ({' '.join(str(x) for x in w['step'])}) of a {spec['cls']}"
        if w["text"] is None:
            return (f"C08:xyz:session:cannot-write:{w.get('error')}", f"{where}: the writer raised {w.get('error')}")
        back = c10.observe(ml, "xyz", w["text"])
        v = judge_roundtrip("xyz:session", w["orig"], back)
        if v:
            return (v[0], f"{where} after {n} earlier write(s) and in-place edits: {v[1]}")
        if w["step"][0] == "write" and spec["cls"] == "ConformerEnsemble":
            eb = c10.run_limited(lambda: ConformerEnsemble.loads_xyz(w["text"]))
            if eb[0] != "ok":
                return ("C08:xyz:session:ensemble-readback", f"{where}: ConformerEnsemble.loads_xyz failed: {eb[1]}")
            e2 = eb[1]
            orig2 = [([int(a.element.z) for a in e2.atoms], [False] * e2.n_atoms, [tuple(float(x) for x in c) for c in e2.coords[k]])
                     for k in range(e2.n_conformers)]
            v = judge_roundtrip("xyz:session:ensemble-readback", w["orig"],
                                ("ok", [{"n_atoms": len(o[0]), "elems": o[0], "coords": o[2], "dummy": o[1]} for o in orig2]))
            if v:
                return (v[0], f"{where}, read back as an ensemble: {v[1]}")
    return None


def trip_term(p):
    return f"({dec_term(float(p[0]))}, {dec_term(float(p[1]))}, {dec_term(float(p[2]))})"


def session_term(ml, spec, applied, writes):
    """Coq case: the INITIAL state, the steps, and the lines of every write (None when a text is not plain ASCII)."""
    from molli.chem import Element
    z = lambda sym: cq_Z(int(Element.get(sym).z))
    e0 = (f"(mk_wens (s2l {cq_str(spec['name'])}) {cq_list(z(s) for s in spec['syms'])} "
          f"{cq_list(cq_list(trip_term(p) for p in f) for f in spec['frames'])})")
    steps = []
    for st in applied:
        op = st[0]
        if op == "write":
            steps.append("WWriteAll")
        elif op == "write_frame":
            steps.append(f"(WWriteFrame {cq_nat(st[1])})")
        elif op == "set_elem":
            steps.append(f"(WEdit (WSetElem {cq_nat(st[1])} {z(st[2])}))")
        elif op == "swap":
            steps.append(f"(WEdit (WSwapElem {cq_nat(st[1])} {cq_nat(st[2])}))")
        elif op == "set_coord":
            steps.append(f"(WEdit (WSetCoord {cq_nat(st[1])} {cq_nat(st[2])} {trip_term(st[3])}))")
        elif op == "set_frame":
            steps.append(f"(WEdit (WSetFrame {cq_nat(st[1])} {cq_list(trip_term(p) for p in st[2])}))")
        elif op == "rename":
            steps.append(f"(WEdit (WRename (s2l {cq_str(st[1])})))")
        elif op == "add_atom":
            steps.append(f"(WEdit (WAddAtom {z(st[1])} {trip_term(st[2])}))")
        elif op == "del_atom":
            steps.append(f"(WEdit (WDelAtom {cq_nat(st[1])}))")
        elif op == "append_frame":
            steps.append(f"(WEdit (WAppendFrame {cq_list(trip_term(p) for p in st[1])}))")
    outs = []
    for w in writes:
        if w["text"] is None:
            return None
        lines = c10.to_lines(w["text"])
        if not all(all(32 <= ord(c) < 127 for c in l) for l in lines):
            return None
        outs.append(c10.lines_term(lines))
    return f"({e0}, {cq_list(steps)}, {cq_list(outs)})"


def session_profile(applied):
    """Which kinds of write-after-write the session contains (for the measured distribution)."""
    tags, seen_write, edits = [], False, []
    for st in applied:
        if st[0] in ("write", "write_frame"):
            if seen_write and edits:
                changing = any(e in ("add_atom", "del_atom") for e in edits)
                elem = any(e in ("set_elem", "swap") for e in edits)
                tags.append("rewrite-after-edit:" + ("atom-count-changed" if changing else
                                                     "elements-changed-same-count" if elem else "coords-or-name-only"))
            elif seen_write:
                tags.append("rewrite-without-edit")
            seen_write, edits = True, []
        else:
            edits.append(st[0])
    return tags


def run_sessions(ml, ctx, rep, n_sessions):
    rng = ctx.rng
    scases, specs = [], []
    for _ in range(n_sessions):
        spec = gen_session(rng)
        r = c10.run_limited(lambda: exec_session(ml, spec), limit=20)
        if r[0] != "ok":
            rep.violate(f"C08:xyz:session:{r[0]}", f"a write/edit session on a {spec['cls']} did not complete: {r[1]}",
                        {"kind": "session", "spec": spec})
            continue
        writes, applied, refused = r[1]
        for st, err in refused:
            rep.count(f"session:edit-refused:{st[0]}:{err}")
        rep.case(key="sess:" + json.dumps([spec["cls"], spec["syms"], applied], sort_keys=True),
                 sample={"kind": "session", "cls": spec["cls"], "steps": [s[0] for s in applied]})
        rep.count(f"session:{spec['cls']}")
        rep.count(f"session:writes={min(len(writes), 6)}")
        for st in applied:
            rep.count(f"session:step:{st[0]}" + (f":{st[2]}" if st[0] == "write_frame" else ""))
        for t in session_profile(applied):
            rep.count("session:" + t)
        v = judge_session(ml, spec, writes)
        if v:
            rep.violate(v[0], v[1], {"kind": "session", "spec": spec})
        term = session_term(ml, spec, applied, writes)
        if term is not None:
            scases.append(term)
            specs.append(spec)
    return scases, specs


# ------------------------------------------------------------------ SIZE family
# Geometries / ensembles / multi-frame texts whose atom count or frame count sits at and around plausible internal block
# lengths (powers of two, decimal powers, their multiples), a contiguous sweep of small counts, and random counts in
# between.  The atoms follow the deterministic pattern of Model/XyzSize.v (pat_elem / pat_dec), which both sides expand:
# only (n, element seed, coordinate seed) travels.  Every text is judged (a) as text: count line, comment, exactly that
# many records, ... until the text ends, every record four tokens that mean the atom written; (b) by reading it back
# through every reader entry point, first-frame ones and all-frames ones; (c) inside Coq: character by character against
# the model writer, the model reader against what Molecule.loads_all_xyz returned, and the text-level reading.
SIZE_CLASSES = ["CartesianGeometry", "Structure", "Molecule"]
SIZE_HOW = ["dumps_xyz", "dump_xyz:stream", "dump_xyz:file", "ml.dumps", "ml.dump:path"]
SIZE_NAME = "size family"


def pat_elem(es, i):
    return 1 + (i * 7 + es) % 118


def pat_dec(cs, i, ax):
    return ((i // 3 + ax + cs) % 2 == 1,
            (i * i * 7919 + i * 104729 * (ax + 1) + cs * 1299709 + ax * 15485863) % 10 ** (4 + (i + ax) % 7))


_PAT_FLOATS = {}        # (neg, mag) -> float whose nearest micro-unit is exactly (neg, mag)   [checked once with fractions]
_FLOAT_DECS = {}        # the inverse, for the observations


def pat_val(d):
    x = _PAT_FLOATS.get(d)
    if x is None:
        x = d[1] / 1e6
        if d[0]:
            x = -x
        num, den = abs(x).as_integer_ratio()          # exact: |x| = num / den;  nearest micro-unit of x is d[1]  <=>  2 |num 10^6 - mag den| < den
        if not 2 * abs(num * 10 ** 6 - d[1] * den) < den or (math.copysign(1.0, x) < 0) != d[0]:
            raise AssertionError(f"pattern value {d} is not representable: {x!r}")
        _PAT_FLOATS[d] = x
        _FLOAT_DECS[(x, d[0])] = d
    return x


def dec_cached(x):
    d = _FLOAT_DECS.get((x, math.copysign(1.0, x) < 0)) if x == x else None
    return d if d is not None else dec_of(x)


def pat_frame(fr):
    """(elements, dummy flags, coordinate rows) of one frame spec [n, es, cs]."""
    n, es, cs = fr
    return ([pat_elem(es, i) for i in range(n)], [False] * n,
            [tuple(pat_val(pat_dec(cs, i, ax)) for ax in range(3)) for i in range(n)])


def size_points(thorough):
    pts = set()
    for k in range(4, 13 if not thorough else 15):
        pts |= {2 ** k - 1, 2 ** k, 2 ** k + 1}
    for b in (100, 1000) + ((10000,) if thorough else ()):
        pts |= {b - 1, b, b + 1}
    pts |= {3 * 256 - 1, 3 * 256, 3 * 256 + 1, 2000, 3 * 1024}
    if thorough:
        pts |= {m * b + d for b in (64, 100, 128, 250, 256, 500, 512, 1000, 1024, 4096) for m in (2, 3, 5) for d in (-1, 0, 1)}
    return sorted(pts)


def gen_size_specs(rng, thorough):
    """jsonable specs: kind single | ens | multi | sweep, frames [[n, es, cs], ...], class(es), way of writing."""
    specs = []
    pts = size_points(thorough)
    seed = lambda: rng.randrange(1, 10 ** 6)
    how_for = lambda cls: [h for h in SIZE_HOW if not h.startswith("ml.") or cls in ("Molecule", "ConformerEnsemble")]
    # single geometries at the points (every point with a class and a way of writing of its own), and at random counts
    for j, n in enumerate(pts + [rng.randint(18, 3000 if not thorough else 20000) for _ in range(6 if not thorough else 60)]):
        cls = SIZE_CLASSES[(j + rng.randrange(3)) % 3]
        specs.append({"kind": "single", "classes": [cls], "how": rng.choice(how_for(cls)), "frames": [[n, seed(), seed()]],
                      "random": j >= len(pts)})
    # the block multiples once more through the class the ensembles use, by the plain call
    # (`full`: read back through EVERY entry point; the other cases meet a rotating selection of them)
    for n in (64, 128, 256, 512, 1024, 4096):
        specs.append({"kind": "single", "classes": ["Molecule"], "how": "dumps_xyz", "frames": [[n, seed(), seed()]], "full": n <= 1024})
    # ensembles: many atoms x few frames, few atoms x many frames, and products whose TOTAL record count is a block multiple
    shapes = [(n, k) for n in (64, 128, 255, 256, 257, 512, 1024) for k in (2, 3)]
    shapes += [(1 + 2 * (j % 2), k) for j, k in enumerate((63, 64, 65, 127, 128, 129, 255, 256, 257, 511, 512, 513, 1000, 1023, 1024, 1025))]
    shapes += [(16, 16), (32, 8), (8, 32), (64, 4), (32, 32), (64, 16), (14, 18), (62, 4), (30, 8)]   # last three: (n + 2) * k lines
    if thorough:
        shapes += [(256, 256), (4096, 2), (4096, 3), (2, 4096), (2, 4097), (1, 8192), (1000, 10), (10, 1000), (100, 100)]
        shapes += [(rng.randint(2, 300), rng.randint(2, 300)) for _ in range(30)]
    else:
        shapes += [(rng.randint(2, 120), rng.randint(2, 120)) for _ in range(4)]
    for n, k in shapes:
        es = seed()
        specs.append({"kind": "ens", "classes": ["ConformerEnsemble"], "how": rng.choice(how_for("ConformerEnsemble")),
                      "frames": [[n, es, seed()] for _ in range(k)], "full": (n, k) in ((256, 2), (64, 3), (3, 64), (1, 256), (16, 16))})
    # multi-frame texts written object by object into ONE stream: frame counts at the points, small different frames
    for k in (255, 256, 257, 1023, 1024, 1025) + ((4095, 4096, 4097) if thorough else ()):
        specs.append({"kind": "multi", "classes": [rng.choice(SIZE_CLASSES) for _ in range(k)],
                      "how": rng.choice(["dumps_xyz", "dump_xyz:stream", "dump_xyz:file"]),
                      "frames": [[rng.randint(0, 3), seed(), seed()] for _ in range(k)], "full": k == 256})
    # frames of block-multiple size FOLLOWED by other frames (what a surplus or a lost record does to its successor)
    for n in (64, 128, 256, 512):
        specs.append({"kind": "multi", "classes": [SIZE_CLASSES[(n // 64 + q) % 3] for q in range(3)], "how": "dump_xyz:stream",
                      "frames": [[n, seed(), seed()], [rng.randint(1, 5), seed(), seed()], [n + 1, seed(), seed()]], "full": n == 128})
    # contiguous sweep: EVERY atom count 0..N (whatever the block length, its first multiples are met)
    top = 260 if not thorough else 1300
    for n in range(0, top + 1):
        specs.append({"kind": "sweep", "classes": [SIZE_CLASSES[n % 3]], "how": "dumps_xyz", "frames": [[n, 1 + n % 7, 1 + n % 11]]})
    return specs


def size_build(ml, spec, orig=None):
    """The real objects of one spec, built through molli's constructors and accessors."""
    orig = orig or [pat_frame(f) for f in spec["frames"]]
    import numpy as np
    from molli.chem import Molecule, Structure, CartesianGeometry, ConformerEnsemble, Element
    cl = {"Molecule": Molecule, "Structure": Structure, "CartesianGeometry": CartesianGeometry}

    def geom(cls, fr, o):
        el, _, co = o
        g = cls(n_atoms=fr[0], name=SIZE_NAME)
        for a, z in zip(g.atoms, el):
            a.element = Element(z)
        g.coords = np.array(co, dtype=float).reshape(-1, 3)
        return g

    if spec["kind"] == "ens":
        frs = spec["frames"]
        e = ConformerEnsemble(geom(Molecule, frs[0], orig[0]), n_conformers=len(frs), name=SIZE_NAME)
        e.coords = np.array([o[2] for o in orig], dtype=float).reshape(len(frs), frs[0][0], 3)
        return [e]
    return [geom(cl[c], f, o) for c, f, o in zip(spec["classes"], spec["frames"], orig)]


def size_write(ml, ctx, spec, objs):
    how = spec["how"]
    if how == "dumps_xyz":
        return "".join(o.dumps_xyz() for o in objs)
    if how == "ml.dumps":
        return "".join(ml.dumps(o, "xyz") for o in objs)
    if how == "dump_xyz:stream":
        buf = io.StringIO()
        for o in objs:
            o.dump_xyz(buf)
        return buf.getvalue()
    path = os.path.join(ctx.sub("size"), "written.xyz")
    if how == "dump_xyz:file":
        with open(path, "w") as f:
            for o in objs:
                o.dump_xyz(f)
    elif how == "ml.dump:path":
        assert len(objs) == 1
        ml.dump(objs[0], path, "xyz", mode="w")
    else:
        raise ValueError(how)
    return open(path).read()


def text_frames(text):
    """The text as a reader of xyz files sees it, without molli: (frames [(count, comment, record lines)], None) or (None, why)."""
    lines = c10.to_lines(text)
    i, frames = 0, []
    while i < len(lines):
        try:
            n = int(lines[i])
        except ValueError:
            if not frames:
                return None, ("count-line", f"line {i + 1}: the text does not start with a count line: {lines[i][:50]!r}")
            return None, ("surplus-lines", f"line {i + 1}: frame {len(frames)} is complete ({frames[-1][0]} records under a header of "
                                           f"{frames[-1][0]}) and a count line or the end of the text must follow, but the text "
                                           f"goes on with {lines[i][:50]!r} (lines outside every frame)")
        if n < 0 or i + 2 + n > len(lines):
            return None, ("truncated", f"frame {len(frames) + 1} declares {n} records at line {i + 1}, only {max(len(lines) - i - 2, 0)} line(s) follow")
        frames.append((n, lines[i + 1], lines[i + 2:i + 2 + n]))
        i += 2 + n
    return frames, None


_ELEM_Z = {}


def judge_text(ml, text, orig):
    """Oracle on the written text alone: one frame per geometry, header count = records = atoms, every record means its atom."""
    from molli.chem import Element
    if not _ELEM_Z:
        for e in Element:
            _ELEM_Z[e.symbol.capitalize()] = int(e.z)
    frames, why = text_frames(text)
    if frames is None:
        return (f"C08:xyz:size:text:{why[0]}", why[1])
    if len(frames) != len(orig):
        return ("C08:xyz:size:text:frame-count", f"{len(orig)} geometr(y/ies) written, the text holds {len(frames)} frame(s)")
    for k, ((n, _cm, recs), (el, _du, co)) in enumerate(zip(frames, orig)):
        if n != len(el):
            return ("C08:xyz:size:text:header-count", f"frame {k}: {len(el)} atoms, the header says {n}")
        for i, (line, z, p) in enumerate(zip(recs, el, co)):
            tk = line.split()
            if len(tk) != 4:
                return ("C08:xyz:size:text:record-tokens", f"frame {k} record {i}: {line[:60]!r} is not four tokens")
            if _ELEM_Z.get(tk[0].capitalize()) != z:
                return ("C08:xyz:size:text:element", f"frame {k} record {i}: element {z} written as {tk[0]!r}")
            for a, s in zip(p, tk[1:]):
                try:
                    b = float(s)
                except ValueError:
                    return ("C08:xyz:size:text:record-tokens", f"frame {k} record {i}: {s!r} is not a number")
                if not abs(a - b) <= 0.5000001e-6 + 1e-12 * abs(a):
                    return ("C08:xyz:size:text:coordinate", f"frame {k} record {i}: {a!r} written as {s!r}")
    return None


def size_sig(g):
    import numpy as np
    return (int(g.n_atoms), [int(a.element.z) for a in g.atoms], np.asarray(g.coords, dtype=float).reshape(-1, 3))


def size_readers(ml, ctx, text, homogeneous):
    """(api, mode, thunk): every entry point that reads xyz -- mode first (one geometry), all (every frame), ens."""
    from molli.chem import Molecule, Structure, CartesianGeometry, ConformerEnsemble
    path = os.path.join(ctx.sub("size"), "readback.xyz")
    with open(path, "w") as f:
        f.write(text)
    S = lambda: io.StringIO(text)
    sg = lambda ms: [size_sig(m) for m in ms]
    es = lambda e: [(int(e.n_atoms), [int(a.element.z) for a in e.atoms], e.coords[k]) for k in range(e.n_conformers)]
    out = []
    for cls in (Molecule, CartesianGeometry, Structure):
        c = cls.__name__
        out += [(f"{c}.loads_all_xyz", "all", lambda cls=cls: sg(cls.loads_all_xyz(text))),
                (f"{c}.loads_xyz", "first", lambda cls=cls: sg([cls.loads_xyz(text)])),
                (f"{c}.load_all_xyz:path", "all", lambda cls=cls: sg(cls.load_all_xyz(path))),
                (f"{c}.load_xyz:path", "first", lambda cls=cls: sg([cls.load_xyz(path)])),
                (f"{c}.load_all_xyz:stream", "all", lambda cls=cls: sg(cls.load_all_xyz(S()))),
                (f"{c}.load_xyz:stream", "first", lambda cls=cls: sg([cls.load_xyz(S())])),
                (f"{c}.yield_from_xyz", "all", lambda cls=cls: sg(list(cls.yield_from_xyz(S()))))]
    out += [("ml.load_all", "all", lambda: sg(ml.load_all(path, "xyz"))), ("ml.loads_all", "all", lambda: sg(ml.loads_all(text, "xyz"))),
            ("ml.load", "first", lambda: sg([ml.load(path, "xyz")])), ("ml.loads", "first", lambda: sg([ml.loads(text, "xyz")]))]
    if homogeneous:
        out += [("ConformerEnsemble.loads_xyz", "ens", lambda: es(ConformerEnsemble.loads_xyz(text))),
                ("ConformerEnsemble.load_xyz:path", "ens", lambda: es(ConformerEnsemble.load_xyz(path))),
                ("ConformerEnsemble.load_xyz:stream", "ens", lambda: es(ConformerEnsemble.load_xyz(S()))),
                ("ml.load:ensemble", "ens", lambda: es(ml.load(path, "xyz", otype="ensemble"))),
                ("ml.loads:ensemble", "ens", lambda: es(ml.loads(text, "xyz", otype="ensemble")))]
    return out


def judge_size_read(api, mode, orig, r):
    import numpy as np
    tag = f"C08:xyz:size:{api}"
    if r[0] == "hang":
        return (f"{tag}:no-termination", f"{api} did not return")
    if r[0] == "err":
        return (f"{tag}:cannot-read-back:{r[1]}", f"the text written by molli is rejected by {api}: {r[1]}")
    want = orig[:1] if mode == "first" else orig
    got = r[1]
    if len(got) != len(want):
        return (f"{tag}:frame-count", f"{len(orig)} frame(s) written, {api} returned {len(got)}")
    for k, ((el, _du, co), (n, gel, gco)) in enumerate(zip(want, got)):
        if n != len(el) or gel != el:
            return (f"{tag}:elements", f"frame {k}: {len(el)} atoms {el[:6]}... written, {n} atoms {gel[:6]}... read")
        a, b = np.array(co, dtype=float).reshape(-1, 3), np.asarray(gco, dtype=float).reshape(-1, 3)
        if a.shape != b.shape:
            return (f"{tag}:coordinates", f"frame {k}: coordinate block of shape {b.shape} for {len(el)} atoms")
        if a.size and not bool(np.all(np.abs(a - b) <= 0.5000001e-6 + 1e-12 * np.abs(a))):
            i = int(np.argmax(np.abs(a - b).max(axis=1)))
            return (f"{tag}:coordinates", f"frame {k} atom {i}: written {a[i].tolist()} read {b[i].tolist()}")
    return None


def size_case(ml, ctx, spec, reader_pick=None):
    """Runs one spec.  Returns (violation or None, text, observation of Molecule.loads_all_xyz, apis used)."""
    orig = [pat_frame(f) for f in spec["frames"]]
    w = c10.run_limited(lambda: size_write(ml, ctx, spec, size_build(ml, spec, orig)), limit=30)
    if w[0] != "ok":
        return ((f"C08:xyz:size:cannot-write:{w[1] if w[0] == 'err' else 'no-termination'}", f"writing failed: {w}"), None, None, [])
    text = w[1]
    v = judge_text(ml, text, orig)
    homogeneous = len({(f[0], f[1]) for f in spec["frames"]}) == 1
    readers = size_readers(ml, ctx, text, homogeneous)
    if reader_pick is not None:
        readers = reader_pick(readers)
    obs, used = None, []
    for api, mode, fn in readers:
        r = c10.run_limited(fn, limit=30)
        used.append((api, mode))
        if api == "Molecule.loads_all_xyz":
            obs = r
        if v is None:
            v = judge_size_read(api, mode, orig, r)
    return v, text, obs, used


def pack_line(s):
    b = s.encode("ascii")
    return "[" + "; ".join(str(int.from_bytes(b"\x01" + b[i:i + 7], "big")) for i in range(0, len(b), 7)) + "]"


def pack_dec(x):
    try:
        neg, mag = dec_cached(float(x))
    except (ValueError, OverflowError):
        return str(2 ** 62 - 1)
    return str(min(2 * mag + (1 if neg else 0), 2 ** 62 - 1))


def size_term(spec, text, obs):
    """Packed Coq case (Model.XyzSize.pcase), or None when the text is not plain ASCII."""
    lines = c10.to_lines(text)
    if not all(all(32 <= ord(c) < 127 for c in l) for l in lines):
        return None
    if obs is None or obs[0] != "ok":
        o = "None"
    else:
        o = "(Some [" + ";\n ".join("[" + "; ".join(f"({z}, {pack_dec(c[0])}, {pack_dec(c[1])}, {pack_dec(c[2])})" for z, c in zip(el, co)) + "]"
                                    for _n, el, co in obs[1]) + "])"
    frs = "[" + "; ".join(f"({n}, {es}, {cs})" for n, es, cs in spec["frames"]) + "]"
    return f"({pack_line(SIZE_NAME)}, {frs},\n [" + ";\n ".join(pack_line(l) for l in lines) + f"],\n {o})"


HEAD_Z = ("From Coq Require Import List ZArith NArith String Ascii Uint63.\n"
          "From Molli Require Import Common.ParseStr Model.Parse Model.XyzText Model.XyzSize Gen.XyzElements.\n"
          "Import ListNotations.\nOpen Scope uint63_scope.\n")


def run_size(ml, ctx, rep):
    """The whole family: oracle on everything, Coq on the cases that fit the literal budget.  Returns (bins, bin specs)."""
    rng = ctx.rng
    specs = gen_size_specs(rng, ctx.thorough)
    # atom records shipped to Coq in this run, per kind (the rest of the family is judged by the oracle only)
    scale = 1 if not ctx.thorough else 10
    budget = {"single": 16500 * scale, "ens": 7000 * scale, "multi": 3000 * scale, "sweep": 2500 * scale}
    per_case = 4200 if not ctx.thorough else 17000
    rot = {"all": 0, "other": 0}
    coq_cases = []
    reported = set()
    for spec in specs:
        kind = spec["kind"]
        nrec = sum(f[0] for f in spec["frames"])
        nmax = max(f[0] for f in spec["frames"])
        k = len(spec["frames"])
        n0 = spec["frames"][0][0]
        fits = {"single": n0 <= 1025 or n0 == 4096 or spec.get("random"), "ens": nrec <= 1100, "multi": True,
                "sweep": n0 % 64 in (0, 1, 63)}[kind]
        want_coq = bool(fits and nrec <= per_case and nrec <= budget[kind])

        def pick(readers, kind=kind, nrec=nrec, want_coq=want_coq, full=spec.get("full") or ctx.thorough and kind != "sweep" and nrec <= 3000):
            # `full` cases: every entry point.  Otherwise: the reader the Coq comparison observes (when the case goes to Coq)
            # and a rotating selection -- always at least one all-frames reader -- so that over the run every entry point
            # meets every size class.
            if full:
                return readers
            alls = [r for r in readers if r[1] == "all" and r[0] != "Molecule.loads_all_xyz"]
            others = [r for r in readers if r[1] != "all"]
            na, no = (1, 1) if kind == "sweep" else (1, 2) if nrec > 1300 else (2, 3)
            out = [r for r in readers if r[0] == "Molecule.loads_all_xyz"] if want_coq else []
            for lst, cnt, key in ((alls, na, "all"), (others, no, "other")):
                for _ in range(cnt):
                    out.append(lst[rot[key] % len(lst)])
                    rot[key] += 1
            return out

        v, text, obs, used = size_case(ml, ctx, spec, pick)
        rep.case(key=f"size:{kind}:{spec['how']}:{spec['classes'][0]}:" + json.dumps(spec["frames"][:4]) + f":{k}",
                 sample={"kind": "size:" + kind, "how": spec["how"], "frames": k, "atoms": nmax})
        rep.count(f"size:{kind}")
        rep.count(f"size:how={spec['how']}")
        if kind != "sweep":
            rep.count(f"size:{kind}:atoms={nmax}" if kind == "single" else f"size:{kind}:atoms~{size_bucket(nmax)}:frames~{size_bucket(k)}")
        for c in set(spec["classes"]):
            rep.count(f"size:class={c}")
        for api, mode in used:
            rep.count(f"size:read:{mode}:{api}")
        if len(used) > 20:
            rep.count("size:read:every-entry-point")
        if v:
            if v[0] not in reported and len(reported) < 25:         # one replayable witness per signature
                rep.violate(v[0], f"{size_describe(spec)}: {v[1]}", {"kind": "size", "spec": spec})
            reported.add(v[0])
            rep.count("size:violating-cases")
        term = size_term(spec, text, obs) if text is not None and want_coq else None
        if term is not None:
            budget[kind] -= nrec
            coq_cases.append((nrec + 2 * k + 5, term, spec))
            rep.count(f"size:coq:{kind}")
        else:
            rep.count(f"size:oracle-only:{kind}")
    # weight-balanced bins, one shard each
    nb = 12 if not ctx.thorough else 32
    bins = [[0, [], []] for _ in range(max(1, min(nb, len(coq_cases))))]
    for wgt, term, spec in sorted(coq_cases, key=lambda c: -c[0]):
        b = min(bins, key=lambda b: b[0])
        b[0] += wgt
        b[1].append(term)
        b[2].append(spec)
    return ["[" + ";\n".join(b[1]) + "]" for b in bins], [b[2] for b in bins]


def size_bucket(n):
    for b in (1, 3, 16, 64, 128, 256, 512, 1024, 4096):
        if n <= b:
            return f"<={b}"
    return ">4096"


def size_describe(spec):
    frs = spec["frames"]
    if spec["kind"] == "ens":
        return f"ConformerEnsemble of {len(frs)} conformer(s) x {frs[0][0]} atoms written by {spec['how']}"
    if len(frs) == 1:
        return f"{spec['classes'][0]} of {frs[0][0]} atoms written by {spec['how']}"
    return f"{len(frs)} geometries of {[f[0] for f in frs[:6]]}{'...' if len(frs) > 6 else ''} atoms written one after another by {spec['how']}"


# ------------------------------------------------------------------ VIEW family
# Written objects that do not own their atoms and coordinates: a Substructure over a parent (Molecule, Structure, a Conformer of
# an ensemble) whose atoms were selected in ANY order -- ascending (control), permuted, reversed, a whole permutation, an index
# more than once, a breadth-first order over the bonds, `heavy`, a substructure of a substructure, no atom at all; given as
# indices or as Atom objects.  Sessions: the view written (five ways), the parent edited (a row, an element) or assigned / scaled /
# translated THROUGH the view, view and parent written again.  The oracle keeps the parent's state itself (plain lists) and
# judges every text against the selection of that state in selection order; a quarter of the cases declare the parent's numbers
# to be in another unit and read the view's text back with source_units=U.
VIEW_PARENTS = ["Molecule", "Structure", "Conformer", "Molecule"]
VIEW_HOW = ["dumps_xyz", "dump_xyz:stream", "dump_xyz:file", "ml.dumps", "dumps_xyz"]
VIEW_MODES = ["permuted", "permuted", "permuted", "reversed", "full-permutation", "repeated", "repeated", "bfs", "bfs", "ascending",
              "heavy", "nested", "nested", "empty"]
VIEW_UNIT_READERS = ["Molecule.loads_xyz", "Structure.loads_all_xyz", "CartesianGeometry.load_xyz:stream", "Molecule.load_all_xyz:path"]


def _bfs_order(n, bonds, start):
    adj = {i: [] for i in range(n)}
    for i, j in bonds:
        adj[i].append(j)
        adj[j].append(i)
    seen, queue, out = {start}, [start], []
    while queue:
        i = queue.pop(0)
        out.append(i)
        for j in adj[i]:
            if j not in seen:
                seen.add(j)
                queue.append(j)
    return out


def gen_view(rng):
    parent = rng.choice(VIEW_PARENTS)
    n = rng.randint(2, 8)
    trip = lambda: [c10.rand_coord(rng) for _ in range(3)]
    syms = [rng.choice(c10.ELEMS) for _ in range(n)]
    bonds = [[i, i + 1] for i in range(n - 1) if rng.random() < 0.8]
    for _ in range(rng.randint(0, n // 2)):
        i, j = rng.sample(range(n), 2)
        if [i, j] not in bonds and [j, i] not in bonds:
            bonds.append([i, j])
    k = rng.randint(1, 3) if parent == "Conformer" else 1
    mode = rng.choice(VIEW_MODES)
    nested, sel_as = None, rng.choice(["int", "int", "atom"])
    some = lambda lo: rng.sample(range(n), rng.randint(lo, n))
    if mode == "ascending":
        sel = sorted(some(1))
    elif mode == "permuted":
        sel = some(2)
        if sel == sorted(sel):
            sel.reverse()
    elif mode == "reversed":
        sel = sorted(some(2))[::-1]
    elif mode == "full-permutation":
        sel = list(range(n))
        rng.shuffle(sel)
        if sel == sorted(sel):
            sel.reverse()
    elif mode == "repeated":
        base = some(1)
        sel = base + [rng.choice(base) for _ in range(rng.randint(1, 2))]
        rng.shuffle(sel)
    elif mode == "bfs":
        sel = _bfs_order(n, bonds, rng.randrange(n))
        sel_as = "atom"
    elif mode == "heavy":
        syms[rng.randrange(n)] = "H"
        sel = [i for i in range(n) if syms[i] != "H"]
        sel_as = "heavy"
    elif mode == "nested":
        outer = some(2)
        inner = rng.sample(range(len(outer)), rng.randint(1, len(outer)))
        nested = [outer, inner]
        sel = [outer[j] for j in inner]
    else:
        sel = []
    spec = {"parent": parent, "name": rng.choice(c10.NAMES), "syms": syms, "bonds": bonds,
            "frames": [[trip() for _ in range(n)] for _ in range(k)], "frame": rng.randrange(k),
            "mode": mode, "sel": sel, "sel_as": sel_as, "nested": nested,
            "unit": rng.choice([u for u in PHYS if PHYS[u] != 1.0]) if rng.random() < 0.25 else None, "steps": []}
    steps = spec["steps"]
    how = lambda: rng.choice(VIEW_HOW)
    steps.append(["write_view", how()])
    for _ in range(rng.randint(0, 2)):
        for _ in range(rng.randint(1, 2)):
            ops = ["set_row", "set_row", "set_elem"]
            if nested is None and sel:
                ops += ["view_assign", "view_assign", "view_scale", "view_translate"]
            op = rng.choice(ops)
            if op == "set_row":
                steps.append([op, rng.choice(sel) if sel and rng.random() < 0.7 else rng.randrange(n), trip()])
            elif op == "set_elem":
                steps.append([op, rng.choice(sel) if sel and rng.random() < 0.7 else rng.randrange(n), rng.choice(c10.ELEMS)])
            elif op == "view_assign":
                rows = {i: trip() for i in set(sel)}              # one row per parent atom: consistent where an index repeats
                steps.append([op, [rows[i] for i in sel]])
            elif op == "view_scale":
                steps.append([op, rng.choice([2.0, 0.5, 1.8897259886, 0.01, 10.0])])
            else:
                steps.append([op, [float(rng.randint(-3, 3)), 0.25, -1.5]])
        steps.append(["write_view", how()])
        if rng.random() < 0.6:
            steps.append(["write_parent", rng.choice(VIEW_HOW[:3])])
    return spec


def view_order_class(sel):
    if not sel:
        return "empty"
    if len(set(sel)) < len(sel):
        return "index-repeated"
    return "ascending" if sel == sorted(sel) else "not-ascending"


def _comment(g):
    return f"{g.name}" if hasattr(g, "name") else f"{type(g)}"


def exec_view(ml, ctx, spec):
    """Drives the real classes.  Returns (writes, applied steps in model form, view comment, parent comment).  The state every
    write is judged against is kept HERE, in plain lists, from the spec alone -- never read back from the view."""
    import numpy as np
    from molli.chem import Molecule, Structure, ConformerEnsemble, Atom, Element
    n = len(spec["syms"])
    cls = Structure if spec["parent"] == "Structure" else Molecule
    base = cls(n_atoms=0, name=spec["name"])
    for sym, c in zip(spec["syms"], spec["frames"][spec["frame"] if spec["parent"] != "Conformer" else 0]):
        base.add_atom(Atom(sym), c)
    for i, j in spec["bonds"]:
        base.connect(base.atoms[i], base.atoms[j])
    if spec["parent"] == "Conformer":
        ens = ConformerEnsemble(base, n_conformers=len(spec["frames"]))
        ens.coords = np.array(spec["frames"], dtype=float).reshape(len(spec["frames"]), n, 3)
        par = ens[spec["frame"]]
    else:
        par = base
    pick = lambda g, idx, how: g.substructure([g.atoms[i] for i in idx] if how == "atom" else list(idx))
    if spec["sel_as"] == "heavy":
        view = par.heavy
    elif spec["nested"]:
        view = pick(pick(par, spec["nested"][0], spec["sel_as"]), spec["nested"][1], spec["sel_as"])
    else:
        view = pick(par, spec["sel"], spec["sel_as"])
    sel = list(spec["sel"])
    elems = [int(Element.get(s).z) for s in spec["syms"]]
    rows = [[float(x) for x in r] for r in spec["frames"][spec["frame"]]]

    def text_of(g, how):
        if how == "dumps_xyz":
            return g.dumps_xyz()
        if how == "ml.dumps":
            return ml.dumps(g, "xyz")
        if how == "dump_xyz:stream":
            buf = io.StringIO()
            g.dump_xyz(buf)
            return buf.getvalue()
        path = os.path.join(ctx.sub("view"), "written.xyz")
        with open(path, "w") as f:
            g.dump_xyz(f)
        return open(path).read()

    writes, applied = [], []
    for st in spec["steps"]:
        op = st[0]
        if op in ("write_view", "write_parent"):
            g = view if op == "write_view" else par
            idx = sel if op == "write_view" else list(range(n))
            orig = [([elems[i] for i in idx], [False] * len(idx), [tuple(rows[i]) for i in idx])]
            try:
                txt, err = text_of(g, st[1]), None
            except Exception as e:  # noqa: judged by the oracle
                txt, err = None, type(e).__name__
            writes.append({"text": txt, "error": err, "orig": orig, "step": st})
            applied.append("VWriteView" if op == "write_view" else "VWriteParent")
        elif op == "set_row":
            par.coords[st[1]] = st[2]
            rows[st[1]] = [float(x) for x in st[2]]
            applied.append(f"(VEdit (VSetRow {cq_nat(st[1])} {trip_term(st[2])}))")
        elif op == "set_elem":
            par.atoms[st[1]].element = Element.get(st[2])
            elems[st[1]] = int(Element.get(st[2]).z)
            applied.append(f"(VEdit (VSetElem {cq_nat(st[1])} {cq_Z(elems[st[1]])}))")
        else:
            if op == "view_assign":
                view.coords = np.array(st[1], dtype=float).reshape(-1, 3)
                new = {i: [float(x) for x in r] for i, r in zip(sel, st[1])}
            elif op == "view_scale":
                view.scale(st[1])
                new = {i: [x * st[1] for x in rows[i]] for i in set(sel)}
            else:
                view.translate(st[1])
                new = {i: [x + v for x, v in zip(rows[i], st[1])] for i in set(sel)}
            for i, r in new.items():
                rows[i] = r
            applied.append(f"(VEdit (VAssign {cq_list(trip_term(rows[i]) for i in sel)}))")
    return writes, applied, _comment(view), _comment(par)


def view_unit_read(ml, ctx, text, uname, which):
    from molli.chem import Molecule, Structure, CartesianGeometry
    if which == "Molecule.loads_xyz":
        g = Molecule.loads_xyz(text, source_units=uname)
    elif which == "Structure.loads_all_xyz":
        g = Structure.loads_all_xyz(text, source_units=uname)[0]
    elif which == "CartesianGeometry.load_xyz:stream":
        g = CartesianGeometry.load_xyz(io.StringIO(text), source_units=uname)
    else:
        path = os.path.join(ctx.sub("view"), "unit.xyz")
        with open(path, "w") as f:
            f.write(text)
        g = Molecule.load_all_xyz(path, source_units=uname)[0]
    return [int(a.element.z) for a in g.atoms], [[float(x) for x in c] for c in g.coords]


def judge_view(ml, ctx, spec, writes):
    """Oracle: every text reads back as the selection (in selection order) of the parent's state at that moment; and, when the
    parent's numbers are declared to be in another unit, the view's text read with source_units=U comes back in Angstrom."""
    cls = view_order_class(spec["sel"])
    for n, w in enumerate(writes):
        what = "view" if w["step"][0] == "write_view" else "view-parent"
        where = (f"write #{n} ({w['step'][0]} by {w['step'][1]}) of a Substructure over atoms {spec['sel']} ({spec['mode']}, {cls}) "
                 f"of a {spec['parent']} of {len(spec['syms'])} atoms")
        if w["text"] is None:
            return (f"C08:xyz:{what}:cannot-write:{w['error']}", f"{where}: the writer raised {w['error']}")
        v = judge_roundtrip(f"xyz:{what}", w["orig"], c10.observe(ml, "xyz", w["text"]))
        if v:
            return (v[0], f"{where}: {v[1]}")
        v = judge_text(ml, w["text"], w["orig"])
        if v:
            return (v[0].replace("C08:xyz:size:text", f"C08:xyz:{what}:text"), f"{where}: {v[1]}")
        if spec["unit"] and what == "view":
            u, f = spec["unit"], PHYS[spec["unit"]]
            which = VIEW_UNIT_READERS[n % len(VIEW_UNIT_READERS)]
            r = c10.run_limited(lambda: view_unit_read(ml, ctx, w["text"], u, which))
            if r[0] != "ok":
                return (f"C08:units:view:{u}:{r[0]}", f"{where}: {which}(source_units={u!r}) failed: {r[1]}")
            el, co = r[1]
            want_el, _du, want = w["orig"][0]
            if el != want_el or len(co) != len(want):
                return (f"C08:units:view:{u}:elements", f"{where}: {which}(source_units={u!r}) returned elements {el}, written {want_el}")
            for i, (p, q) in enumerate(zip(want, co)):
                for a, b in zip(p, q):
                    if not abs(a / f - b) <= 0.5000001e-6 / f + 2e-5 * abs(a / f) + 1e-12:
                        return (f"C08:units:view:{u}:distances-changed",
                                f"{where}, the parent's numbers being {u} (1 A = {f} {u}): atom {i} written {a!r} {u}, "
                                f"{which}(source_units={u!r}) returned {b!r} A, expected {a / f!r}")
    return None


def view_term(ml, spec, writes, applied, vname, pname):
    from molli.chem import Element
    outs = []
    for w in writes:
        if w["text"] is None:
            return None
        lines = c10.to_lines(w["text"])
        if not all(all(32 <= ord(c) < 127 for c in l) for l in lines):
            return None
        outs.append(c10.lines_term(lines))
    atoms = cq_list(f"(mk_watom {cq_Z(int(Element.get(s).z))} {dec_term(float(c[0]))} {dec_term(float(c[1]))} {dec_term(float(c[2]))})"
                    for s, c in zip(spec["syms"], spec["frames"][spec["frame"]]))
    return (f"(s2l {cq_str(vname)}, {cq_list(cq_nat(i) for i in spec['sel'])}, (mk_wgeom (s2l {cq_str(pname)}) {atoms}), "
            f"{cq_list(applied)}, {cq_list(outs)})")


def run_views(ml, ctx, rep, n_views):
    rng = ctx.rng
    vcases, vspecs = [], []
    for _ in range(n_views):
        spec = gen_view(rng)
        r = c10.run_limited(lambda: exec_view(ml, ctx, spec), limit=20)
        cls = view_order_class(spec["sel"])
        rep.case(key="view:" + json.dumps([spec["parent"], spec["syms"], spec["sel"], spec["sel_as"], spec["nested"], spec["unit"],
                                           spec["frames"][spec["frame"]][:2], [s[:2] for s in spec["steps"]]], sort_keys=True),
                 sample={"kind": "view", "parent": spec["parent"], "mode": spec["mode"], "sel": spec["sel"], "unit": spec["unit"],
                         "steps": [s[0] for s in spec["steps"]]})
        rep.count(f"view:parent={spec['parent']}")
        rep.count(f"view:selection={spec['mode']}")
        rep.count(f"view:order={cls}")
        rep.count(f"view:given-as={spec['sel_as']}")
        rep.count(f"view:unit={spec['unit'] or 'Angstrom'}")
        for st in spec["steps"]:
            rep.count(f"view:step:{st[0]}" + (f":{st[1]}" if st[0].startswith("write") else ""))
        if any(s[0].startswith("view_") for s in spec["steps"]) and cls != "ascending":
            rep.count("view:edited-through-a-view-not-in-parent-order")
        if r[0] != "ok":
            rep.violate(f"C08:xyz:view:{r[0]}:{r[1] if r[0] == 'err' else 'no-termination'}",
                        f"a session on a Substructure over atoms {spec['sel']} ({spec['mode']}) of a {spec['parent']} did not complete: {r[1]}",
                        {"kind": "view", "spec": spec})
            continue
        writes, applied, vname, pname = r[1]
        v = judge_view(ml, ctx, spec, writes)
        if v:
            rep.violate(v[0], v[1], {"kind": "view", "spec": spec})
        term = view_term(ml, spec, writes, applied, vname, pname)
        if term is not None:
            vcases.append(term)
            vspecs.append(spec)
    return vcases, vspecs


HEAD_V = ("From Coq Require Import List ZArith NArith QArith String Ascii.\n"
          "From Molli Require Import Common.ParseStr Model.Parse Model.XyzText Model.XyzEdit Model.XyzView Gen.XyzElements.\n"
          "Import ListNotations.\nOpen Scope string_scope.\n")


# ------------------------------------------------------------------ main
HEAD = ("From Coq Require Import List ZArith NArith QArith String Ascii.\n"
        "From Molli Require Import Common.ParseStr Model.Parse Model.XyzText Gen.XyzElements.\n"
        "Import ListNotations.\nOpen Scope string_scope.\n")


HEAD_S = ("From Coq Require Import List ZArith NArith QArith String Ascii.\n"
          "From Molli Require Import Common.ParseStr Model.Parse Model.XyzText Model.XyzEdit Gen.XyzElements.\n"
          "Import ListNotations.\nOpen Scope string_scope.\n")


def run(ctx, rep):
    warnings.simplefilter("ignore")
    import molli as ml
    from molli.chem import Molecule, ConformerEnsemble, Atom, Element, AtomType
    rng = ctx.rng
    rep.rule = ("random geometries (0..6 atoms, all kinds of coordinates, dummy atoms) and ensembles (1..4 frames) written by "
                "dumps_xyz and read back; writer text and reader result compared with the model inside Coq; write/edit/write "
                "sessions on one object (ensembles, conformers held across edits, the three geometry classes; element / swap / "
                "coordinate / frame / name / add / delete / append edits; three ways of writing), every write judged against the "
                "state at that moment and compared with the model's own state evolution inside Coq; every DistanceUnit member "
                "(aliases included) x {xyz, mol2} x every class-level reader entry point (str / path / stream) x target class "
                "(library classes, user subclasses, ensemble) x charge-type header, every returned block compared; SIZE family: "
                "pattern geometries (Model/XyzSize.v) with atom counts / frame counts at and around powers of two, decimal powers "
                "and their multiples (up to 4097 quick, 16385 thorough), every count 0..260 (0..1300 thorough), random counts, as "
                "single geometries of the three classes, ensembles (atoms x frames, and products), and multi-frame texts, written "
                "in five ways, judged as text (count line / records / tokens per frame), read back through every xyz entry point "
                "(first-frame, all-frames, ensemble; str / path / stream / top-level), and compared with the model inside Coq "
                "within a literal budget; VIEW family: Substructures over a Molecule / Structure / Conformer of 2..8 atoms whose atoms were "
                "selected ascending / permuted / reversed / as a whole permutation / with an index repeated / in breadth-first order "
                "/ by `heavy` / as a substructure of a substructure / empty, given as indices or Atom objects, written five ways, the "
                "parent edited directly and through the view (assign / scale / translate) and both written again, every text judged "
                "against the selection of the state kept by the harness, a quarter re-read with source_units=U, all compared with "
                "Model/XyzView.v inside Coq; distinct by written text / session / unit cell / size spec / view spec")
    rep.trusted += ["harness/c08.py: T-emitters for DistanceUnit / Element, the ast extractor of the scale(...) argument and of the paths of the block loop to its yield (fail-closed; conditions other than the unit guard are opaque), "
                    "exact micro-unit rounding of written coordinates (fractions)",
                    "CPython: format(x, '12.6f') and float() are correctly rounded; str.split / int() (modelled for ASCII)",
                    "CartesianGeometry.scale multiplies the coordinates by its argument (observed by the unit oracle, not proved)",
                    "session edits are applied through molli's public accessors (atoms[i].element, coords rows, name, add_atom, "
                    "del_atom, ConformerEnsemble.append); the state a write is judged against is read from the same object",
                    "size family: harness/c08.py pat_elem / pat_dec expand the pattern of Model/XyzSize.v (each value checked exactly, in "
                    "integers, to have the pattern's micro-unit as its nearest); shard literals of the size family are packed into machine "
                    "integers (Model/XyzSize.v unpack_case decodes them before the model sees them); the text oracle (text_frames / "
                    "judge_text) uses only str.split, int() and float()",
                    "view family: the parent's state a view is judged against is kept by the harness in plain lists (spec + edits; "
                    "scale / translate as one IEEE multiplication / addition per number), never read back through the view"]
    rep.assumptions += ["ASCII names without line breaks", "coordinates are finite floats",
                        "physical unit values used by the oracle and by C08_unit_values: 1 A = 1.8897259886 Bohr = 100 pm = 0.1 nm = 1e5 fm"]
    # --- regenerate Gen (T, S)
    c10.regen_elements(ml)
    refusal = None
    with vlib.CoqLock():
        vlib.write_if_changed(os.path.join(vlib.COQ, "Gen", "Units.v"), gen_units_text(ml))
        try:
            vlib.write_if_changed(os.path.join(vlib.COQ, "Gen", "ScaleExpr.v"), gen_scale_text())
        except (Refuse, SyntaxError, OSError) as e:
            refusal = str(e)
    ok, out, where = vlib.build_props(ctx, rep, "C08")
    # --- units oracle (also the search when the S/T obligations break)
    found = judge_units(ml, ctx, rep, rng)
    rep.oblig("S-extraction:scale-argument", not refusal)      # a refusal is judged at the end, after every family has run
    props_broken = None if ok else f"{where}\n{out[-1500:]}"      # judged at the end: the families below still run
    # --- writer / reader correspondence
    objs = []
    n_obj = 220 if not ctx.thorough else 1500
    for i in range(n_obj):
        if rng.random() < 0.3:
            objs.append(("ens", rand_ensemble(ml, rng)))
        else:
            m = c10.rand_molecule(ml, rng, n=(0 if rng.random() < 0.08 else rng.randint(1, 6)),
                                  elems=[e.symbol for e in Element] if rng.random() < 0.3 else None)
            if m.n_atoms and rng.random() < 0.1:
                m.atoms[0].atype = AtomType.Dummy
                if rng.random() < 0.5:
                    m.atoms[0].element = Element.Unknown
            objs.append(("mol", m))
    # multi-frame texts whose frames are DIFFERENT geometries: same count with permuted / different elements, different
    # counts, mixtures -- written frame by frame from distinct objects of the three geometry classes
    from molli.chem import CartesianGeometry, Structure
    perm_sets = [["O", "H", "H"], ["H", "O", "H"], ["H", "H", "O"], ["S", "H", "H"], ["H", "H", "S"], ["C", "N"], ["N", "C"],
                 ["Cl"], ["Br"], ["F", "Cl", "Br", "I"], ["I", "Br", "Cl", "F"]]
    for i in range(60 if not ctx.thorough else 400):
        k = rng.randint(2, 4)
        frames = []
        mode = rng.choice(["perm", "perm", "mixed", "rand"])
        base = rng.choice(perm_sets)
        for j in range(k):
            if mode == "perm":
                syms = rng.choice([q for q in perm_sets if len(q) == len(base)])
            elif mode == "mixed":
                syms = rng.choice(perm_sets)
            else:
                syms = [rng.choice(c10.ELEMS) for _ in range(rng.randint(0, 4))]
            cls = rng.choice([Molecule, Structure, CartesianGeometry])
            g = cls(n_atoms=0, name=rng.choice(c10.NAMES))
            for sym in syms:
                g.add_atom(Atom(sym), [c10.rand_coord(rng) for _ in range(3)])
            frames.append(g)
        objs.append(("multi", frames))
    for p in ("dendrobine_xyz", "pentane_confs_xyz"):
        ms = Molecule.load_all_xyz(getattr(ml.files, p))
        objs.append(("mol", ms[0]))
    wcases, rcases, table, bases, meta = [], [], c10.MolTable(), [], []
    for kind, o in objs:
        text = "".join(f.dumps_xyz() for f in o) if kind == "multi" else o.dumps_xyz()
        lines = c10.to_lines(text)
        if not all(all(32 <= ord(c) < 127 for c in l) for l in lines):
            continue
        frames = [o] if kind == "mol" else list(o)
        orig = [([int(a.element.z) for a in f.atoms], [a.atype.name == "Dummy" for a in f.atoms],
                 [tuple(float(x) for x in c) for c in f.coords]) for f in frames]
        wcases.append(f"({cq_list(wgeom_term(f) for f in frames)}, {c10.lines_term(lines)})")
        back = c10.observe(ml, "xyz", text)
        if kind == "ens" and back[0] == "ok":
            eb = c10.run_limited(lambda: ConformerEnsemble.loads_xyz(text))
            if eb[0] != "ok" or eb[1].n_conformers != len(frames):
                rep.violate("C08:xyz:ensemble-frames", f"ensemble of {len(frames)} frames read back as {eb}", {"kind": "ens", "text": text})
        v = judge_roundtrip("xyz", orig, back)
        if kind == "multi" and not v:
            # the same text through every multi-frame entry point (class-level and top-level)
            for api, fn in multi_readers(ml, ctx, text):
                rb = c10.run_limited(fn)
                rep.count(f"multi:{api}")
                v = judge_roundtrip(f"xyz:{api}", orig, rb)
                if v:
                    break
        rep.case(key="rt:" + text, sample={"kind": kind, "frames": len(frames), "atoms": len(orig[0][0]), "text": text[:120]})
        rep.count(f"roundtrip:{kind}:frames={len(frames)}")
        if kind == "multi":
            els = [tuple(f[0]) for f in orig]
            rep.count("multi:" + ("same-count-different-order" if len({len(e) for e in els}) == 1 and len(set(els)) > 1
                                  else "different-counts" if len({len(e) for e in els}) > 1 else "identical-elements"))
        rep.count(f"roundtrip:atoms={min(len(orig[0][0]), 6)}")
        if v:
            rep.violate(v[0], v[1], {"kind": "roundtrip", "text": text, "orig": orig})
        if back[0] != "hang":
            rcases.append(f"({cq_nat(len(bases))}, DNone, {c10.obs_term(back, table)})")
            bases.append(lines)
    bad = vlib.run_shards(ctx, rep, "write", HEAD, "(chk_xyz_write element_symbols)", wcases, shard=150)
    head_r = c10.header_for("xyz", bases, table)
    bad2 = vlib.run_shards(ctx, rep, "read", head_r, "chk", rcases, shard=150)
    # --- write / edit / write sessions on one object: oracle + the model's own state evolution inside Coq
    scases, sspecs = run_sessions(ml, ctx, rep, 140 if not ctx.thorough else 1200)
    bad3 = vlib.run_shards(ctx, rep, "session", HEAD_S, "(chk_xyz_session element_symbols)", scases, shard=70)
    # --- VIEW family: written objects that are selections of a parent, in selection order
    vcases, vspecs = run_views(ml, ctx, rep, 260 if not ctx.thorough else 2500)
    bad5 = vlib.run_shards(ctx, rep, "view", HEAD_V, "(chk_xyz_view element_symbols)", vcases, shard=90)
    # --- SIZE family: atom / frame counts at and around block lengths
    zbins, zspecs = run_size(ml, ctx, rep)
    bad4 = vlib.run_shards(ctx, rep, "size", HEAD_Z, "(chk_xyz_size_packed element_symbols element_names)", zbins, shard=1,
                           case_type="list pcase")
    has_size = any(v.sig.startswith("C08:xyz:size") for v in rep.violations)
    if bad4 is None:
        vlib.broken_obligation(rep, "corr_size", json.dumps(rep.extra.get("shard_errors", ""))[-1500:], has_size)
    elif bad4:
        for i in bad4[:10]:
            rep.violate("C08:xyz:model-mismatch:size", f"model and implementation disagree on a case of the size family (shard {i}: "
                        + "; ".join(size_describe(s) for s in zspecs[i][:5]) + ", ...)",
                        {"kind": "size-shard", "specs": zspecs[i][:40]}, no_input=not has_size)
    has_view = any(v.sig.startswith(("C08:xyz:view", "C08:units:view")) for v in rep.violations)
    if bad5 is None:
        vlib.broken_obligation(rep, "corr_view", json.dumps(rep.extra.get("shard_errors", ""))[-1500:], has_view)
    elif bad5:
        for i in bad5[:10]:
            rep.violate("C08:xyz:model-mismatch:view", f"model and implementation disagree on a text written in view session {i}: "
                        + json.dumps(vspecs[i])[:400], {"kind": "view", "spec": vspecs[i]}, no_input=not has_view)
    if bad3 is None:
        vlib.broken_obligation(rep, "corr_session", json.dumps(rep.extra.get("shard_errors", ""))[-1500:],
                               any(v.sig.startswith("C08:xyz:session") for v in rep.violations))
    elif bad3:
        has = any(v.sig.startswith("C08:xyz:session") for v in rep.violations)
        for i in bad3[:10]:
            rep.violate("C08:xyz:model-mismatch:session", f"model and implementation disagree on a text written in session {i}: "
                        + json.dumps(sspecs[i])[:400], {"kind": "session", "spec": sspecs[i]}, no_input=not has)
    for nm, b in (("write", bad), ("read", bad2)):
        if b is None:
            vlib.broken_obligation(rep, f"corr_{nm}", json.dumps(rep.extra.get("shard_errors", ""))[-1500:], found)
        elif b:
            has = any(v.sig.startswith("C08:xyz") for v in rep.violations)
            for i in b[:10]:
                rep.violate(f"C08:xyz:model-mismatch:{nm}", f"model and implementation disagree on the {nm} side of case {i}: "
                            + (wcases[i][:300] if nm == "write" else rcases[i][:300]), {"kind": nm, "index": i}, no_input=not has)
    if refusal:
        vlib.broken_obligation(rep, "C08_units(S-extraction)", refusal, found or any(not v.no_input for v in rep.violations))
    if props_broken:
        vlib.broken_obligation(rep, "C08_props", props_broken, found or any(not v.no_input for v in rep.violations))
    return confirm_known(ml)


def confirm_known(ml):
    from molli.chem import Molecule, Atom, Element, AtomType
    m = Molecule(n_atoms=0, name="d")
    m.add_atom(Atom(Element.Unknown, atype=AtomType.Dummy), [0.0, 0.0, 0.0])
    text = m.dumps_xyz()
    back = c10.observe(ml, "xyz", text)
    v = judge_roundtrip("xyz", [([0], [True], [(0.0, 0.0, 0.0)])], back)
    return [v[0]] if v and v[0] == "C08:xyz:dummy-atype-lost" else []


def replay(ctx, data):
    warnings.simplefilter("ignore")
    import molli as ml
    out = []
    if data.get("kind") == "units":
        cell = tuple(data["cell"])
        v = unit_judge_cell(ml, ctx, cell)
        if v:
            out.append(vlib.Violation(f"C08:units:{cell[0]}:{cell[4]}:{v[0]}", f"{cell}: {v[1]}"))
    elif data.get("kind") == "session":
        r = c10.run_limited(lambda: exec_session(ml, data["spec"]), limit=20)
        if r[0] != "ok":
            out.append(vlib.Violation(f"C08:xyz:session:{r[0]}", str(r[1])))
        else:
            v = judge_session(ml, data["spec"], r[1][0])
            if v:
                out.append(vlib.Violation(v[0], v[1]))
    elif data.get("kind") == "view":
        r = c10.run_limited(lambda: exec_view(ml, ctx, data["spec"]), limit=20)
        if r[0] != "ok":
            out.append(vlib.Violation(f"C08:xyz:view:{r[0]}:{r[1] if r[0] == 'err' else 'no-termination'}", str(r[1])))
        else:
            v = judge_view(ml, ctx, data["spec"], r[1][0])
            if v:
                out.append(vlib.Violation(v[0], v[1]))
    elif data.get("kind") in ("size", "size-shard"):
        for spec in ([data["spec"]] if data["kind"] == "size" else data["specs"]):
            v, _text, _obs, _used = size_case(ml, ctx, spec)
            if v:
                out.append(vlib.Violation(v[0], f"{size_describe(spec)}: {v[1]}"))
    elif data.get("kind") == "roundtrip":
        text = data["text"]
        back = c10.observe(ml, "xyz", text)
        orig = [(el, du, [tuple(c) for c in co]) for el, du, co in data.get("orig", [])]
        v = judge_roundtrip("xyz", orig, back) if orig else (("C08:xyz:cannot-read-back", str(back)) if back[0] != "ok" else None)
        if v:
            out.append(vlib.Violation(v[0], v[1]))
    return out
