"""C08 -- xyz round trip and unit handling.

Ties:
  T  Gen/XyzElements.v (Element[name], Element(z).symbol), Gen/Units.v (DistanceUnit members incl. aliases)
  S  Gen/ScaleExpr.v: fail-closed ast extraction of the argument of the `scale(...)` call guarded by
     `DistanceUnit[source_units] != DistanceUnit.Angstrom` in yield_from_xyz and yield_from_mol2
  H  writer: random geometries / ensembles -> dumps_xyz compared character by character with the model's
     text inside Coq; reader: the written text read back by loads_all_xyz compared with the model inside Coq.
Oracle: round trip (count, order, elements, coordinates to the written precision, frame by frame), and for
every DistanceUnit member a geometry expressed in that unit (physical constants, not the table) read with
source_units=U by the xyz and the mol2 reader must come back in Angstrom.
"""
import ast, io, os, math, inspect, json, warnings
from fractions import Fraction
import vlib
from vlib import cq_str, cq_list, cq_Z, cq_nat, cq_Q
import c10

# units per Angstrom, from the definitions of the units (NOT from molli)
PHYS = {"A": 1.0, "Angstrom": 1.0, "Bohr": 1.8897259886, "au": 1.8897259886, "pm": 100.0, "nm": 0.1, "fm": 1.0e5}


# ------------------------------------------------------------------ tie T: units table
def gen_units_text(ml):
    from molli.chem.geometry import DistanceUnit
    rows = []
    for n, m in DistanceUnit.__members__.items():
        rows.append(f"  ({cq_str(n)}, {cq_Q(Fraction(float(m.value)))}, {'true' if m is DistanceUnit.Angstrom else 'false'})")
    return ("(* regenerated from molli.chem.geometry.DistanceUnit on every run (tie T): member name (aliases included),\n"
            "   value, member-is-DistanceUnit.Angstrom *)\n"
            "From Coq Require Import List ZArith QArith String.\nImport ListNotations.\nLocal Open Scope string_scope.\n"
            "Definition units : list (string * Q * bool) := [\n" + ";\n".join(rows) + "\n].\n")


# ------------------------------------------------------------------ tie S: scale expression
class Refuse(Exception):
    pass


def _is_unit_lookup(n):
    return (isinstance(n, ast.Subscript) and isinstance(n.value, ast.Name) and n.value.id == "DistanceUnit"
            and isinstance(n.slice, ast.Name) and n.slice.id == "source_units")


def _is_angstrom(n):
    return (isinstance(n, ast.Attribute) and isinstance(n.value, ast.Name) and n.value.id == "DistanceUnit"
            and n.attr in ("Angstrom", "A"))


def _expr(n):
    if isinstance(n, ast.Attribute) and n.attr == "value" and _is_unit_lookup(n.value):
        return "SVal"
    if isinstance(n, ast.Constant) and isinstance(n.value, (int, float)) and not isinstance(n.value, bool):
        return f"(SConst {cq_Q(Fraction(n.value))})"
    if isinstance(n, ast.UnaryOp) and isinstance(n.op, ast.USub) and isinstance(n.operand, ast.Constant):
        return f"(SConst {cq_Q(-Fraction(n.operand.value))})"
    if isinstance(n, ast.BinOp) and isinstance(n.op, ast.Mult):
        return f"(SMul {_expr(n.left)} {_expr(n.right)})"
    if isinstance(n, ast.BinOp) and isinstance(n.op, ast.Div):
        return f"(SDiv {_expr(n.left)} {_expr(n.right)})"
    if isinstance(n, ast.BinOp) and isinstance(n.op, ast.Pow):
        r = n.right
        if (isinstance(r, ast.UnaryOp) and isinstance(r.op, ast.USub) and isinstance(r.operand, ast.Constant)
                and r.operand.value == 1) or (isinstance(r, ast.Constant) and r.value == -1):
            return f"(SInv {_expr(n.left)})"
    raise Refuse("scale argument outside the grammar: " + ast.dump(n)[:200])


def extract_scale(path, funcname):
    """Returns (coq sexpr, guarded: bool). Raises Refuse on anything outside the grammar."""
    tree = ast.parse(open(path).read())
    fns = [n for n in ast.walk(tree) if isinstance(n, ast.FunctionDef) and n.name == funcname]
    if len(fns) != 1:
        raise Refuse(f"{funcname}: {len(fns)} definitions")
    fn = fns[0]
    calls = [n for n in ast.walk(fn) if isinstance(n, ast.Call) and isinstance(n.func, ast.Attribute) and n.func.attr == "scale"]
    if len(calls) != 1:
        raise Refuse(f"{funcname}: {len(calls)} scale(...) calls (exactly one expected)")
    call = calls[0]
    if len(call.args) != 1 or call.keywords or not isinstance(call.func.value, ast.Name):
        raise Refuse(f"{funcname}: scale call shape")
    target = call.func.value.id
    yields = [n for n in ast.walk(fn) if isinstance(n, ast.Yield)]
    if not yields or not all(isinstance(y.value, ast.Name) and y.value.id == target for y in yields):
        raise Refuse(f"{funcname}: the scaled object is not the yielded one")
    # the statement holding the call: either directly in the for-body or the only statement of the unit guard
    guarded = None
    for n in ast.walk(fn):
        if isinstance(n, ast.If) and any(c is call for s in n.body + n.orelse for c in ast.walk(s)):
            t = n.test
            ok = (isinstance(t, ast.Compare) and len(t.ops) == 1 and isinstance(t.ops[0], (ast.NotEq, ast.IsNot))
                  and ((_is_unit_lookup(t.left) and _is_angstrom(t.comparators[0]))
                       or (_is_angstrom(t.left) and _is_unit_lookup(t.comparators[0]))))
            if not ok or n.orelse or len(n.body) != 1 or not (isinstance(n.body[0], ast.Expr) and n.body[0].value is call):
                raise Refuse(f"{funcname}: guard of the scale call is not `DistanceUnit[source_units] != DistanceUnit.Angstrom`")
            if guarded is not None:
                raise Refuse(f"{funcname}: nested guards")
            guarded = True
    if guarded is None:
        guarded = False
    # source_units must not be rebound, DistanceUnit must be the enum of geometry.py
    for n in ast.walk(fn):
        if isinstance(n, (ast.Assign, ast.AugAssign, ast.AnnAssign)):
            tg = n.targets if isinstance(n, ast.Assign) else [n.target]
            for t in tg:
                if isinstance(t, ast.Name) and t.id in ("source_units", "DistanceUnit"):
                    raise Refuse(f"{funcname}: {t.id} rebound")
    return _expr(call.args[0]), guarded


def gen_scale_text():
    ex, gx = extract_scale(os.path.join(vlib.REPO, "molli/chem/geometry.py"), "yield_from_xyz")
    em, gm = extract_scale(os.path.join(vlib.REPO, "molli/chem/structure.py"), "yield_from_mol2")
    return ("(* regenerated by the fail-closed ast extractor of harness/c08.py on every run (tie S): the argument of the\n"
            "   scale(...) call in yield_from_xyz / yield_from_mol2 and whether it sits under the != Angstrom guard *)\n"
            "From Coq Require Import QArith.\nFrom Molli Require Import Model.XyzText.\n"
            f"Definition xyz_scale_expr : sexpr := {ex}.\nDefinition xyz_scale_guarded : bool := {'true' if gx else 'false'}.\n"
            f"Definition mol2_scale_expr : sexpr := {em}.\nDefinition mol2_scale_guarded : bool := {'true' if gm else 'false'}.\n")


# ------------------------------------------------------------------ writer side: micro-units
def dec_of(x):
    """(neg, mag) with format(x, '.6f') == ('-' if neg else '') + str(mag // 10**6) + '.' + six digits; exact."""
    fr = Fraction(x) * 10**6
    mag = abs(fr)
    q, r = divmod(mag.numerator, mag.denominator)
    if 2 * r > mag.denominator or (2 * r == mag.denominator and q % 2 == 1):
        q += 1
    return (math.copysign(1.0, x) < 0, q)


def dec_term(x):
    neg, mag = dec_of(x)
    return f"({'true' if neg else 'false'}, {mag}%N)"


def wgeom_term(m):
    atoms = cq_list(f"(mk_watom {cq_Z(int(a.element.z))} {dec_term(float(c[0]))} {dec_term(float(c[1]))} {dec_term(float(c[2]))})"
                    for a, c in zip(m.atoms, m.coords))
    name = f"{m.name}" if hasattr(m, "name") else f"{type(m)}"
    return f"(mk_wgeom (s2l {cq_str(name)}) {atoms})"


def rand_ensemble(ml, rng):
    from molli.chem import ConformerEnsemble
    m = c10.rand_molecule(ml, rng, n=rng.randint(1, 4), name=rng.choice(c10.NAMES))
    k = rng.randint(1, 4)
    e = ConformerEnsemble(m, n_conformers=k)
    import numpy as np
    e.coords = np.array([[[c10.rand_coord(rng) for _ in range(3)] for _ in range(m.n_atoms)] for _ in range(k)])
    return e


# ------------------------------------------------------------------ oracle
def judge_roundtrip(tag, orig, back):
    """orig: list of (elements, dummy flags, coords); back: outcome of loads_all_xyz."""
    if back[0] == "hang":
        return (f"C08:{tag}:no-termination", "reader did not return")
    if back[0] == "err":
        return (f"C08:{tag}:cannot-read-back:{back[1]}", f"text written by molli is rejected by its own reader: {back[1]}")
    ret = back[1]
    if len(ret) != len(orig):
        return (f"C08:{tag}:frame-count", f"{len(orig)} frame(s) written, {len(ret)} read back")
    for k, ((el, du, co), s) in enumerate(zip(orig, ret)):
        if s["n_atoms"] != len(el) or s["elems"] != el:
            return (f"C08:{tag}:elements", f"frame {k}: elements written {el[:8]} read {s['elems'][:8]}")
        for i, (p, q) in enumerate(zip(co, s["coords"])):
            for a, b in zip(p, q):
                if not abs(a - b) <= 0.5000001e-6 + 1e-12 * abs(a):
                    return (f"C08:{tag}:coordinates", f"frame {k} atom {i}: written {a!r} read {b!r}")
        if any(d and not e for d, e in zip(du, s["dummy"])):
            return ("C08:xyz:dummy-atype-lost", f"frame {k}: a dummy atom is written as {'Unknown'!r}-style symbol and read back as a regular atom")
    return None


def multi_readers(ml, ctx, text):
    """Every way of reading all frames of one xyz text."""
    from molli.chem import Molecule, Structure, CartesianGeometry
    path = os.path.join(ctx.sub("multi"), "frames.xyz")
    open(path, "w").write(text)
    sig = lambda ms: [c10.mol_sig(m) for m in ms]
    return [
        ("Molecule.load_all_xyz", lambda: sig(Molecule.load_all_xyz(path))),
        ("Structure.loads_all_xyz", lambda: sig(Structure.loads_all_xyz(text))),
        ("CartesianGeometry.yield_from_xyz", lambda: sig(list(CartesianGeometry.yield_from_xyz(io.StringIO(text))))),
        ("Molecule.yield_from_xyz", lambda: sig(list(Molecule.yield_from_xyz(io.StringIO(text))))),
        ("ml.load_all", lambda: sig(ml.load_all(path, "xyz"))),
        ("ml.loads_all", lambda: sig(ml.loads_all(text, "xyz"))),
    ]


def unit_cases(ml, rng):
    """(reader tag, unit name, callable returning coords array, expected coords)."""
    from molli.chem import Molecule, ConformerEnsemble
    from molli.chem.geometry import DistanceUnit, CartesianGeometry
    import numpy as np
    out = []
    base = c10.rand_molecule(ml, rng, n=3, name="u", elems=["C", "N", "O"])
    base.coords = np.array([[1.0, 0.0, 0.0], [0.0, -2.5, 0.25], [3.125, 4.0, -1.5]])
    if base.n_bonds == 0:
        base.connect(base.atoms[0], base.atoms[1])
    for uname in DistanceUnit.__members__:
        f = PHYS.get(uname)
        if f is None:
            continue
        m = Molecule(base)
        m.coords = base.coords * f
        tx, tm = m.dumps_xyz(), m.dumps_mol2()
        exp = base.coords
        out.append(("xyz", "loads_xyz", uname, (lambda tx=tx, u=uname: Molecule.loads_xyz(tx, source_units=u).coords), exp))
        out.append(("xyz", "loads_all_xyz", uname, (lambda tx=tx, u=uname: Molecule.loads_all_xyz(tx, source_units=u)[0].coords), exp))
        out.append(("xyz", "geometry", uname, (lambda tx=tx, u=uname: CartesianGeometry.loads_xyz(tx, source_units=u).coords), exp))
        out.append(("xyz", "ensemble", uname, (lambda tx=tx, u=uname: ConformerEnsemble.loads_xyz(tx + tx, source_units=u).coords[1]), exp))
        out.append(("mol2", "loads_mol2", uname, (lambda tm=tm, u=uname: Molecule.loads_mol2(tm, source_units=u).coords), exp))
        out.append(("mol2", "loads_all_mol2", uname, (lambda tm=tm, u=uname: Molecule.loads_all_mol2(tm, source_units=u)[0].coords), exp))
        out.append(("mol2", "ensemble", uname, (lambda tm=tm, u=uname: ConformerEnsemble.loads_mol2(tm + tm, source_units=u).coords[1]), exp))
    return out


def judge_units(ml, rep, rng):
    import numpy as np
    found = False
    for fmt, api, uname, fn, exp in unit_cases(ml, rng):
        rep.case(key=f"units:{fmt}:{api}:{uname}", sample={"reader": fmt, "api": api, "unit": uname})
        rep.count(f"units:{fmt}")
        r = c10.run_limited(fn)
        if r[0] != "ok":
            rep.violate(f"C08:units:{fmt}:{uname}:{r[0]}", f"{api}(..., source_units={uname!r}) failed: {r[1]}",
                        {"kind": "units", "fmt": fmt, "api": api, "unit": uname})
            found = True
            continue
        got = np.asarray(r[1], dtype=float)
        if got.shape != exp.shape or not np.allclose(got, exp, rtol=2e-5, atol=2e-6):
            rep.violate(f"C08:units:{fmt}:{uname}:distances-changed",
                        f"{api}: a geometry expressed in {uname} (1 A = {PHYS[uname]} {uname}) is not read back in Angstrom: "
                        f"expected {exp[0].tolist()} got {got[0].tolist() if got.size else got}",
                        {"kind": "units", "fmt": fmt, "api": api, "unit": uname})
            found = True
    return found


# ------------------------------------------------------------------ main
HEAD = ("From Coq Require Import List ZArith NArith QArith String Ascii.\n"
        "From Molli Require Import Common.ParseStr Model.Parse Model.XyzText Gen.XyzElements.\n"
        "Import ListNotations.\nOpen Scope string_scope.\n")


def run(ctx, rep):
    warnings.simplefilter("ignore")
    import molli as ml
    from molli.chem import Molecule, ConformerEnsemble, Atom, Element, AtomType
    rng = ctx.rng
    rep.rule = ("random geometries (0..6 atoms, all kinds of coordinates, dummy atoms) and ensembles (1..4 frames) written by "
                "dumps_xyz and read back; writer text and reader result compared with the model inside Coq; every "
                "DistanceUnit member x {xyz, mol2} x {loads, loads_all, geometry, ensemble}; distinct by written text / (reader, api, unit)")
    rep.trusted += ["harness/c08.py: T-emitters for DistanceUnit / Element, the ast extractor of the scale(...) argument (fail-closed), "
                    "exact micro-unit rounding of written coordinates (fractions)",
                    "CPython: format(x, '12.6f') and float() are correctly rounded; str.split / int() (modelled for ASCII)",
                    "CartesianGeometry.scale multiplies the coordinates by its argument (observed by the unit oracle, not proved)"]
    rep.assumptions += ["ASCII names without line breaks", "coordinates are finite floats",
                        "physical unit values used by the oracle and by C08_unit_values: 1 A = 1.8897259886 Bohr = 100 pm = 0.1 nm = 1e5 fm"]
    # --- regenerate Gen (T, S)
    c10.regen_elements(ml)
    refusal = None
    with vlib.CoqLock():
        vlib.write_if_changed(os.path.join(vlib.COQ, "Gen", "Units.v"), gen_units_text(ml))
        try:
            vlib.write_if_changed(os.path.join(vlib.COQ, "Gen", "ScaleExpr.v"), gen_scale_text())
        except (Refuse, SyntaxError, OSError) as e:
            refusal = str(e)
    ok, out, where = vlib.build_props(ctx, rep, "C08")
    # --- units oracle (also the search when the S/T obligations break)
    found = judge_units(ml, rep, rng)
    if refusal:
        rep.oblig("S-extraction:scale-argument", False)
        vlib.broken_obligation(rep, "C08_units(S-extraction)", refusal, found)
    else:
        rep.oblig("S-extraction:scale-argument", True)
    if not ok:
        vlib.broken_obligation(rep, "C08_props", f"{where}\n{out[-1500:]}", found)
        return
    # --- writer / reader correspondence
    objs = []
    n_obj = 220 if not ctx.thorough else 1500
    for i in range(n_obj):
        if rng.random() < 0.3:
            objs.append(("ens", rand_ensemble(ml, rng)))
        else:
            m = c10.rand_molecule(ml, rng, n=(0 if rng.random() < 0.08 else rng.randint(1, 6)),
                                  elems=[e.symbol for e in Element] if rng.random() < 0.3 else None)
            if m.n_atoms and rng.random() < 0.1:
                m.atoms[0].atype = AtomType.Dummy
                if rng.random() < 0.5:
                    m.atoms[0].element = Element.Unknown
            objs.append(("mol", m))
    # multi-frame texts whose frames are DIFFERENT geometries: same count with permuted / different elements, different
    # counts, mixtures -- written frame by frame from distinct objects of the three geometry classes
    from molli.chem import CartesianGeometry, Structure
    perm_sets = [["O", "H", "H"], ["H", "O", "H"], ["H", "H", "O"], ["S", "H", "H"], ["H", "H", "S"], ["C", "N"], ["N", "C"],
                 ["Cl"], ["Br"], ["F", "Cl", "Br", "I"], ["I", "Br", "Cl", "F"]]
    for i in range(60 if not ctx.thorough else 400):
        k = rng.randint(2, 4)
        frames = []
        mode = rng.choice(["perm", "perm", "mixed", "rand"])
        base = rng.choice(perm_sets)
        for j in range(k):
            if mode == "perm":
                syms = rng.choice([q for q in perm_sets if len(q) == len(base)])
            elif mode == "mixed":
                syms = rng.choice(perm_sets)
            else:
                syms = [rng.choice(c10.ELEMS) for _ in range(rng.randint(0, 4))]
            cls = rng.choice([Molecule, Structure, CartesianGeometry])
            g = cls(n_atoms=0, name=rng.choice(c10.NAMES))
            for sym in syms:
                g.add_atom(Atom(sym), [c10.rand_coord(rng) for _ in range(3)])
            frames.append(g)
        objs.append(("multi", frames))
    for p in ("dendrobine_xyz", "pentane_confs_xyz"):
        ms = Molecule.load_all_xyz(getattr(ml.files, p))
        objs.append(("mol", ms[0]))
    wcases, rcases, table, bases, meta = [], [], c10.MolTable(), [], []
    for kind, o in objs:
        text = "".join(f.dumps_xyz() for f in o) if kind == "multi" else o.dumps_xyz()
        lines = c10.to_lines(text)
        if not all(all(32 <= ord(c) < 127 for c in l) for l in lines):
            continue
        frames = [o] if kind == "mol" else list(o)
        orig = [([int(a.element.z) for a in f.atoms], [a.atype.name == "Dummy" for a in f.atoms],
                 [tuple(float(x) for x in c) for c in f.coords]) for f in frames]
        wcases.append(f"({cq_list(wgeom_term(f) for f in frames)}, {c10.lines_term(lines)})")
        back = c10.observe(ml, "xyz", text)
        if kind == "ens" and back[0] == "ok":
            eb = c10.run_limited(lambda: ConformerEnsemble.loads_xyz(text))
            if eb[0] != "ok" or eb[1].n_conformers != len(frames):
                rep.violate("C08:xyz:ensemble-frames", f"ensemble of {len(frames)} frames read back as {eb}", {"kind": "ens", "text": text})
        v = judge_roundtrip("xyz", orig, back)
        if kind == "multi" and not v:
            # the same text through every multi-frame entry point (class-level and top-level)
            for api, fn in multi_readers(ml, ctx, text):
                rb = c10.run_limited(fn)
                rep.count(f"multi:{api}")
                v = judge_roundtrip(f"xyz:{api}", orig, rb)
                if v:
                    break
        rep.case(key="rt:" + text, sample={"kind": kind, "frames": len(frames), "atoms": len(orig[0][0]), "text": text[:120]})
        rep.count(f"roundtrip:{kind}:frames={len(frames)}")
        if kind == "multi":
            els = [tuple(f[0]) for f in orig]
            rep.count("multi:" + ("same-count-different-order" if len({len(e) for e in els}) == 1 and len(set(els)) > 1
                                  else "different-counts" if len({len(e) for e in els}) > 1 else "identical-elements"))
        rep.count(f"roundtrip:atoms={min(len(orig[0][0]), 6)}")
        if v:
            rep.violate(v[0], v[1], {"kind": "roundtrip", "text": text, "orig": orig})
        if back[0] != "hang":
            rcases.append(f"({cq_nat(len(bases))}, DNone, {c10.obs_term(back, table)})")
            bases.append(lines)
    bad = vlib.run_shards(ctx, rep, "write", HEAD, "(chk_xyz_write element_symbols)", wcases, shard=150)
    head_r = c10.header_for("xyz", bases, table)
    bad2 = vlib.run_shards(ctx, rep, "read", head_r, "chk", rcases, shard=150)
    for nm, b in (("write", bad), ("read", bad2)):
        if b is None:
            vlib.broken_obligation(rep, f"corr_{nm}", json.dumps(rep.extra.get("shard_errors", ""))[-1500:], found)
        elif b:
            has = any(v.sig.startswith("C08:xyz") for v in rep.violations)
            for i in b[:10]:
                rep.violate(f"C08:xyz:model-mismatch:{nm}", f"model and implementation disagree on the {nm} side of case {i}: "
                            + (wcases[i][:300] if nm == "write" else rcases[i][:300]), {"kind": nm, "index": i}, no_input=not has)
    return confirm_known(ml)


def confirm_known(ml):
    from molli.chem import Molecule, Atom, Element, AtomType
    m = Molecule(n_atoms=0, name="d")
    m.add_atom(Atom(Element.Unknown, atype=AtomType.Dummy), [0.0, 0.0, 0.0])
    text = m.dumps_xyz()
    back = c10.observe(ml, "xyz", text)
    v = judge_roundtrip("xyz", [([0], [True], [(0.0, 0.0, 0.0)])], back)
    return [v[0]] if v and v[0] == "C08:xyz:dummy-atype-lost" else []


def replay(ctx, data):
    warnings.simplefilter("ignore")
    import molli as ml
    out = []
    if data.get("kind") == "units":
        import numpy as np
        for fmt, api, uname, fn, exp in unit_cases(ml, ctx.rng):
            if (fmt, api, uname) == (data["fmt"], data["api"], data["unit"]):
                r = c10.run_limited(fn)
                if r[0] != "ok" or not np.allclose(np.asarray(r[1], dtype=float), exp, rtol=2e-5, atol=2e-6):
                    out.append(vlib.Violation(f"C08:units:{fmt}:{uname}", f"{api} with source_units={uname}: {r}"))
    elif data.get("kind") == "roundtrip":
        text = data["text"]
        back = c10.observe(ml, "xyz", text)
        orig = [(el, du, [tuple(c) for c in co]) for el, du, co in data.get("orig", [])]
        v = judge_roundtrip("xyz", orig, back) if orig else (("C08:xyz:cannot-read-back", str(back)) if back[0] != "ok" else None)
        if v:
            out.append(vlib.Violation(v[0], v[1]))
    return out
